//! C09 — NSEC3 denial of existence: sound, complete, iteration-bounded.
//!
//! Observation point 1 (soundness, limits): hook H2 `hickory_net::dnssec::verif::verify_nsec3`
//! fed with generated (zone, query, rcode, answers, NSEC3 set, limits). The oracle only ever judges
//!   * a `Secure` verdict: (a) the response's claim (DESIGN A.4) must be true of the zone the
//!     records were taken from; (b) no zone within two edits may contain all presented records of
//!     one parameter group in its genuine chain while refuting the claim (A.5 counter-model; the
//!     counter-models include insecure delegations hidden in Opt-Out spans); (c) the records that
//!     carry the proof must share hash parameters and be owned by the response's zone — read as
//!     "some parameter-homogeneous in-zone subset must entail the claim", see below;
//!   * the iteration clauses: every presented record above the hard limit ⇒ verdict must be
//!     Bogus; Secure needs a proof from records at or below the soft limit.
//! Observation point 2 (completeness): every generated zone is signed by hickory's own
//! `InMemoryZoneHandler` in NSEC3 mode, every query goes (DO=1, wire) through
//! `Catalog::handle_request`, and the real `DnssecDnsHandle` (trust anchor = zone key, virtual
//! clock) validates the response through an in-process `DnsHandle` adapter (`e2e.rs`).
//!
//! Reading of "all records sharing hash parameters and belonging to the response's zone"
//! (RFC 5155 §8.2): a validator MUST ignore NSEC3 RRs with unknown hash algorithm / flags and MAY
//! treat a response with differing parameters as bogus — it is not obliged to. So a Secure
//! verdict on a mixed set is a violation only when NO parameter-homogeneous, in-zone subgroup of
//! the presented records entails the claim (each group judged by (a)+(b) under its own
//! parameters). A record owned by another zone can never contribute.
//!
//! Rule ids (= oracle clause) and signatures:
//!   secure-unjustified   (a)/(b)/(c) above; `claim | cause | parameter class | validator`
//!   foreign-zone-secure  Secure although no presented record is owned by the response's zone
//!   soft-limit-secure / hard-limit-not-bogus   the iteration clauses
//!   e2e-own-proof-rejected / e2e-secure-claim-false / chain-mismatch   see `e2e.rs`
//! A violating set is first reduced greedily (foreign records, then the wrap-around record, then
//! the rest) to a minimal set that still gets Secure and still violates; the *cause* is then read
//! off that minimal set by priority-ordered structural predicates (`cause_of`): does the verdict
//! change when the chain's wrap-around record is presented as two plain spans (differential), do
//! records of two parameter sets carry the proof, is the apex denied without a matching record, is
//! a wildcard answer accompanied by a record matching the query name, is the matching / closest
//! encloser record the parent side of a delegation, is only the query name covered by an Opt-Out
//! record for QTYPE DS, is the next closer name covered by an Opt-Out record. If none applies the
//! detailed signature (`other:<clause>:<what is false / which proof part is missing>`) is kept.
//! The predicates only ever look at the presented records, never at hickory's internals.
//!
//! Don't-cares (never reported):
//!   * verdicts other than Secure, except the hard-limit clause;
//!   * claims that are "false" only in a harmless way: NODATA where NXDOMAIN is the truth, an
//!     expansion whose wildcard (or its parent) does not exist (its RRSIG could not be genuine),
//!     DS at the zone apex (parent-side data);
//!   * responses without SOA and without answers whose NSEC3 owners name a zone that encloses the
//!     query name: the response's zone is then not determined by the input;
//!   * hash algorithm other than SHA-1 and flag bits other than Opt-Out: not representable — the
//!     record decoder rejects them (probed at start-up, counted under `probe/*`);
//!   * panics of the validator (none have been seen; counted under `h2_panics`);
//!   * end-to-end: queries answered with a referral, a CNAME chain or REFUSED; responses in which
//!     hickory's server already deviates from RFC 1034/4592 (C10's findings) are not judged for
//!     completeness (they are judged for soundness: accepting them as Secure is reported); an
//!     `Insecure` verdict caused by an Opt-Out span counts as accepted; under opt-out, names whose
//!     closest encloser (or which themselves) are empty non-terminals without NSEC3 RR (RFC 5155
//!     §7.1 lets the signer omit them; no §8 proof exists then).

mod denial;
mod e2e;
#[path = "../c10/refzone.rs"]
mod refzone;
mod vrt;

use std::collections::{BTreeMap, BTreeSet, HashMap};
use std::rc::Rc;

use hickory_net::dnssec::verif::verify_nsec3;
use hickory_proto::dnssec::rdata::{DNSSECRData, SigInput, NSEC3, RRSIG};
use hickory_proto::dnssec::{Algorithm, Nsec3HashAlgorithm, Proof};
use hickory_proto::op::{Query, ResponseCode};
use hickory_proto::rr::{Name as HName, RData, Record, RecordType, SerialNumber};
use hickory_proto::serialize::binary::BinDecoder;
use serde_json::{json, Value};

use denial::{base32hex, Candidates, Claim, HashParams, Hasher, Truth, N3};
use refzone::{ty, Name, Zone};
use vh::hk;
use vh::mon::{self, hex, unhex, Ctx, Reporter};
use vh::prng::{fnv64, Rng};

pub const QTYPES: [u16; 6] = [ty::A, ty::TXT, ty::MX, ty::DS, ty::CNAME, ty::NS];
pub const LIMIT_CONFIGS: [(u16, u16); 5] = [(100, 500), (0, 0), (1, 5), (5, 5), (0, 500)];
const MAX_REPORTS_PER_SIG: u64 = 20;

// ---------------------------------------------------------------------------------------------
// parameters, records

#[derive(Clone, Debug, PartialEq, Eq, Hash)]
pub struct ZParams {
    pub hp: HashParams,
    pub opt_out: bool,
}

impl ZParams {
    pub fn to_json(&self) -> Value {
        json!({"salt": hex(&self.hp.salt), "iterations": self.hp.iterations, "opt_out": self.opt_out})
    }
    pub fn from_json(v: &Value) -> ZParams {
        ZParams {
            hp: HashParams { salt: unhex(v["salt"].as_str().unwrap_or("")), iterations: v["iterations"].as_u64().unwrap_or(0) as u16 },
            opt_out: v["opt_out"].as_bool().unwrap_or(false),
        }
    }
    pub fn class(&self) -> &'static str {
        if self.opt_out {
            "optout"
        } else {
            "plain"
        }
    }
}

pub fn hname(n: &[Vec<u8>]) -> HName {
    hk::to_name(n).expect("harness name is a valid DNS name")
}

/// one presented NSEC3 RR: the zone its owner name is in, its hash parameters, the record
#[derive(Clone, Debug)]
pub struct Rec {
    pub zone: Name,
    pub hp: HashParams,
    pub n3: N3,
    /// where the record comes from: genuine | salt | iter | salt+iter | sibling | owner:sibling |
    /// owner:child | owner:parent
    pub tag: String,
    h: Rc<(HName, NSEC3)>,
}

impl Rec {
    pub fn new(zone: &Name, hp: &HashParams, n3: N3, tag: &str) -> Rec {
        let mut owner = vec![base32hex(&n3.hash)];
        owner.extend(zone.iter().cloned());
        let data = NSEC3::new(Nsec3HashAlgorithm::SHA1, n3.opt_out, hp.iterations, hp.salt.clone(), n3.next.clone(), n3.types.iter().map(|t| RecordType::from(*t)));
        Rec { zone: zone.clone(), hp: hp.clone(), n3, tag: tag.to_string(), h: Rc::new((hname(&owner), data)) }
    }
    pub fn renamed(&self, zone: &Name, tag: &str) -> Rec {
        Rec::new(zone, &self.hp, self.n3.clone(), tag)
    }
    pub fn key(&self) -> u64 {
        let mut b = refzone::wire_name(&self.zone);
        b.extend_from_slice(&self.hp.salt);
        b.extend_from_slice(&self.hp.iterations.to_be_bytes());
        b.extend_from_slice(&self.n3.fp().to_le_bytes());
        fnv64(&b)
    }
    pub fn to_json(&self) -> Value {
        json!({
            "zone": refzone::show(&self.zone),
            "owner": format!("{}.{}", String::from_utf8_lossy(&base32hex(&self.n3.hash)), refzone::show(&self.zone)),
            "hash": hex(&self.n3.hash),
            "next": hex(&self.n3.next),
            "next_b32": String::from_utf8_lossy(&base32hex(&self.n3.next)),
            "types": self.n3.types.iter().map(|t| refzone::type_name(*t)).collect::<Vec<_>>(),
            "opt_out": self.n3.opt_out,
            "salt": hex(&self.hp.salt),
            "iterations": self.hp.iterations,
            "hashes_name": refzone::show(&self.n3.of),
            "tag": self.tag,
        })
    }
    pub fn from_json(v: &Value) -> Option<Rec> {
        let zone = refzone::name(v["zone"].as_str()?);
        let hp = HashParams { salt: unhex(v["salt"].as_str()?), iterations: v["iterations"].as_u64()? as u16 };
        let types: BTreeSet<u16> = v["types"].as_array()?.iter().filter_map(|t| t.as_str().and_then(refzone::type_code).or_else(|| t.as_u64().map(|x| x as u16))).collect();
        let n3 = N3 { hash: unhex(v["hash"].as_str()?), next: unhex(v["next"].as_str()?), types, opt_out: v["opt_out"].as_bool()?, of: refzone::name(v["hashes_name"].as_str().unwrap_or(".")) };
        Some(Rec::new(&zone, &hp, n3, v["tag"].as_str().unwrap_or("genuine")))
    }
}

// ---------------------------------------------------------------------------------------------
// one H2 case

#[derive(Clone, Debug)]
pub struct H2Case {
    pub q: Name,
    pub t: u16,
    pub claim: Claim,
    /// Some(zone apex) is passed as `soa` (an SOA RR was in the authority section)
    pub soa: bool,
    pub s: Vec<Rec>,
    pub limits: (u16, u16),
    /// how the record set was chosen (evidence only)
    pub mode: &'static str,
}

impl H2Case {
    fn rcode(&self) -> ResponseCode {
        if self.claim == Claim::NxDomain {
            ResponseCode::NXDomain
        } else {
            ResponseCode::NoError
        }
    }
    fn to_json(&self, z: &Zone, p: &ZParams) -> Value {
        json!({
            "kind": "h2",
            "zone": z.to_json(),
            "params": p.to_json(),
            "query": {"qname": refzone::show(&self.q), "qtype": refzone::type_name(self.t)},
            "rcode": if self.claim == Claim::NxDomain { "NXDOMAIN" } else { "NOERROR" },
            "answer_rrsig_labels": match self.claim { Claim::Expansion { labels } => json!(labels), _ => Value::Null },
            "soa_present": self.soa,
            "nsec3": self.s.iter().map(|r| r.to_json()).collect::<Vec<_>>(),
            "limits": [self.limits.0, self.limits.1],
            "mode": self.mode,
        })
    }
    fn from_json(c: &Value) -> Option<(Zone, ZParams, H2Case)> {
        let z = Zone::from_json(&c["zone"]).ok()?;
        let p = ZParams::from_json(&c["params"]);
        let q: Name = refzone::name(c["query"]["qname"].as_str()?);
        let t = refzone::type_code(c["query"]["qtype"].as_str()?)?;
        let claim = match (c["rcode"].as_str()?, c["answer_rrsig_labels"].as_u64()) {
            ("NXDOMAIN", _) => Claim::NxDomain,
            (_, Some(l)) => Claim::Expansion { labels: l as usize },
            _ => Claim::NoData,
        };
        let s: Vec<Rec> = c["nsec3"].as_array()?.iter().filter_map(Rec::from_json).collect();
        let limits = (c["limits"][0].as_u64().unwrap_or(100) as u16, c["limits"][1].as_u64().unwrap_or(500) as u16);
        Some((z, p, H2Case { q, t, claim, soa: c["soa_present"].as_bool().unwrap_or(true), s, limits, mode: "replay" }))
    }
    fn canonical_hash(&self, zhash: u64) -> u64 {
        let mut b = zhash.to_le_bytes().to_vec();
        b.extend(refzone::wire_name(&self.q));
        b.extend_from_slice(&self.t.to_be_bytes());
        match self.claim {
            Claim::NxDomain => b.push(1),
            Claim::NoData => b.push(2),
            Claim::Expansion { labels } => b.extend_from_slice(&[3, labels as u8]),
        }
        b.push(self.soa as u8);
        let mut keys: Vec<u64> = self.s.iter().map(|r| r.key()).collect();
        keys.sort_unstable();
        for k in keys {
            b.extend_from_slice(&k.to_le_bytes());
        }
        b.extend_from_slice(&self.limits.0.to_be_bytes());
        b.extend_from_slice(&self.limits.1.to_be_bytes());
        fnv64(&b)
    }
}

/// wildcard-expanded answer: one RR of the queried type owned by the query name + an RRSIG whose
/// Labels field names the wildcard (`*.` + rightmost `labels` labels)
fn expanded_answers(q: &Name, t: u16, labels: usize, apex: &Name) -> Vec<Record> {
    let owner = hname(q);
    let rd = match t {
        x if x == ty::A => refzone::rd_a(7),
        x if x == ty::MX => refzone::rd_mx(10, &refzone::name("mx.y.")),
        x if x == ty::CNAME => refzone::rd_name(&refzone::name("t.y.")),
        x if x == ty::NS => refzone::rd_name(&refzone::name("ns.y.")),
        x if x == ty::DS => refzone::rd_ds(9),
        _ => refzone::rd_txt("expanded"),
    };
    let mut dec = BinDecoder::new(&rd);
    let sub = dec.split_off(rd.len()).expect("rdata slice");
    let data = RData::read(sub, RecordType::from(t)).expect("filler rdata decodes");
    let rr = Record::from_rdata(owner.clone(), 300, data);
    let input = SigInput {
        type_covered: RecordType::from(t),
        algorithm: Algorithm::ED25519,
        num_labels: labels as u8,
        original_ttl: 300,
        sig_expiration: SerialNumber::new(1_702_592_000),
        sig_inception: SerialNumber::new(1_700_000_000),
        key_tag: 4711,
        signer_name: hname(apex),
    };
    let sig = Record::from_rdata(owner, 300, RData::DNSSEC(DNSSECRData::RRSIG(RRSIG::from_sig(input, vec![0u8; 64]))));
    vec![rr, sig]
}

pub fn call_h2(apex: &Name, c: &H2Case) -> Result<Proof, mon::PanicRecord> {
    let query = Query::new(hname(&c.q), RecordType::from(c.t));
    let soa = hname(apex);
    let answers = match c.claim {
        Claim::Expansion { labels } => expanded_answers(&c.q, c.t, labels, apex),
        _ => Vec::new(),
    };
    let pairs: Vec<(&HName, &NSEC3)> = c.s.iter().map(|r| (&r.h.0, &r.h.1)).collect();
    mon::catch(|| verify_nsec3(&query, if c.soa { Some(&soa) } else { None }, c.rcode(), &answers, &pairs, c.limits.0, c.limits.1))
}

// ---------------------------------------------------------------------------------------------
// per-zone environment: hashers, chains, counter-model candidates (memoised)

#[derive(Clone, PartialEq, Eq, Hash)]
struct CandKey {
    q: Name,
    /// 0 for claims whose truth does not depend on the type
    t: u16,
    claim: Claim,
    hp: HashParams,
    opt_out: bool,
}

pub struct Env<'a> {
    pub z: &'a Zone,
    pub zhash: u64,
    pub p: ZParams,
    hashers: HashMap<HashParams, Hasher>,
    chains: HashMap<(Name, HashParams, bool), Rc<Vec<Rec>>>,
    cands: HashMap<CandKey, Rc<Candidates>>,
    pub max_double: usize,
    pub cand_builds: u64,
}

impl<'a> Env<'a> {
    pub fn new(z: &'a Zone, p: &ZParams, max_double: usize) -> Env<'a> {
        Env { z, zhash: fnv64(&z.canonical_bytes()), p: p.clone(), hashers: HashMap::new(), chains: HashMap::new(), cands: HashMap::new(), max_double, cand_builds: 0 }
    }
    pub fn hasher(&mut self, hp: &HashParams) -> &mut Hasher {
        self.hashers.entry(hp.clone()).or_insert_with(|| Hasher::new(hp))
    }
    /// genuine chain of this zone's content under apex `zone` (the zone itself, or the same
    /// content re-rooted at a sibling apex) with the given parameters
    pub fn chain(&mut self, zone: &Name, hp: &HashParams, opt_out: bool, tag: &str) -> Rc<Vec<Rec>> {
        let key = (zone.clone(), hp.clone(), opt_out);
        if let Some(c) = self.chains.get(&key) {
            return c.clone();
        }
        let recs: Vec<Rec> = if *zone == self.z.apex {
            let z = self.z;
            let hs = self.hasher(hp);
            denial::nsec3_chain(z, opt_out, hs).into_iter().map(|n| Rec::new(zone, hp, n, tag)).collect()
        } else {
            let z2 = reroot(self.z, zone);
            let mut hs = Hasher::new(hp);
            denial::nsec3_chain(&z2, opt_out, &mut hs).into_iter().map(|n| Rec::new(zone, hp, n, tag)).collect()
        };
        let rc = Rc::new(recs);
        self.chains.insert(key, rc.clone());
        rc
    }
    fn candidates(&mut self, q: &Name, t: u16, claim: &Claim, hp: &HashParams, opt_out: bool) -> Rc<Candidates> {
        let kt = if *claim == Claim::NoData { t } else { 0 };
        let key = CandKey { q: q.clone(), t: kt, claim: claim.clone(), hp: hp.clone(), opt_out };
        if let Some(c) = self.cands.get(&key) {
            return c.clone();
        }
        let z = self.z;
        let md = self.max_double;
        let tt = if kt == 0 { ty::A } else { t };
        let hs = self.hasher(hp);
        let c = Rc::new(Candidates::build(z, q, tt, claim, opt_out, hs, md));
        self.cand_builds += 1;
        self.cands.insert(key, c.clone());
        c
    }
}

/// the same zone content under another apex (sibling zone built from the same universe)
fn reroot(z: &Zone, apex: &Name) -> Zone {
    let mut z2 = Zone::new(apex);
    let k = z.apex.len();
    for (o, t, rd) in z.records() {
        if !z.in_zone(&o) {
            continue;
        }
        let mut n: Name = o[..o.len() - k].to_vec();
        n.extend(apex.iter().cloned());
        z2.add(&n, t, rd);
    }
    z2
}

// ---------------------------------------------------------------------------------------------
// the oracle

pub struct Finding {
    pub rule: &'static str,
    pub sig: String,
    pub expected: Value,
}

fn proof_name(p: Proof) -> &'static str {
    match p {
        Proof::Secure => "Secure",
        Proof::Insecure => "Insecure",
        Proof::Bogus => "Bogus",
        Proof::Indeterminate => "Indeterminate",
    }
}

/// parameter / mixture class of a presented set (part of every signature): a set whose records
/// all sit in the response's zone under one parameter set is `plain` / `optout` (also when those
/// parameters are not the ones the zone was first generated with – a chain is a chain); anything
/// else is `mixed:` + the kinds of foreign records present
fn pclass(env: &Env, c: &H2Case) -> String {
    let first = &c.s[0];
    let homogeneous = c.s.iter().all(|r| r.zone == env.z.apex && r.hp == first.hp);
    if homogeneous {
        return if c.s.iter().any(|r| r.n3.opt_out) { "optout".into() } else { "plain".into() };
    }
    let mut tags: BTreeSet<&str> = BTreeSet::new();
    for r in &c.s {
        if r.tag != "genuine" {
            tags.insert(r.tag.as_str());
        }
    }
    format!("mixed:{}", tags.into_iter().collect::<Vec<_>>().join(","))
}

#[derive(PartialEq)]
enum ZoneStatus {
    Ok,
    Foreign(&'static str),
    Undetermined,
}

fn zone_status(z: &Zone, c: &H2Case, zone: &Name) -> ZoneStatus {
    if *zone == z.apex {
        return ZoneStatus::Ok;
    }
    let class = if refzone::is_subdomain(zone, &z.apex) {
        "child-zone-owner"
    } else if refzone::is_subdomain(&z.apex, zone) {
        "parent-zone-owner"
    } else {
        "sibling-zone-owner"
    };
    if c.soa {
        return ZoneStatus::Foreign(class);
    }
    if !refzone::is_subdomain(&c.q, zone) {
        return ZoneStatus::Foreign(class);
    }
    if matches!(c.claim, Claim::Expansion { .. }) {
        // the answer's RRSIG names the signer (the zone apex)
        return ZoneStatus::Foreign(class);
    }
    ZoneStatus::Undetermined
}

/// Judge one verdict. Returns findings (possibly several clauses) and don't-care notes.
pub fn judge(env: &mut Env, c: &H2Case, verdict: Proof, notes: &mut Vec<String>) -> Vec<Finding> {
    let mut out = Vec::new();
    let (soft, hard) = c.limits;
    let pc = pclass(env, c);
    let limcls = format!("soft={soft},hard={hard}");
    // ---- iteration clauses
    if c.s.iter().all(|r| r.hp.iterations > hard) && verdict != Proof::Bogus {
        out.push(Finding {
            rule: "hard-limit-not-bogus",
            sig: format!("{}|{}", proof_name(verdict), limcls),
            expected: json!({"verdict": "Bogus", "why": format!("every presented NSEC3 has iterations > hard limit {hard}")}),
        });
    }
    if verdict != Proof::Secure {
        return out;
    }
    // ---- groups: (owner zone, hash parameters)
    let mut groups: BTreeMap<(Name, HashParams), Vec<&Rec>> = BTreeMap::new();
    for r in &c.s {
        groups.entry((r.zone.clone(), r.hp.clone())).or_default().push(r);
    }
    let mut eligible: Vec<(&(Name, HashParams), &Vec<&Rec>)> = Vec::new();
    let mut in_zone_over_soft = false;
    let mut foreign_class: Option<&'static str> = None;
    for (k, g) in &groups {
        match zone_status(env.z, c, &k.0) {
            ZoneStatus::Ok => {
                if k.1.iterations > soft {
                    in_zone_over_soft = true;
                } else {
                    eligible.push((k, g));
                }
            }
            ZoneStatus::Foreign(cls) => foreign_class = Some(cls),
            ZoneStatus::Undetermined => {
                notes.push("dontcare/zone-undetermined".into());
                return out;
            }
        }
    }
    if eligible.is_empty() {
        if in_zone_over_soft {
            out.push(Finding {
                rule: "soft-limit-secure",
                sig: format!("{}|{}|{}", c.claim.as_str(), limcls, pc),
                expected: json!({"verdict": "not Secure", "why": format!("no presented in-zone NSEC3 has iterations <= soft limit {soft}")}),
            });
        } else {
            out.push(Finding {
                rule: "foreign-zone-secure",
                sig: format!("{}|{}|soa={}|validator", c.claim.as_str(), foreign_class.unwrap_or("?"), c.soa as u8),
                expected: json!({"verdict": "not Secure", "why": "no presented NSEC3 is owned by the response's zone"}),
            });
        }
        return out;
    }
    // ---- (a) truth of the claim in the zone the records come from
    let truth = denial::claim_truth(env.z, &c.q, c.t, &c.claim);
    let apexf = if c.q == env.z.apex { ",apex" } else { "" };
    match &truth {
        Truth::False(reason) => {
            out.push(Finding {
                rule: "secure-unjustified",
                sig: format!("{}|other:claim-false:{reason}{apexf}|{}|validator", c.claim.as_str(), pc),
                expected: json!({"verdict": "not Secure", "clause": "claim-false", "why": format!("the claim is false in the zone: {reason}")}),
            });
            return out;
        }
        Truth::NotEntailable(reason) => {
            out.push(Finding {
                rule: "secure-unjustified",
                sig: format!("{}|other:claim-unentailable:{reason}|{}|validator", c.claim.as_str(), pc),
                expected: json!({"verdict": "not Secure", "clause": "claim-unentailable", "why": format!("records of this zone cannot prove anything here: {reason} (RFC 5155 8.3/8.5, RFC 6840 4.1)")}),
            });
            return out;
        }
        Truth::Ambiguous(r) => notes.push(format!("dontcare/claim-ambiguous/{r}")),
        Truth::True => {}
    }
    // ---- (b)+(c) some eligible group must entail the claim
    let mut witnesses: Vec<Value> = Vec::new();
    let mut best: Option<denial::Roles> = None;
    for (k, g) in &eligible {
        let opt_out = g[0].n3.opt_out;
        let cands = env.candidates(&c.q, c.t, &c.claim, &k.1, opt_out);
        let fps: Vec<u64> = g.iter().map(|r| r.n3.fp()).collect();
        let Some(cm) = cands.find(&fps) else {
            // no counter-model within reach for this group: the verdict may be justified
            return out;
        };
        let z2 = denial::apply_all(env.z, &cm.edits);
        witnesses.push(json!({
            "group": {"salt": hex(&k.1.salt), "iterations": k.1.iterations, "records": g.len()},
            "edits": cm.edits.iter().map(denial::show_edit).collect::<Vec<_>>(),
            "claim_in_counter_model": cm.truth.reason(),
            "counter_model_zone": z2.map(|z| z.to_text()),
        }));
        if truth == Truth::True || matches!(c.claim, Claim::Expansion { .. }) {
            let n3s: Vec<&N3> = g.iter().map(|r| &r.n3).collect();
            let z = env.z;
            let hs = env.hasher(&k.1);
            let r = denial::roles(z, &c.q, c.t, &c.claim, opt_out, &n3s, hs);
            let better = match &best {
                None => true,
                Some(b) => r.parts.iter().filter(|p| !p.1).count() < b.parts.iter().filter(|p| !p.1).count(),
            };
            if better {
                best = Some(r);
            }
        }
    }
    let feature = match &best {
        Some(r) => {
            if truth == Truth::True && r.complete() && !r.nc_optout {
                // the reference proof is complete and yet a counter-model exists: the two halves
                // of the oracle disagree — never report this as a finding of hickory
                notes.push("oracle-inconsistency".into());
            }
            let mut f = format!("{}:missing={}", r.sub, r.missing());
            if r.nc_optout {
                f.push_str(",nc-optout");
            }
            f
        }
        None => format!("ambiguous:{}", truth.reason()),
    };
    out.push(Finding {
        rule: "secure-unjustified",
        sig: format!("{}|other:not-entailed:{feature}{apexf}|{}|validator", c.claim.as_str(), pc),
        expected: json!({"verdict": "not Secure", "clause": "not-entailed", "why": "a zone exists in which every presented record (of each parameter group) is genuine and the claim is false", "counter_models": witnesses}),
    });
    out
}

/// Structural cause class of an unjustified Secure verdict on a (minimal) case — the signature
/// discriminator. Priority-ordered predicates over what the set presents (never over hickory's
/// internals); `None` = none applies, the detailed signature from `judge` is kept.
///  0 wraparound-dependent   verdict changes when the wrap-around record is split (differential)
///  0b mixed-parameter-proof the minimal set needs in-zone records of two different parameter sets
///  1 apex-without-match     NODATA for the apex without a record matching it
///  2 answer-with-qname-match  wildcard-expanded answer, yet a record matches the query name
///  3 nodata-at-delegation   NODATA (not DS) from a matching record that is the parent side of a cut
///  4 ds-optout-cover-only   QTYPE DS: an Opt-Out record covers the query name, no closest-encloser proof
///  5 encloser-is-delegation the matched closest encloser has NS without SOA
///  6 optout-next-closer     the next closer name is covered by an Opt-Out record (claim not DS-NODATA)
pub fn cause_of(env: &mut Env, c: &H2Case) -> Option<&'static str> {
    if wrap_dependent(&env.z.apex, c) {
        return Some("wraparound-dependent");
    }
    // the largest in-zone group
    let mut groups: BTreeMap<HashParams, Vec<&N3>> = BTreeMap::new();
    for r in &c.s {
        if r.zone == env.z.apex {
            groups.entry(r.hp.clone()).or_default().push(&r.n3);
        }
    }
    if groups.len() > 1 {
        // a minimal unjustified set that needs records of two parameter sets: the proof was
        // assembled across chains
        return Some("mixed-parameter-proof");
    }
    let (hp, g) = groups.into_iter().max_by_key(|(_, g)| g.len())?;
    let al = env.z.apex.len();
    let hs = env.hasher(&hp);
    let p = denial::presented(&c.q, &c.claim, al, &g, hs);
    let nodata = c.claim == Claim::NoData;
    let expansion = matches!(c.claim, Claim::Expansion { .. });
    if nodata && c.q == env.z.apex && !p.q_matched {
        return Some("apex-without-match");
    }
    if expansion && p.q_matched {
        return Some("answer-with-qname-match");
    }
    if nodata && p.q_matched && p.q_deleg && c.t != ty::DS {
        return Some("nodata-at-delegation");
    }
    // (for an expansion the next closer name comes from the RRSIG Labels field; if that name is
    // covered, an Opt-Out flag on the cover is cause 6, not this one)
    let ce_proof_presented = if expansion { p.nc_cover.is_some() } else { p.ce_matched && p.nc_cover.is_some() };
    if c.t == ty::DS && (nodata || expansion) && !p.q_matched && p.q_cover == Some(true) && !ce_proof_presented {
        return Some("ds-optout-cover-only");
    }
    if !expansion && p.ce_matched && p.ce_deleg {
        return Some("encloser-is-delegation");
    }
    if p.nc_cover == Some(true) && !(nodata && c.t == ty::DS) {
        return Some("optout-next-closer");
    }
    None
}

// ---------------------------------------------------------------------------------------------
// runner

pub struct Runner<'r> {
    pub rep: &'r mut Reporter,
    reported: BTreeMap<String, u64>,
    raw_seen: BTreeMap<String, u64>,
    pub max_minimise_per_raw: u64,
}

/// Does the Secure verdict depend on how the validator treats the wrap-around record (owner hash
/// >= next hash)? Present that record as two non-wrapping records with the same coverage —
/// (owner, ff..ff) and (00..00, next) — and ask again.
pub fn wrap_dependent(apex: &Name, c: &H2Case) -> bool {
    if !c.s.iter().any(|r| r.n3.hash >= r.n3.next) {
        return false;
    }
    let mut t = c.clone();
    t.s.clear();
    for r in &c.s {
        if r.n3.hash >= r.n3.next {
            let len = r.n3.hash.len();
            let hi = N3 { hash: r.n3.hash.clone(), next: vec![0xff; len], types: r.n3.types.clone(), opt_out: r.n3.opt_out, of: r.n3.of.clone() };
            t.s.push(Rec::new(&r.zone, &r.hp, hi, &r.tag));
            if r.n3.next.iter().any(|b| *b != 0) {
                let lo = N3 { hash: vec![0; len], next: r.n3.next.clone(), types: BTreeSet::new(), opt_out: r.n3.opt_out, of: Vec::new() };
                t.s.push(Rec::new(&r.zone, &r.hp, lo, &r.tag));
            }
        } else {
            t.s.push(r.clone());
        }
    }
    !matches!(call_h2(apex, &t), Ok(Proof::Secure))
}

/// Greedy reduction of a violating Secure case: drop records one at a time (foreign records
/// first, then the wrap-around record, then the rest in hash order) while the validator still
/// says Secure and the same oracle clause still fires.
fn minimise(env: &mut Env, c: &H2Case, f: Finding) -> (H2Case, Finding) {
    let apex = env.z.apex.clone();
    let mut cur = c.clone();
    let mut curf = f;
    loop {
        let mut order: Vec<usize> = (0..cur.s.len()).collect();
        order.sort_by_key(|i| {
            let r = &cur.s[*i];
            (if r.tag != "genuine" { 0 } else if r.n3.hash >= r.n3.next { 1 } else { 2 }, r.n3.hash.clone(), r.key())
        });
        let mut removed = false;
        for i in order {
            if cur.s.len() == 1 {
                break;
            }
            let mut t = cur.clone();
            t.s.remove(i);
            if let Ok(Proof::Secure) = call_h2(&apex, &t) {
                let mut notes = Vec::new();
                // any clause that judges a Secure verdict will do: the minimal set is what matters
                if let Some(f2) = judge(env, &t, Proof::Secure, &mut notes).into_iter().find(|x| x.rule != "hard-limit-not-bogus") {
                    cur = t;
                    curf = f2;
                    removed = true;
                    break;
                }
            }
        }
        if !removed {
            break;
        }
    }
    (cur, curf)
}

impl<'r> Runner<'r> {
    pub fn new(rep: &'r mut Reporter) -> Self {
        Self { rep, reported: BTreeMap::new(), raw_seen: BTreeMap::new(), max_minimise_per_raw: 60 }
    }

    pub fn report(&mut self, rule: &str, sig: &str, case: impl FnOnce() -> Value, expected: Value, observed: Value) {
        self.rep.count("deviations");
        let n = self.reported.entry(format!("{rule}|{sig}")).or_insert(0);
        *n += 1;
        if *n > MAX_REPORTS_PER_SIG {
            self.rep.count(&format!("capped/{rule}|{sig}"));
            return;
        }
        self.rep.violation(rule, sig, case(), expected, observed);
    }

    fn run_h2(&mut self, env: &mut Env, c: &H2Case) -> Option<Proof> {
        debug_assert!(!c.s.is_empty());
        self.rep.eval();
        self.rep.nontrivial(c.canonical_hash(env.zhash));
        let verdict = match call_h2(&env.z.apex, c) {
            Ok(v) => v,
            Err(p) => {
                // outside the statement (no verdict at all); recorded, not judged
                self.rep.count("h2_panics");
                self.rep.count(&format!("h2_panic_at/{}", p.site()));
                return None;
            }
        };
        let vn = proof_name(verdict);
        let rep = &mut *self.rep;
        rep.count(&format!("h2/{vn}"));
        rep.count(&format!("claim/{}", c.claim.as_str()));
        rep.count(&format!("claim/{}/{vn}", c.claim.as_str()));
        rep.count(&format!("mode/{}", c.mode));
        if verdict == Proof::Secure {
            rep.count(&format!("mode/{}/Secure", c.mode));
        }
        rep.count(if c.soa { "soa/present" } else { "soa/absent" });
        if c.limits != LIMIT_CONFIGS[0] {
            rep.count("limits/non-default");
        }
        let its = c.s.iter().map(|r| r.hp.iterations).max().unwrap_or(0);
        let lcls = if its > c.limits.1 {
            "gt-hard"
        } else if its > c.limits.0 {
            "gt-soft"
        } else {
            "le-soft"
        };
        rep.count(&format!("limit/{}-{}/{lcls}/{vn}", c.limits.0, c.limits.1));
        rep.count(&format!("limitclass/{lcls}"));
        let mut mixed = false;
        for r in &c.s {
            if r.tag != "genuine" {
                mixed = true;
                rep.count(&format!("mix/{}", r.tag));
            }
        }
        if mixed {
            rep.count("mixed_sets");
            rep.count(&format!("mixed_sets/{vn}"));
        }
        if c.s.iter().any(|r| r.n3.opt_out) {
            rep.count("optout_sets");
            rep.count(&format!("optout_sets/{vn}"));
        }
        let mut notes = Vec::new();
        let findings = judge(env, c, verdict, &mut notes);
        for n in &notes {
            self.rep.count(n);
            if n == "oracle-inconsistency" {
                self.rep.inconclusive("oracle inconsistency: a complete reference proof admitted a counter-model (harness defect)");
                let (z, p) = (env.z, env.p.clone());
                let exp = findings.iter().map(|f| f.expected.clone()).next().unwrap_or(Value::Null);
                self.report("harness-oracle-inconsistency", c.claim.as_str(), || c.to_json(z, &p), exp, json!({"verdict": vn}));
            }
        }
        if verdict == Proof::Secure && findings.is_empty() {
            self.rep.count("secure_justified");
            self.rep.count(&format!("secure_justified/{}", c.claim.as_str()));
            let (z, p) = (env.z, env.p.clone());
            self.rep.sample(|| json!({"verdict": vn, "case": c.to_json(z, &p)}));
        }
        for f in findings {
            let (z, p) = (env.z, env.p.clone());
            self.rep.count(&format!("raw/{}", f.rule));
            if verdict != Proof::Secure {
                self.report(f.rule, &f.sig, || c.to_json(z, &p), f.expected, json!({"verdict": vn}));
                continue;
            }
            // reduce to a minimal still-violating set so that the signature describes what the
            // validator relied on, not what else happened to be in the set
            let raw = format!("{}|{}", f.rule, f.sig);
            let n = self.raw_seen.entry(raw).or_insert(0);
            *n += 1;
            if *n > self.max_minimise_per_raw {
                self.rep.count("deviations");
                self.rep.count("deviations_not_minimised(raw signature seen often)");
                continue;
            }
            let (cm, mut fm) = minimise(env, c, f);
            if cm.s.len() < c.s.len() {
                self.rep.count("minimised");
            }
            let mut observed = json!({"verdict": vn, "reduced_from_records": c.s.len()});
            if fm.rule == "secure-unjustified" || fm.rule == "foreign-zone-secure" {
                if let Some(cause) = cause_of(env, &cm) {
                    let pc = pclass(env, &cm);
                    if cause == "wraparound-dependent" {
                        // differential discriminator: the verdict is no longer Secure when the
                        // chain's last (wrap-around) record is presented as the two equivalent
                        // non-wrapping spans
                        let coarse = if pc.starts_with("mixed") { "mixed".to_string() } else { pc };
                        fm.rule = "secure-unjustified";
                        fm.sig = format!("{}|{cause}|{coarse}|validator", cm.claim.as_str());
                        observed["verdict_with_wraparound_record_split_into_two_plain_spans"] = json!("not Secure");
                    } else if fm.rule == "secure-unjustified" {
                        fm.sig = format!("{}|{cause}|{pc}|validator", cm.claim.as_str());
                    }
                    observed["cause_class"] = json!(cause);
                }
            }
            self.report(fm.rule, &fm.sig, || cm.to_json(z, &p), fm.expected, observed);
        }
        Some(verdict)
    }
}

// ---------------------------------------------------------------------------------------------
// workload

fn gen_params(rng: &mut Rng) -> ZParams {
    let salt = match rng.below(3) {
        0 => Vec::new(),
        1 => vec![0xab],
        _ => rng.bytes(8),
    };
    ZParams { hp: HashParams { salt, iterations: [0u16, 1, 5][rng.usize_below(3)] }, opt_out: rng.chance(1, 3) }
}

fn other_params(rng: &mut Rng, p: &HashParams) -> (HashParams, &'static str) {
    let other_salt = |rng: &mut Rng| match p.salt.len() {
        0 => {
            if rng.bool() {
                vec![0xab]
            } else {
                rng.bytes(8)
            }
        }
        1 => {
            if rng.bool() {
                Vec::new()
            } else {
                rng.bytes(8)
            }
        }
        _ => {
            if rng.bool() {
                Vec::new()
            } else {
                vec![0xab]
            }
        }
    };
    let other_it = |rng: &mut Rng| {
        let o: Vec<u16> = [0u16, 1, 5].into_iter().filter(|i| *i != p.iterations).collect();
        *rng.pick(&o)
    };
    match rng.below(3) {
        0 => (HashParams { salt: other_salt(rng), iterations: p.iterations }, "salt"),
        1 => (HashParams { salt: p.salt.clone(), iterations: other_it(rng) }, "iter"),
        _ => (HashParams { salt: other_salt(rng), iterations: other_it(rng) }, "salt+iter"),
    }
}

/// names whose hashes a proof about q can involve
fn proof_names(apex: &Name, q: &Name) -> Vec<Name> {
    let mut v = Vec::new();
    let mut k = q.len();
    while k >= apex.len() {
        let a = refzone::suffix(q, k);
        v.push(refzone::wildcard_of(&a));
        v.push(a);
        if k == 0 {
            break;
        }
        k -= 1;
    }
    v
}

/// indices of the chain records that match or cover a name relevant to q
fn relevant(chain: &[Rec], names: &[Name], hs: &mut Hasher) -> Vec<usize> {
    let hashes: Vec<Vec<u8>> = names.iter().map(|n| hs.h(n)).collect();
    (0..chain.len()).filter(|i| hashes.iter().any(|h| chain[*i].n3.matches(h) || chain[*i].n3.covers(h))).collect()
}

fn claims_for(apex: &Name, q: &Name, t: u16) -> Vec<Claim> {
    let mut v = vec![Claim::NoData, Claim::NxDomain];
    for l in apex.len()..q.len() {
        v.push(Claim::Expansion { labels: l });
    }
    let _ = t;
    v
}

fn random_subset(rng: &mut Rng, n: usize, rel: &[usize]) -> Vec<usize> {
    // biased to 1–4 records, half of the picks from the relevant ones
    let k = [1usize, 1, 2, 2, 2, 3, 3, 4, 5, 7][rng.usize_below(10)].min(n);
    let mut s: BTreeSet<usize> = BTreeSet::new();
    let mut guard = 0;
    while s.len() < k && guard < 50 {
        guard += 1;
        if !rel.is_empty() && rng.bool() {
            s.insert(*rng.pick(rel));
        } else {
            s.insert(rng.usize_below(n));
        }
    }
    s.into_iter().collect()
}

struct Budget {
    /// record sets per (q, t, claim) from the relevant-subset sweep
    max_rel_bits: usize,
    random_sets: usize,
    mixtures: usize,
    qtypes_per_name: usize,
    /// every n-th query name is swept (all of them when 1)
    allsubsets_qstride: usize,
}

fn sweep_zone(r: &mut Runner, rng: &mut Rng, z: &Zone, p: &ZParams, b: &Budget, max_double: usize, qnames: &[Name], zi: u64) {
    let mut env = Env::new(z, p, max_double);
    let apex = z.apex.clone();
    let chain = env.chain(&apex, &p.hp, p.opt_out, "genuine");
    let n = chain.len();
    let allsub = n <= 8;
    r.rep.count("zones");
    r.rep.add("chain_records", n as u64);
    r.rep.max("max_chain_len", n as f64);
    r.rep.count(&format!("param/salt{}", p.hp.salt.len()));
    r.rep.count(&format!("param/it{}", p.hp.iterations));
    r.rep.count(&format!("param/optout{}", p.opt_out as u8));
    if allsub {
        r.rep.count("allsubsets_zones");
    }
    if p.opt_out && z.owners().any(|o| z.is_delegation(o) && z.rrset(o, ty::DS).is_none()) {
        r.rep.count("optout_zones_with_insecure_delegation");
    }
    let sibling = refzone::name("y.");
    let chain_n3s: Vec<N3> = chain.iter().map(|r| r.n3.clone()).collect();
    for (qi, q) in qnames.iter().enumerate() {
        if allsub && b.allsubsets_qstride > 1 && (qi as u64 + zi) % b.allsubsets_qstride as u64 != 0 {
            continue;
        }
        // query types: a rotating one plus random others
        let mut types: Vec<u16> = vec![QTYPES[(qi + zi as usize) % QTYPES.len()]];
        while types.len() < b.qtypes_per_name {
            let t = *rng.pick(&QTYPES);
            if !types.contains(&t) {
                types.push(t);
            }
        }
        let names = proof_names(&apex, q);
        let rel = {
            let hs = env.hasher(&p.hp);
            relevant(&chain, &names, hs)
        };
        for t in types {
            for claim in claims_for(&apex, q, t) {
                let limits = if rng.chance(1, 5) { *rng.pick(&LIMIT_CONFIGS[1..]) } else { LIMIT_CONFIGS[0] };
                let soa = !rng.chance(1, 5);
                let mk = |idx: &[usize], rng: &mut Rng, mode: &'static str| -> H2Case {
                    let mut s: Vec<Rec> = idx.iter().map(|i| chain[*i].clone()).collect();
                    rng.shuffle(&mut s);
                    H2Case { q: q.clone(), t, claim: claim.clone(), soa, s, limits, mode }
                };
                if allsub {
                    for mask in 1u32..(1u32 << n) {
                        let idx: Vec<usize> = (0..n).filter(|i| mask >> i & 1 == 1).collect();
                        let c = mk(&idx, rng, "allsubsets");
                        r.run_h2(&mut env, &c);
                    }
                    r.rep.add("allsubsets_sweeps", 1);
                } else {
                    // every subset of the relevant records (capped), then random subsets of the chain
                    let relc: Vec<usize> = if rel.len() > b.max_rel_bits {
                        let mut x = rel.clone();
                        rng.shuffle(&mut x);
                        x.truncate(b.max_rel_bits);
                        x
                    } else {
                        rel.clone()
                    };
                    for mask in 1u32..(1u32 << relc.len()) {
                        let idx: Vec<usize> = (0..relc.len()).filter(|i| mask >> i & 1 == 1).map(|i| relc[i]).collect();
                        let c = mk(&idx, rng, "relsubsets");
                        r.run_h2(&mut env, &c);
                    }
                    r.rep.add("relsubsets_sweeps", 1);
                    for _ in 0..b.random_sets {
                        let idx = random_subset(rng, n, &rel);
                        let c = mk(&idx, rng, "random");
                        r.run_h2(&mut env, &c);
                    }
                }
                // mixtures around the reference proof (or a random relevant subset)
                for _ in 0..b.mixtures {
                    let base: Vec<usize> = {
                        let hs = env.hasher(&p.hp);
                        let mut v = if denial::claim_truth(z, q, t, &claim) == Truth::True && rng.chance(3, 4) {
                            denial::reference_proof(z, q, &claim, p.opt_out, &chain_n3s, hs)
                        } else {
                            random_subset(rng, n, &rel)
                        };
                        if v.is_empty() {
                            v = random_subset(rng, n, &rel);
                        }
                        v
                    };
                    let mut s: Vec<Rec> = base.iter().map(|i| chain[*i].clone()).collect();
                    let kind = rng.below(10);
                    let mut soa_m = soa;
                    match kind {
                        0..=4 => {
                            // same zone under other parameters: replace / add / take over
                            let (hp2, tag) = other_params(rng, &p.hp);
                            let c2 = env.chain(&apex, &hp2, p.opt_out, tag);
                            let rel2 = {
                                let hs = env.hasher(&hp2);
                                relevant(&c2, &names, hs)
                            };
                            let pick2 = |rng: &mut Rng| -> Rec {
                                if !rel2.is_empty() && rng.chance(3, 4) {
                                    c2[*rng.pick(&rel2)].clone()
                                } else {
                                    c2[rng.usize_below(c2.len())].clone()
                                }
                            };
                            match kind {
                                0 | 1 => {
                                    let k = rng.usize_below(s.len());
                                    s[k] = pick2(rng);
                                    if rng.bool() {
                                        s.push(pick2(rng));
                                    }
                                }
                                2 => {
                                    s.push(pick2(rng));
                                }
                                3 => {
                                    // a whole relevant subset of the other chain + one genuine record
                                    let keep = s[rng.usize_below(s.len())].clone();
                                    s = rel2.iter().filter(|_| rng.chance(3, 4)).map(|i| c2[*i].clone()).collect();
                                    s.push(keep);
                                }
                                _ => {
                                    // homogeneous: everything from the other chain
                                    s = rel2.iter().filter(|_| rng.chance(4, 5)).map(|i| c2[*i].clone()).collect();
                                    if s.is_empty() {
                                        s.push(pick2(rng));
                                    }
                                }
                            }
                        }
                        5 | 6 => {
                            // owner renamed into another zone (hash kept): one record or all
                            let (zone2, tag) = match rng.below(4) {
                                0 => (Vec::new(), "owner:parent"),
                                1 if q.len() > apex.len() + 1 => (refzone::suffix(q, apex.len() + 1), "owner:child"),
                                _ => (sibling.clone(), "owner:sibling"),
                            };
                            if rng.bool() {
                                let k = rng.usize_below(s.len());
                                s[k] = s[k].renamed(&zone2, tag);
                            } else {
                                s = s.iter().map(|x| x.renamed(&zone2, tag)).collect();
                            }
                            if rng.bool() {
                                soa_m = false;
                            }
                        }
                        _ => {
                            // genuine records of a sibling zone with the same content
                            let c2 = env.chain(&sibling, &p.hp, p.opt_out, "sibling");
                            let take = rng.urange(1, 3);
                            if rng.bool() {
                                let k = rng.usize_below(s.len());
                                s[k] = c2[rng.usize_below(c2.len())].clone();
                            }
                            for _ in 0..take {
                                s.push(c2[rng.usize_below(c2.len())].clone());
                            }
                            if rng.chance(1, 3) {
                                s.retain(|x| x.tag == "sibling");
                                soa_m = false;
                            }
                        }
                    }
                    // no duplicates, random order (hickory takes the parameters of the first record)
                    let mut seen = BTreeSet::new();
                    s.retain(|x| seen.insert(x.key()));
                    rng.shuffle(&mut s);
                    let c = H2Case { q: q.clone(), t, claim: claim.clone(), soa: soa_m, s, limits, mode: "mixture" };
                    r.run_h2(&mut env, &c);
                }
            }
        }
    }
    r.rep.add("counter_model_candidate_sets_built", env.cand_builds);
}

/// iteration limits as configuration: reference proofs (and a few random sets) under every limit
/// pair, for zones with low and with very high iteration counts
fn sweep_limits(r: &mut Runner, rng: &mut Rng, z: &Zone, p: &ZParams, qnames: &[Name], per_zone: usize, max_double: usize) {
    let mut env = Env::new(z, p, max_double);
    let apex = z.apex.clone();
    let chain = env.chain(&apex, &p.hp, p.opt_out, "genuine");
    let n3s: Vec<N3> = chain.iter().map(|r| r.n3.clone()).collect();
    r.rep.count("limit_sweep_zones");
    r.rep.count(&format!("limit_sweep/it{}", p.hp.iterations));
    let mut done = 0;
    let mut tries = 0;
    while done < per_zone && tries < per_zone * 20 {
        tries += 1;
        let q = rng.pick(qnames).clone();
        let t = *rng.pick(&QTYPES);
        let claims = claims_for(&apex, &q, t);
        let claim = rng.pick(&claims).clone();
        if denial::claim_truth(z, &q, t, &claim) != Truth::True {
            continue;
        }
        let idx = {
            let hs = env.hasher(&p.hp);
            denial::reference_proof(z, &q, &claim, p.opt_out, &n3s, hs)
        };
        if idx.is_empty() {
            continue;
        }
        done += 1;
        for limits in LIMIT_CONFIGS {
            let mut s: Vec<Rec> = idx.iter().map(|i| chain[*i].clone()).collect();
            rng.shuffle(&mut s);
            let c = H2Case { q: q.clone(), t, claim: claim.clone(), soa: true, s, limits, mode: "limit" };
            r.run_h2(&mut env, &c);
            // and an arbitrary set under the same limits
            let names = proof_names(&apex, &q);
            let rel = {
                let hs = env.hasher(&p.hp);
                relevant(&chain, &names, hs)
            };
            let idx2 = random_subset(rng, chain.len(), &rel);
            let mut s2: Vec<Rec> = idx2.iter().map(|i| chain[*i].clone()).collect();
            rng.shuffle(&mut s2);
            let c2 = H2Case { q: q.clone(), t, claim: claim.clone(), soa: true, s: s2, limits, mode: "limit" };
            r.run_h2(&mut env, &c2);
        }
    }
}

/// RFC 5155 §8.2 "MUST ignore NSEC3 RRs with unknown hash types / flags": in hickory such records
/// never reach the validator because the RDATA decoder refuses them. Probe that this is so.
fn probe_unrepresentable(rep: &mut Reporter) {
    use hickory_proto::rr::RecordData;
    let mk = |alg: u8, flags: u8| -> Vec<u8> {
        let mut v = vec![alg, flags, 0, 1, 1, 0xab, 20];
        v.extend_from_slice(&[7u8; 20]);
        v.extend_from_slice(&[0, 1, 0x40]); // bitmap: A
        v
    };
    let decodes = |rd: &[u8]| -> bool {
        let mut dec = BinDecoder::new(rd);
        let Ok(sub) = dec.split_off(rd.len()) else { return false };
        RData::read(sub, RecordType::NSEC3).ok().is_some_and(|d| NSEC3::try_borrow(&d).is_some())
    };
    if decodes(&mk(1, 0)) && decodes(&mk(1, 1)) {
        rep.count("probe/sha1_nsec3_decodes");
    } else {
        rep.inconclusive("probe: a plain SHA-1 NSEC3 RDATA does not decode");
    }
    if !decodes(&mk(2, 0)) {
        rep.count("probe/unknown_hash_alg_rejected_by_decoder");
    } else {
        rep.inconclusive("probe: NSEC3 with hash algorithm 2 decodes — the mixture 'different hash algorithm' has become representable and must be added to the sweep");
    }
    if !decodes(&mk(1, 2)) {
        rep.count("probe/unknown_flags_rejected_by_decoder");
    } else {
        rep.inconclusive("probe: NSEC3 with flags=2 decodes — 'MUST ignore' (RFC 5155 8.2) has become testable and must be added to the sweep");
    }
}

/// `craft=FILE`: {"zone_lines": ["a.z. A", "b.z. NS", ...] (SOA/NS at the apex are added),
/// "params": {..}, "query": {"qname","qtype"}, "rcode": "NOERROR"|"NXDOMAIN",
/// "answer_rrsig_labels": null|n, "soa_present": bool, "limits": [s,h],
/// "records_of": ["a.z.", ...], "other_params": {..}|null, "other_records_of": [...],
/// "rename_zone": null|"y."}
fn craft(r: &mut Runner, v: &Value) {
    let apex = refzone::default_apex();
    let mut z = Zone::new(&apex);
    z.add(&apex, ty::SOA, refzone::rd_soa(&refzone::name("ns.y."), &refzone::name("h.z."), 10, 3600, 600, 86400, 300));
    z.add(&apex, ty::NS, refzone::rd_name(&refzone::name("ns.y.")));
    for l in v["zone_lines"].as_array().map(|a| a.as_slice()).unwrap_or(&[]) {
        let mut it = l.as_str().unwrap_or("").split_whitespace();
        let (Some(o), Some(t)) = (it.next(), it.next()) else { continue };
        let t = refzone::type_code(t).expect("type");
        z.add(&refzone::name(o), t, denial::filler_rdata(t, &apex));
    }
    let p = ZParams::from_json(&v["params"]);
    if let Some(kind @ ("e2e" | "chain")) = v["mode"].as_str() {
        let case = json!({"kind": kind, "zone": z.to_json(), "params": p.to_json(), "query": v["query"]});
        if let Err(e) = e2e::replay(r, &case) {
            eprintln!("craft: {e}");
        }
        return;
    }
    let mut env = Env::new(&z, &p, 100_000);
    let names = |k: &str| -> Vec<Name> { v[k].as_array().map(|a| a.iter().filter_map(|x| x.as_str()).map(refzone::name).collect()).unwrap_or_default() };
    let mut s: Vec<Rec> = Vec::new();
    let chain = env.chain(&apex, &p.hp, p.opt_out, "genuine");
    for n in names("records_of") {
        let rec = chain.iter().find(|r| r.n3.of == n).unwrap_or_else(|| panic!("{} owns no NSEC3 RR in this zone", refzone::show(&n)));
        s.push(rec.clone());
    }
    if v["other_params"].is_object() {
        let p2 = ZParams::from_json(&v["other_params"]);
        let tag = match (p2.hp.salt != p.hp.salt, p2.hp.iterations != p.hp.iterations) {
            (true, true) => "salt+iter",
            (true, false) => "salt",
            _ => "iter",
        };
        let c2 = env.chain(&apex, &p2.hp, p2.opt_out, tag);
        for n in names("other_records_of") {
            s.push(c2.iter().find(|r| r.n3.of == n).expect("other_records_of name").clone());
        }
    }
    if let Some(zn) = v["rename_zone"].as_str() {
        let zone2 = refzone::name(zn);
        let tag = if refzone::is_subdomain(&zone2, &apex) { "owner:child" } else if zone2.is_empty() { "owner:parent" } else { "owner:sibling" };
        s = s.iter().map(|x| x.renamed(&zone2, tag)).collect();
    }
    let mut c = serde_json::Map::new();
    for k in ["query", "rcode", "answer_rrsig_labels", "soa_present", "limits"] {
        c.insert(k.to_string(), v[k].clone());
    }
    c.insert("zone".into(), z.to_json());
    c.insert("params".into(), p.to_json());
    c.insert("nsec3".into(), Value::Array(s.iter().map(|x| x.to_json()).collect()));
    let (_, _, case) = H2Case::from_json(&Value::Object(c)).expect("craft case");
    let verdict = r.run_h2(&mut env, &case);
    println!("CRAFT verdict={:?} records={}", verdict, case.s.len());
    for x in &case.s {
        println!("  {}", x.to_json());
    }
}

/// more insecure delegations for opt-out zones (the generator makes them rarely)
fn add_insecure_delegations(rng: &mut Rng, z: &mut Zone) {
    let uni = refzone::universe(&z.apex, 3);
    for _ in 0..rng.urange(1, 3) {
        let n = rng.pick(&uni).clone();
        if refzone::is_wildcard(&n) || z.node(&n).is_some() || z.occluded(&n) {
            continue;
        }
        z.add(&n, ty::NS, refzone::rd_name(&refzone::name("ns.y.")));
    }
}

fn gen_cfg(rng: &mut Rng, small: bool) -> refzone::GenCfg {
    let mut cfg = refzone::GenCfg::default();
    cfg.long_chain_pct = 0;
    if small {
        cfg.max_owners = rng.urange(1, 3);
    } else {
        cfg.max_owners = rng.urange(3, 9);
    }
    cfg
}

fn main() {
    let ctx = Ctx::from_args("C09");
    mon::install_panic_monitor();
    let mut rep = Reporter::new(&ctx);
    // the reference models must agree with the RFCs' own examples before they judge anything
    refzone::selftest();
    denial::selftest();

    if let Some(path) = ctx.extra.get("craft") {
        // tooling, not part of any verdict: build a case from a hand-written zone and the names
        // whose NSEC3 RRs are to be presented; the oracle then runs as usual and a violation file
        // (if any) lands in --out. See `craft()`.
        let txt = std::fs::read_to_string(path).expect("craft file");
        let v: Value = serde_json::from_str(&txt).expect("craft json");
        let mut r = Runner::new(&mut rep);
        craft(&mut r, &v);
        rep.replay_finish();
    }

    if let Some(w) = ctx.replay_case() {
        let c = &w["case"];
        let mut r = Runner::new(&mut rep);
        match c["kind"].as_str().unwrap_or("h2") {
            "h2" => {
                let Some((z, p, case)) = H2Case::from_json(c) else {
                    eprintln!("bad replay case");
                    std::process::exit(3)
                };
                let mut env = Env::new(&z, &p, 100_000);
                // a witness is only meaningful if its in-zone records are genuine for its zone
                for rec in &case.s {
                    if rec.zone == z.apex && !rec.tag.starts_with("owner:") {
                        let chain = env.chain(&z.apex, &rec.hp, rec.n3.opt_out, "x");
                        if !chain.iter().any(|g| g.n3.fp() == rec.n3.fp()) {
                            eprintln!("witness is inconsistent: record {} is not in N3(zone) under its parameters", rec.to_json()["owner"]);
                            std::process::exit(3)
                        }
                    }
                }
                r.run_h2(&mut env, &case);
            }
            "e2e" | "chain" => {
                if let Err(e) = e2e::replay(&mut r, c) {
                    eprintln!("bad replay case: {e}");
                    std::process::exit(3)
                }
            }
            k => {
                eprintln!("unknown case kind {k}");
                std::process::exit(3)
            }
        }
        rep.replay_finish();
    }

    probe_unrepresentable(&mut rep);

    // must-observe (thresholds >= 3x below what the quick tier sees at seeds 1..5)
    for (k, v) in [
        ("h2/Secure", 150_000u64),
        ("h2/Bogus", 700_000),
        ("h2/Insecure", 50_000),
        ("secure_justified", 150_000),
        ("secure_justified/nodata", 15_000),
        ("secure_justified/nxdomain", 12_000),
        ("secure_justified/expansion", 100_000),
        ("claim/nodata", 250_000),
        ("claim/nxdomain", 250_000),
        ("claim/expansion", 700_000),
        ("param/salt0", 15),
        ("param/salt1", 15),
        ("param/salt8", 15),
        ("param/it0", 15),
        ("param/it1", 15),
        ("param/it5", 15),
        ("param/optout0", 40),
        ("param/optout1", 20),
        ("optout_zones_with_insecure_delegation", 12),
        ("optout_sets", 300_000),
        ("optout_sets/Secure", 3_000),
        ("allsubsets_zones", 50),
        ("allsubsets_sweeps", 10_000),
        ("relsubsets_sweeps", 10_000),
        ("mixed_sets", 60_000),
        ("mix/salt", 20_000),
        ("mix/iter", 20_000),
        ("mix/salt+iter", 20_000),
        ("mix/sibling", 40_000),
        ("mix/owner:sibling", 12_000),
        ("mix/owner:child", 5_000),
        ("mix/owner:parent", 5_000),
        ("soa/absent", 250_000),
        ("limitclass/le-soft", 1_000_000),
        ("limitclass/gt-soft", 60_000),
        ("limitclass/gt-hard", 40_000),
        ("limit/100-500/gt-soft/Insecure", 100),
        ("limit/100-500/gt-hard/Bogus", 100),
        ("limit/0-0/gt-hard/Bogus", 40_000),
        ("limit/1-5/gt-soft/Insecure", 20_000),
        ("limit/5-5/le-soft/Secure", 10_000),
        ("limit/0-500/gt-soft/Insecure", 40_000),
        ("e2e/zones", 80),
        ("e2e/queries", 25_000),
        ("e2e/accepted_secure", 12_000),
        ("e2e/judged_complete", 12_000),
        ("e2e/judged_complete/answer", 150),
        ("e2e/own_proof_accepted", 12_000),
        ("e2e/own_proof_accepted/nodata", 500),
        ("e2e/own_proof_accepted/ent-nodata", 500),
        ("e2e/own_proof_accepted/nxdomain", 10_000),
        ("e2e/own_proof_accepted/wildcard-answer", 300),
        ("e2e/secure_denial/nodata", 1_000),
        ("e2e/secure_denial/nxdomain", 6_000),
        ("e2e/secure_denial/expansion", 700),
        ("e2e/chain_compared", 80),
        ("e2e/chain_agrees", 30),
        ("probe/unknown_hash_alg_rejected_by_decoder", 1),
        ("probe/unknown_flags_rejected_by_decoder", 1),
    ] {
        rep.must(k, v);
    }

    let thorough = ctx.is_thorough();
    let budget = Budget {
        max_rel_bits: if thorough { 7 } else { 6 },
        random_sets: if thorough { 12 } else { 6 },
        mixtures: if thorough { 6 } else { 3 },
        qtypes_per_name: if thorough { 3 } else { 2 },
        allsubsets_qstride: if thorough { 2 } else { 4 },
    };
    let max_double = if thorough { 2_000 } else { 250 };
    let apex = refzone::default_apex();
    let qnames = refzone::query_names(&apex, 3, refzone::FRESH_LABEL);
    let n_zones = ctx.budget(240, 3_000);
    let mut rng = ctx.rng("zones");
    let mut r = Runner::new(&mut rep);
    let e2e_rt = e2e::runtime();
    for zi in 0..n_zones {
        let small = zi % 4 == 0;
        let cfg = gen_cfg(&mut rng, small);
        let mut z = refzone::gen_zone(&mut rng, &cfg);
        if zi % 30 == 11 {
            // a zone that consists of its apex only: the NSEC3 chain is one record pointing to itself
            let others: Vec<refzone::Name> = z.owners().filter(|o| **o != z.apex).cloned().collect();
            for o in others {
                z.remove_name(&o);
            }
            r.rep.count("apex_only_zones");
        }
        let p = gen_params(&mut rng);
        if p.opt_out && rng.chance(2, 3) {
            add_insecure_delegations(&mut rng, &mut z);
        }
        sweep_zone(&mut r, &mut rng, &z, &p, &budget, max_double, &qnames, zi);
        // limits: this zone under its own parameters, and every fourth zone re-parameterised with
        // iteration counts around the default limits (100 / 500)
        sweep_limits(&mut r, &mut rng, &z, &p, &qnames, 6, max_double);
        if zi % 4 == 1 {
            for it in [150u16, 501] {
                let p2 = ZParams { hp: HashParams { salt: p.hp.salt.clone(), iterations: it }, opt_out: p.opt_out };
                sweep_limits(&mut r, &mut rng, &z, &p2, &qnames, 3, max_double);
            }
        }
        // completeness: hickory's own server and validator
        e2e::run_zone(&mut r, &e2e_rt, &mut rng, &z, &p, &qnames, thorough || zi % 2 == 0);
    }

    std::process::exit(rep.finish().min(0));
}
