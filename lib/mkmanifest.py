#!/usr/bin/env python3
"""Regenerate MANIFEST.json from lib/props.py (single source of truth)."""
import json, os, subprocess, sys
sys.path.insert(0, os.path.dirname(os.path.abspath(__file__)))
from props import PROPS, NOT_APPLICABLE, LEVEL_TEXT

VERIF = os.path.dirname(os.path.dirname(os.path.abspath(__file__)))
hooks = [h for h in subprocess.run(["git", "-C", "/repo", "log", "--format=%H %s"], stdout=subprocess.PIPE, text=True).stdout.strip().splitlines() if h.split(" ", 1)[1].startswith("verif")]
all_ids = [json.loads(l)["id"] for l in open(os.path.join(VERIF, "properties.jsonl"))]
READY = set(open(os.path.join(VERIF, "lib", "ready.txt")).read().split())
checks = []
for pid in all_ids:
    if pid not in PROPS or pid not in READY:
        continue
    s = PROPS[pid]
    checks.append({
        "property_id": pid,
        "quick_cmd": "./check %s --tier quick" % pid,
        "thorough_cmd": "./check %s --tier thorough" % pid,
        "evidence_file": "/verif/evidence/%s.json" % pid,
        "replay_cmd_template": "./check %s --replay {path}" % pid,
        "engine": "vh",
        "level_claimed": {"category": s["level"], "text": s.get("level_text", LEVEL_TEXT[s["level"]]), "design_ref": "DESIGN.md §7 " + pid},
        "level_note": "; ".join(s["assumptions"]),
        "technique": s.get("technique", "runtime monitoring: oracle over observed executions of the real code"),
    })
na = [{"property_id": pid, "reason": NOT_APPLICABLE.get(pid, "check not built yet (work in progress; see DESIGN.md §10 for the order of implementation)")}
      for pid in all_ids if pid not in PROPS or pid not in READY]
m = {
    "version": 1,
    "setup_cmd": "./setup.sh",
    "hooks": {
        "guard": "cfg(hickory_dns_verif)",
        "enable": "RUSTFLAGS=--cfg hickory_dns_verif via /verif/harness/.cargo/config.toml (applies to the path dependencies /repo/crates/*)",
        "baseline_off_cmd": "cd /repo && cargo nextest run --workspace --no-fail-fast --test-threads 8 --offline || cargo test --workspace --no-fail-fast --offline",
        "source_commits": [h.split()[0] for h in hooks],
        "add_only": False,
    },
    "engines": [{"name": "vh", "path": "/verif/harness", "serves_properties": [c["property_id"] for c in checks],
                 "kind_free_text": "Rust harness (one binary per property) that executes the real hickory-dns crates under generated, hostile and fault-injected workloads while monitors/oracles (panic monitor, decoder step counter, independent reference models, history checkers) observe; python driver ./check shards, merges, matches known findings and writes evidence"}],
    "checks": checks,
    "not_applicable": na,
    "notes": "hooks.add_only is false only because one commit edits the workspace check-cfg list (one line) so that the guard-off build stays warning-free; every other hook commit is purely additive. Known findings: /verif/known_findings.json (witnesses under /verif/findings).",
}
json.dump(m, open(os.path.join(VERIF, "MANIFEST.json"), "w"), indent=1)
print("wrote MANIFEST.json with %d checks, %d not_applicable" % (len(checks), len(na)))
