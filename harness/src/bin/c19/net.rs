//! Simulated network: a `RuntimeProvider` whose UDP sockets deliver each datagram to a tiny
//! table-driven authoritative responder (plus hostile injection) and log every contact.
//! TCP connects are logged and refused, except at servers flagged `tcp` (fan-out worlds): those
//! answer TC=1 over UDP when the response exceeds the payload size advertised by the query and
//! serve the same responder over a length-framed in-memory stream.

use std::collections::{HashMap, VecDeque};
use std::future::Future;
use std::io;
use std::net::{IpAddr, SocketAddr};
use std::pin::Pin;
use std::str::FromStr;
use std::sync::{Arc, Mutex};
use std::task::{Context, Poll, Waker};
use std::time::Duration;

use hickory_net::runtime::{DnsTcpStream, DnsUdpSocket, RuntimeProvider, Time, TokioHandle};
use hickory_proto::op::{Message, OpCode, ResponseCode};
use hickory_proto::rr::rdata::{A, AAAA, CNAME, NS, SOA, TXT};
use hickory_proto::rr::{Name, RData, Record};

use crate::world::{is_sub, labels, lower, parent_of, Rec, Server, World};

#[derive(Clone, Copy)]
pub struct VTime;
#[async_trait::async_trait]
impl Time for VTime {
    async fn delay_for(d: Duration) {
        tokio::time::sleep(d).await
    }
    async fn timeout<F: 'static + Future + Send>(d: Duration, f: F) -> Result<F::Output, io::Error> {
        tokio::time::timeout(d, f).await.map_err(|_| io::Error::new(io::ErrorKind::TimedOut, "timeout"))
    }
}

/// in-memory TCP connection to one simulated server: every complete length-framed query written
/// is answered at once into the read buffer
pub struct SimTcp {
    net: Net,
    peer: IpAddr,
    wbuf: Vec<u8>,
    rbuf: VecDeque<u8>,
    waker: Option<Waker>,
}
impl futures::io::AsyncRead for SimTcp {
    fn poll_read(self: Pin<&mut Self>, cx: &mut Context<'_>, buf: &mut [u8]) -> Poll<io::Result<usize>> {
        let this = self.get_mut();
        if this.rbuf.is_empty() {
            this.waker = Some(cx.waker().clone());
            return Poll::Pending;
        }
        let n = this.rbuf.len().min(buf.len());
        for b in buf.iter_mut().take(n) {
            *b = this.rbuf.pop_front().unwrap_or(0);
        }
        Poll::Ready(Ok(n))
    }
}
impl futures::io::AsyncWrite for SimTcp {
    fn poll_write(self: Pin<&mut Self>, _: &mut Context<'_>, buf: &[u8]) -> Poll<io::Result<usize>> {
        let this = self.get_mut();
        this.wbuf.extend_from_slice(buf);
        while this.wbuf.len() >= 2 {
            let len = u16::from_be_bytes([this.wbuf[0], this.wbuf[1]]) as usize;
            if this.wbuf.len() < 2 + len {
                break;
            }
            let frame: Vec<u8> = this.wbuf.drain(..2 + len).skip(2).collect();
            match exchange(&this.net, this.peer, &frame, true) {
                Xchg::Capped => return Poll::Ready(Err(io::Error::new(io::ErrorKind::Other, "simnet: per-query message cap reached"))),
                Xchg::Answer(bytes) => {
                    this.rbuf.extend((bytes.len() as u16).to_be_bytes());
                    this.rbuf.extend(bytes);
                    if let Some(w) = this.waker.take() {
                        w.wake();
                    }
                }
                Xchg::Nothing => {}
            }
        }
        Poll::Ready(Ok(buf.len()))
    }
    fn poll_flush(self: Pin<&mut Self>, _: &mut Context<'_>) -> Poll<io::Result<()>> {
        Poll::Ready(Ok(()))
    }
    fn poll_close(self: Pin<&mut Self>, _: &mut Context<'_>) -> Poll<io::Result<()>> {
        Poll::Ready(Ok(()))
    }
}
impl DnsTcpStream for SimTcp {
    type Time = VTime;
}

/// one datagram, TCP connect (`tcp`, empty `qname`) or query sent over an accepted TCP connection
/// (`tcp`, `qname` set) the network saw
#[derive(Clone, Debug)]
pub struct Contact {
    pub ip: IpAddr,
    pub tcp: bool,
    pub qname: String,
    pub qtype: String,
    pub vt_ms: u64,
    /// index of the top-level query during which it happened
    pub top: usize,
}

/// one delivery of an injection
#[derive(Clone, Debug)]
pub struct Delivered {
    pub m: u32,
    pub top: usize,
}

#[derive(Default)]
pub struct NetState {
    pub log: Vec<Contact>,
    pub delivered: Vec<Delivered>,
    pub top: usize,
    /// datagrams (and queries over accepted TCP connections) sent during the current top-level query
    pub sent_this_top: u64,
    /// of these: datagrams answered TC=1 (the same query comes again over TCP)
    pub truncated_this_top: u64,
    /// sends beyond this per-top count fail with an io error (keeps a runaway loop finite)
    pub hard_cap: u64,
    pub cap_hit: bool,
    pub resp_kinds: HashMap<String, u64>,
    inj_counters: HashMap<u32, u32>,
    pub t0: Option<tokio::time::Instant>,
    pub undecodable_queries: u64,
    /// "<filter class>/<section>/<response kind>" -> address records delivered (honest or injected)
    pub af_seen: HashMap<String, u64>,
}

#[derive(Clone)]
pub struct Net {
    pub world: Arc<World>,
    pub st: Arc<Mutex<NetState>>,
}

impl Net {
    pub fn new(world: Arc<World>, hard_cap: u64) -> Net {
        Net { world, st: Arc::new(Mutex::new(NetState { hard_cap, ..Default::default() })) }
    }
    pub fn begin_top(&self, top: usize) {
        let mut st = self.st.lock().unwrap();
        st.top = top;
        st.sent_this_top = 0;
        st.truncated_this_top = 0;
        st.cap_hit = false;
        if st.t0.is_none() {
            st.t0 = Some(tokio::time::Instant::now());
        }
    }
}

pub struct SimUdp {
    net: Net,
    inbox: Mutex<VecDeque<(Vec<u8>, SocketAddr)>>,
    waker: Mutex<Option<Waker>>,
}

#[async_trait::async_trait]
impl DnsUdpSocket for SimUdp {
    type Time = VTime;
    fn poll_recv_from(&self, cx: &mut Context<'_>, buf: &mut [u8]) -> Poll<io::Result<(usize, SocketAddr)>> {
        match self.inbox.lock().unwrap().pop_front() {
            Some((d, src)) => {
                let n = d.len().min(buf.len());
                buf[..n].copy_from_slice(&d[..n]);
                Poll::Ready(Ok((n, src)))
            }
            None => {
                *self.waker.lock().unwrap() = Some(cx.waker().clone());
                Poll::Pending
            }
        }
    }
    fn poll_send_to(&self, _cx: &mut Context<'_>, buf: &[u8], target: SocketAddr) -> Poll<io::Result<usize>> {
        match exchange(&self.net, target.ip(), buf, false) {
            Xchg::Capped => return Poll::Ready(Err(io::Error::new(io::ErrorKind::Other, "simnet: per-query datagram cap reached"))),
            Xchg::Answer(bytes) => {
                self.inbox.lock().unwrap().push_back((bytes, target));
                if let Some(w) = self.waker.lock().unwrap().take() {
                    w.wake();
                }
            }
            Xchg::Nothing => {}
        }
        Poll::Ready(Ok(buf.len()))
    }
}

enum Xchg {
    /// undecodable query, or the server stays silent
    Nothing,
    Capped,
    Answer(Vec<u8>),
}

/// one query message arriving at the server `ip` (datagram, or frame of an accepted TCP connection)
fn exchange(net: &Net, ip: IpAddr, buf: &[u8], tcp: bool) -> Xchg {
    let q = match Message::from_vec(buf) {
        Ok(q) if !q.queries.is_empty() => q,
        _ => {
            net.st.lock().unwrap().undecodable_queries += 1;
            return Xchg::Nothing;
        }
    };
    let qname_exact = q.queries[0].name.clone();
    let qname = lower(&qname_exact.to_ascii());
    let qtype = q.queries[0].query_type.to_string();
    {
        let mut st = net.st.lock().unwrap();
        st.sent_this_top += 1;
        let vt_ms = st.t0.map(|t| t.elapsed().as_millis() as u64).unwrap_or(0);
        let top = st.top;
        st.log.push(Contact { ip, tcp, qname: qname.clone(), qtype: qtype.clone(), vt_ms, top });
        if st.sent_this_top > st.hard_cap {
            st.cap_hit = true;
            return Xchg::Capped;
        }
    }
    let Some(resp) = respond(net, ip, &qname, &qtype) else { return Xchg::Nothing };
    let mut m = Message::response(q.id, OpCode::Query);
    m.add_query(q.queries[0].clone());
    m.metadata.authoritative = resp.aa;
    m.metadata.response_code = resp.rcode;
    m.add_answers(resp.ans.iter().filter_map(to_record));
    m.add_authorities(resp.auth.iter().filter_map(to_record));
    m.add_additionals(resp.add.iter().filter_map(to_record));
    let Ok(bytes) = m.to_vec() else { return Xchg::Nothing };
    let serves_tcp = net.world.server(&ip.to_string()).map(|s| s.tcp).unwrap_or(false);
    if !tcp && serves_tcp && bytes.len() > q.max_payload() as usize {
        // does not fit the datagram the client is prepared to receive: TC=1, nothing else
        let mut t = Message::response(q.id, OpCode::Query);
        t.add_query(q.queries[0].clone());
        t.metadata.authoritative = resp.aa;
        t.metadata.truncation = true;
        let mut st = net.st.lock().unwrap();
        st.truncated_this_top += 1;
        *st.resp_kinds.entry("truncated".to_string()).or_insert(0) += 1;
        return match t.to_vec() {
            Ok(b) => Xchg::Answer(b),
            Err(_) => Xchg::Nothing,
        };
    }
    Xchg::Answer(bytes)
}

#[derive(Clone)]
pub struct SimRuntime {
    pub handle: TokioHandle,
    pub net: Net,
}

impl RuntimeProvider for SimRuntime {
    type Handle = TokioHandle;
    type Timer = VTime;
    type Udp = SimUdp;
    type Tcp = SimTcp;
    fn create_handle(&self) -> TokioHandle {
        self.handle.clone()
    }
    fn connect_tcp(&self, server: SocketAddr, _: Option<SocketAddr>, _: Option<Duration>) -> Pin<Box<dyn Send + Future<Output = Result<SimTcp, io::Error>>>> {
        {
            let mut st = self.net.st.lock().unwrap();
            let vt_ms = st.t0.map(|t| t.elapsed().as_millis() as u64).unwrap_or(0);
            let top = st.top;
            st.log.push(Contact { ip: server.ip(), tcp: true, qname: String::new(), qtype: String::new(), vt_ms, top });
        }
        let listens = self.net.world.server(&server.ip().to_string()).map(|s| s.tcp && !s.silent).unwrap_or(false);
        if listens {
            let net = self.net.clone();
            return Box::pin(async move { Ok(SimTcp { net, peer: server.ip(), wbuf: vec![], rbuf: VecDeque::new(), waker: None }) });
        }
        Box::pin(async { Err(io::Error::new(io::ErrorKind::ConnectionRefused, "simnet: no tcp")) })
    }
    fn bind_udp(&self, _local: SocketAddr, _server: SocketAddr) -> Pin<Box<dyn Send + Future<Output = Result<SimUdp, io::Error>>>> {
        let net = self.net.clone();
        Box::pin(async move { Ok(SimUdp { net, inbox: Default::default(), waker: Default::default() }) })
    }
}

// ---------------------------------------------------------------------------------------------
// authoritative responder

pub struct Resp {
    pub kind: &'static str,
    pub aa: bool,
    pub rcode: ResponseCode,
    pub ans: Vec<Rec>,
    pub auth: Vec<Rec>,
    pub add: Vec<Rec>,
}

impl Resp {
    fn new(kind: &'static str, aa: bool, rcode: ResponseCode) -> Resp {
        Resp { kind, aa, rcode, ans: vec![], auth: vec![], add: vec![] }
    }
}

pub fn to_record(r: &Rec) -> Option<Record> {
    let owner = Name::from_str(&r.owner).ok()?;
    let data = match r.rtype.as_str() {
        "A" => RData::A(A(r.data.parse().ok()?)),
        "AAAA" => RData::AAAA(AAAA(r.data.parse().ok()?)),
        "NS" => RData::NS(NS(Name::from_str(&r.data).ok()?)),
        "CNAME" => RData::CNAME(CNAME(Name::from_str(&r.data).ok()?)),
        "TXT" => RData::TXT(TXT::new(vec![r.data.clone()])),
        "SOA" => {
            let apex = Name::from_str(&r.owner).ok()?;
            RData::SOA(SOA::new(Name::from_str("ns.invalid.").ok()?, apex, 1, 3600, 600, 86400, 60))
        }
        _ => return None,
    };
    Some(Record::from_rdata(owner, 300, data))
}

fn soa(apex: &str) -> Rec {
    Rec::new(apex, "SOA", "-")
}

fn glue_for(recs: &[Rec], ns_set: &[Rec]) -> Vec<Rec> {
    let mut v = vec![];
    for ns in ns_set {
        for r in recs {
            if (r.rtype == "A" || r.rtype == "AAAA") && r.owner == ns.data && !v.contains(r) {
                v.push(r.clone());
            }
        }
    }
    v
}

pub fn genuine(world: &World, s: &Server, qname: &str, qtype: &str) -> Option<Resp> {
    if s.silent {
        return None;
    }
    if s.sink != 0 {
        // a sink answers every address query with its own (marked) address
        let mut r = Resp::new("sink", true, ResponseCode::NoError);
        let v6 = s.ip.contains(':');
        if (qtype == "A" && !v6) || (qtype == "AAAA" && v6) {
            r.ans.push(Rec::new(qname, qtype, &s.ip));
        } else if qtype == "NS" {
            r.ans.push(Rec::new(qname, "NS", &format!("evil{}.sink.", s.sink)));
        }
        return Some(r);
    }
    let ladder_data = world.zone(&s.ladder).map(|z| z.recs.iter().any(|r| r.owner == qname)).unwrap_or(false);
    if !s.ladder.is_empty() && is_sub(qname, &s.ladder) && qname != s.ladder && !ladder_data {
        if qtype == "NS" {
            let mut r = Resp::new("referral", false, ResponseCode::NoError);
            let nsn = format!("ns.{}", s.ladder);
            r.auth.push(Rec::new(qname, "NS", &nsn));
            r.add.push(Rec::new(&nsn, if s.ip.contains(':') { "AAAA" } else { "A" }, &s.ip));
            return Some(r);
        }
        let mut r = Resp::new("answer", true, ResponseCode::NoError);
        if qtype == "A" {
            r.ans.push(Rec::new(qname, "A", "198.51.100.77"));
        } else {
            r.kind = "nodata";
            r.auth.push(soa(&s.ladder));
        }
        return Some(r);
    }
    // closest enclosing zone served here
    let apex = s.zones.iter().filter(|z| is_sub(qname, z)).max_by_key(|z| labels(z).len());
    let Some(apex) = apex else {
        return match s.lame.as_str() {
            "silent" => None,
            "servfail" => Some(Resp::new("lame", false, ResponseCode::ServFail)),
            "upward" => {
                let mut r = Resp::new("lame", false, ResponseCode::NoError);
                r.auth.push(Rec::new(".", "NS", "a.root-servers.test."));
                Some(r)
            }
            _ => Some(Resp::new("lame", false, ResponseCode::Refused)),
        };
    };
    let recs: &[Rec] = world.zone(apex).map(|z| z.recs.as_slice()).unwrap_or(&[]);
    // delegation cut on the path apex -> qname (top-down)
    let ql = labels(qname);
    let al = labels(apex).len();
    for take in (al + 1)..=ql.len() {
        let cut = format!("{}.", ql[ql.len() - take..].join("."));
        let ns_set: Vec<Rec> = recs.iter().filter(|r| r.rtype == "NS" && r.owner == cut).cloned().collect();
        if !ns_set.is_empty() {
            let mut r = Resp::new("referral", false, ResponseCode::NoError);
            r.add = glue_for(recs, &ns_set);
            r.auth = ns_set;
            return Some(r);
        }
    }
    let at: Vec<&Rec> = recs.iter().filter(|r| r.owner == qname).collect();
    if !at.is_empty() {
        let mut r = Resp::new("answer", true, ResponseCode::NoError);
        if let (Some(c), true) = (at.iter().find(|r| r.rtype == "CNAME"), qtype != "CNAME") {
            r.ans.push((*c).clone());
            if s.chase {
                let mut t = c.data.clone();
                let mut seen = vec![qname.to_string()];
                for _ in 0..8 {
                    if seen.contains(&t) || !is_sub(&t, apex) {
                        break;
                    }
                    // stop at cuts below the apex
                    let under_cut = recs.iter().any(|x| x.rtype == "NS" && x.owner != *apex && is_sub(&t, &x.owner));
                    if under_cut {
                        break;
                    }
                    seen.push(t.clone());
                    if let Some(c2) = recs.iter().find(|x| x.owner == t && x.rtype == "CNAME") {
                        r.ans.push(c2.clone());
                        t = c2.data.clone();
                        continue;
                    }
                    r.ans.extend(recs.iter().filter(|x| x.owner == t && x.rtype == qtype).cloned());
                    break;
                }
            }
            return Some(r);
        }
        let hit: Vec<Rec> = at.iter().filter(|r| r.rtype == qtype).map(|r| (*r).clone()).collect();
        if !hit.is_empty() {
            if qtype == "NS" {
                r.add = glue_for(recs, &hit);
            }
            r.ans = hit;
            return Some(r);
        }
        r.kind = "nodata";
        r.auth.push(soa(apex));
        return Some(r);
    }
    if recs.iter().any(|r| is_sub(&r.owner, qname)) {
        let mut r = Resp::new("nodata", true, ResponseCode::NoError);
        r.auth.push(soa(apex));
        return Some(r);
    }
    let mut r = Resp::new("nxdomain", true, ResponseCode::NXDomain);
    r.auth.push(soa(apex));
    Some(r)
}

/// hostile CNAME fan-out (see `world::Fan`); None = not a fan name of a zone served here
pub fn fan_response(world: &World, s: &Server, qname: &str, qtype: &str) -> Option<Resp> {
    let f = world.fan.as_ref()?;
    if s.silent || f.zones.is_empty() {
        return None;
    }
    let (zone, path) = f.locate(qname)?;
    if !s.zones.iter().any(|z| z == zone) || path.len() > f.nest as usize || path.iter().any(|i| *i >= f.k) {
        return None;
    }
    let own = match qtype {
        "A" => Rec::new(qname, "A", "198.51.100.20"),
        "AAAA" => Rec::new(qname, "AAAA", "2001:db8:51::20"),
        "TXT" => Rec::new(qname, "TXT", "fan"),
        _ => {
            let mut r = Resp::new("nodata", true, ResponseCode::NoError);
            r.auth.push(soa(zone));
            return Some(r);
        }
    };
    if path.len() == f.nest as usize {
        let mut r = Resp::new("answer", true, ResponseCode::NoError);
        r.ans.push(own);
        return Some(r);
    }
    let mut r = Resp::new("fanout", true, ResponseCode::NoError);
    let some_in_answer = f.layout == "answer" || f.layout == "spread";
    if f.a_rec || !some_in_answer {
        r.ans.push(own);
    }
    let stem: String = path.iter().map(|i| format!("-{i}")).collect();
    for i in 0..f.k {
        let tz = &f.zones[i as usize % f.zones.len()];
        let owner = if f.owner == "qname" { qname.to_string() } else { format!("x{stem}-{i}.{zone}") };
        let rec = Rec::new(&owner, "CNAME", &format!("t{stem}-{i}.{tz}"));
        match f.layout.as_str() {
            "answer" => r.ans.push(rec),
            "authority" => r.auth.push(rec),
            "additional" => r.add.push(rec),
            _ => match i % 3 {
                0 => r.ans.push(rec),
                1 => r.auth.push(rec),
                _ => r.add.push(rec),
            },
        }
    }
    Some(r)
}

pub fn respond(net: &Net, ip: IpAddr, qname: &str, qtype: &str) -> Option<Resp> {
    let ips = ip.to_string();
    let s = net.world.server(&ips)?;
    let mut r = match fan_response(&net.world, s, qname, qtype) {
        Some(r) => r,
        None => genuine(&net.world, s, qname, qtype)?,
    };
    let mut st = net.st.lock().unwrap();
    *st.resp_kinds.entry(r.kind.to_string()).or_insert(0) += 1;
    for inj in &s.inj {
        if !inj.on.iter().any(|k| k == r.kind) {
            continue;
        }
        if !inj.only_qname.is_empty() && inj.only_qname != qname {
            continue;
        }
        let c = st.inj_counters.entry(inj.m).or_insert(0);
        *c += 1;
        if (*c - 1) % inj.period != 0 {
            continue;
        }
        for (i, rec) in inj.recs.iter().enumerate() {
            let sec = if i == 0 { inj.section } else { 2 };
            match sec {
                0 => r.ans.push(rec.clone()),
                1 => r.auth.push(rec.clone()),
                _ => r.add.push(rec.clone()),
            }
        }
        if inj.mode == "move" && inj.section != 0 {
            // answer-less positive response: the records asked for leave the answer section
            let moved: Vec<Rec> = r.ans.drain(..).collect();
            if !moved.is_empty() {
                r.kind = "answerless";
                *st.resp_kinds.entry("answerless".to_string()).or_insert(0) += 1;
            }
            match inj.section {
                1 => r.auth.extend(moved),
                _ => r.add.extend(moved),
            }
        }
        let top = st.top;
        st.delivered.push(Delivered { m: inj.m, top });
    }
    // what the filters are confronted with: every address record of the final response, by
    // filter class x section x response kind (only in worlds that configure an answer filter)
    if !net.world.opts.deny_answers.is_empty() {
        for (sec, recs) in [("answer", &r.ans), ("authority", &r.auth), ("additional", &r.add)] {
            for rec in recs.iter().filter(|x| x.rtype == "A" || x.rtype == "AAAA") {
                if let Ok(a) = rec.data.parse::<IpAddr>() {
                    let c = crate::oracle::addr_class(&a, &net.world.opts);
                    if c != "plain" {
                        *st.af_seen.entry(format!("{c}/{sec}/{}", r.kind)).or_insert(0) += 1;
                    }
                }
            }
        }
    }
    let _ = parent_of;
    Some(r)
}
