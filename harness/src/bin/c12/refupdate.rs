//! `refupdate` — independent executable model of RFC 2136 §3.2 (prerequisites), §3.4.1 (prescan)
//! and §3.4.2 (update) on plain types. Shares no code with hickory.
//!
//! Zone = apex + map (owner folded to lower case, type) -> map RDATA(canonical bytes) -> TTL.
//! "Name in use" and "RRset exists" are *exact owner* tests (no CNAME following, no wildcard
//! synthesis, no delegation awareness), exactly as zone_name<> / zone_rrset<> in the RFC pseudocode.
//!
//! Latitude handled by `Variant` (the checker accepts any variant's outcome):
//!  * `soa_equal_replaces`: §3.4.2.2 text ignores an SOA update whose serial is "lower than or
//!    equal to" the zone's; the pseudocode of §3.4.2.7 only skips when the zone serial is greater.
//!  * `nonapex_last_ns_deletable`: §3.4.2.4 text protects the last NS only at the apex; the
//!    pseudocode (`rr.type == NS && zone_rrset<rr.name, NS> == rr`) protects it at any name.
#![allow(dead_code)]

use std::collections::{BTreeMap, BTreeSet};

pub type Labels = Vec<Vec<u8>>;

pub const T_A: u16 = 1;
pub const T_NS: u16 = 2;
pub const T_CNAME: u16 = 5;
pub const T_SOA: u16 = 6;
pub const T_MX: u16 = 15;
pub const T_TXT: u16 = 16;
pub const T_DS: u16 = 43;
pub const T_IXFR: u16 = 251;
pub const T_AXFR: u16 = 252;
pub const T_MAILB: u16 = 253;
pub const T_MAILA: u16 = 254;
pub const T_ANY: u16 = 255;

pub const C_IN: u16 = 1;
pub const C_CH: u16 = 3;
pub const C_NONE: u16 = 254;
pub const C_ANY: u16 = 255;

pub const NOERROR: u8 = 0;
pub const FORMERR: u8 = 1;
pub const SERVFAIL: u8 = 2;
pub const NXDOMAIN: u8 = 3;
pub const NOTIMP: u8 = 4;
pub const REFUSED: u8 = 5;
pub const YXDOMAIN: u8 = 6;
pub const YXRRSET: u8 = 7;
pub const NXRRSET: u8 = 8;
pub const NOTAUTH: u8 = 9;
pub const NOTZONE: u8 = 10;

pub fn rcode_name(r: u8) -> &'static str {
    match r {
        0 => "NOERROR",
        1 => "FORMERR",
        2 => "SERVFAIL",
        3 => "NXDOMAIN",
        4 => "NOTIMP",
        5 => "REFUSED",
        6 => "YXDOMAIN",
        7 => "YXRRSET",
        8 => "NXRRSET",
        9 => "NOTAUTH",
        10 => "NOTZONE",
        _ => "OTHER",
    }
}

pub fn type_name(t: u16) -> String {
    match t {
        1 => "A".into(),
        2 => "NS".into(),
        5 => "CNAME".into(),
        6 => "SOA".into(),
        15 => "MX".into(),
        16 => "TXT".into(),
        251 => "IXFR".into(),
        252 => "AXFR".into(),
        253 => "MAILB".into(),
        254 => "MAILA".into(),
        255 => "ANY".into(),
        t => format!("TYPE{t}"),
    }
}

pub fn class_name(c: u16) -> String {
    match c {
        1 => "IN".into(),
        3 => "CH".into(),
        254 => "NONE".into(),
        255 => "ANY".into(),
        c => format!("CLASS{c}"),
    }
}

pub fn fold(l: &Labels) -> Labels {
    l.iter().map(|x| x.to_ascii_lowercase()).collect()
}

/// One RR as it appears in an UPDATE message (or in a zone). `rdata` is the uncompressed wire
/// RDATA; names inside are lower case by construction of the workload.
#[derive(Clone, Debug, PartialEq, Eq, PartialOrd, Ord)]
pub struct Rr {
    pub owner: Labels,
    pub rtype: u16,
    pub class: u16,
    pub ttl: u32,
    pub rdata: Vec<u8>,
}

pub type RrKey = (Labels, u16);
/// rdata -> ttl
pub type RrSet = BTreeMap<Vec<u8>, u32>;

#[derive(Clone, Debug, PartialEq, Eq)]
pub struct Zone {
    pub apex: Labels,
    pub class: u16,
    pub sets: BTreeMap<RrKey, RrSet>,
}

#[derive(Clone, Copy, Debug, PartialEq, Eq)]
pub struct Variant {
    pub soa_equal_replaces: bool,
    pub nonapex_last_ns_deletable: bool,
}

pub const VARIANTS: [Variant; 4] = [
    Variant { soa_equal_replaces: false, nonapex_last_ns_deletable: false },
    Variant { soa_equal_replaces: true, nonapex_last_ns_deletable: false },
    Variant { soa_equal_replaces: false, nonapex_last_ns_deletable: true },
    Variant { soa_equal_replaces: true, nonapex_last_ns_deletable: true },
];

/// serial of an SOA RDATA (uncompressed): after two names
pub fn soa_serial_of(rdata: &[u8]) -> Option<u32> {
    let mut p = 0usize;
    for _ in 0..2 {
        loop {
            let l = *rdata.get(p)? as usize;
            p += 1;
            if l == 0 {
                break;
            }
            if l & 0xC0 != 0 {
                return None;
            }
            p += l;
        }
    }
    let b = rdata.get(p..p + 4)?;
    Some(u32::from_be_bytes([b[0], b[1], b[2], b[3]]))
}

/// SOA RDATA with the serial field zeroed (for "ignore only the serial" comparisons)
pub fn soa_without_serial(rdata: &[u8]) -> Vec<u8> {
    let mut v = rdata.to_vec();
    let mut p = 0usize;
    for _ in 0..2 {
        loop {
            let Some(&l) = v.get(p) else { return v };
            p += 1;
            if l == 0 {
                break;
            }
            p += l as usize;
        }
    }
    if p + 4 <= v.len() {
        for x in &mut v[p..p + 4] {
            *x = 0;
        }
    }
    v
}

/// RFC 1982: a > b
pub fn serial_gt(a: u32, b: u32) -> bool {
    a != b && a.wrapping_sub(b) < 0x8000_0000
}

impl Zone {
    pub fn new(apex: Labels) -> Zone {
        Zone { apex: fold(&apex), class: C_IN, sets: BTreeMap::new() }
    }

    pub fn insert(&mut self, owner: &Labels, rtype: u16, rdata: Vec<u8>, ttl: u32) {
        self.sets.entry((fold(owner), rtype)).or_default().insert(rdata, ttl);
    }

    pub fn in_zone(&self, owner: &Labels) -> bool {
        let o = fold(owner);
        o.len() >= self.apex.len() && o[o.len() - self.apex.len()..] == self.apex[..]
    }

    pub fn rrset(&self, owner: &Labels, rtype: u16) -> Option<&RrSet> {
        self.sets.get(&(fold(owner), rtype)).filter(|s| !s.is_empty())
    }

    pub fn name_in_use(&self, owner: &Labels) -> bool {
        let o = fold(owner);
        self.sets.iter().any(|((n, _), s)| *n == o && !s.is_empty())
    }

    pub fn types_at(&self, owner: &Labels) -> Vec<u16> {
        let o = fold(owner);
        self.sets.iter().filter(|((n, _), s)| *n == o && !s.is_empty()).map(|((_, t), _)| *t).collect()
    }

    pub fn serial(&self) -> Option<u32> {
        let s = self.sets.get(&(self.apex.clone(), T_SOA))?;
        soa_serial_of(s.keys().next()?)
    }

    /// all RRs, SOA serial zeroed, as a sorted multiset (for comparison "ignoring only the serial")
    pub fn projection_without_serial(&self) -> Vec<(Labels, u16, Vec<u8>, u32)> {
        let mut v = Vec::new();
        for ((n, t), set) in &self.sets {
            for (rd, ttl) in set {
                let rd = if *t == T_SOA { soa_without_serial(rd) } else { rd.clone() };
                v.push((n.clone(), *t, rd, *ttl));
            }
        }
        v.sort();
        v
    }

    fn purge_empty(&mut self) {
        self.sets.retain(|_, s| !s.is_empty());
    }
}

// ---------------------------------------------------------------------------------------------
// §3.2 prerequisites

fn is_meta_for_zone_or_none(t: u16) -> bool {
    // "ANY, AXFR, MAILA, MAILB, or any other QUERY metatype"
    matches!(t, T_ANY | T_AXFR | T_MAILA | T_MAILB | T_IXFR)
}
fn is_meta_for_any(t: u16) -> bool {
    // "AXFR, MAILA, MAILB, or any other QUERY metatype besides ANY"
    matches!(t, T_AXFR | T_MAILA | T_MAILB | T_IXFR)
}

/// Errors a single prerequisite RR can raise on its own (value-dependent RRs are collected into
/// `temp`). Follows §3.2.5; the set contains every error any admissible evaluation order could
/// signal for this RR.
fn prereq_rr_errors(z: &Zone, rr: &Rr, temp: &mut BTreeMap<RrKey, BTreeSet<Vec<u8>>>) -> BTreeSet<u8> {
    let mut e = BTreeSet::new();
    if rr.ttl != 0 {
        e.insert(FORMERR);
    }
    if !z.in_zone(&rr.owner) {
        e.insert(NOTZONE);
    }
    match rr.class {
        C_ANY => {
            if !rr.rdata.is_empty() {
                e.insert(FORMERR);
            }
            if e.is_empty() {
                if rr.rtype == T_ANY {
                    if !z.name_in_use(&rr.owner) {
                        e.insert(NXDOMAIN);
                    }
                } else if z.rrset(&rr.owner, rr.rtype).is_none() {
                    e.insert(NXRRSET);
                }
            }
        }
        C_NONE => {
            if !rr.rdata.is_empty() {
                e.insert(FORMERR);
            }
            if e.is_empty() {
                if rr.rtype == T_ANY {
                    if z.name_in_use(&rr.owner) {
                        e.insert(YXDOMAIN);
                    }
                } else if z.rrset(&rr.owner, rr.rtype).is_some() {
                    e.insert(YXRRSET);
                }
            }
        }
        c if c == z.class => {
            if e.is_empty() {
                temp.entry((fold(&rr.owner), rr.rtype)).or_default().insert(rr.rdata.clone());
            }
        }
        _ => {
            e.insert(FORMERR);
        }
    }
    e
}

/// Set of rcodes the prerequisite section may be answered with; empty = all prerequisites hold.
pub fn prerequisites(z: &Zone, pre: &[Rr]) -> BTreeSet<u8> {
    let mut errs = BTreeSet::new();
    let mut temp: BTreeMap<RrKey, BTreeSet<Vec<u8>>> = BTreeMap::new();
    for rr in pre {
        errs.extend(prereq_rr_errors(z, rr, &mut temp));
    }
    for ((owner, rtype), want) in &temp {
        let have: BTreeSet<Vec<u8>> = z.rrset(owner, *rtype).map(|s| s.keys().cloned().collect()).unwrap_or_default();
        if have != *want {
            errs.insert(NXRRSET);
        }
    }
    errs
}

// ---------------------------------------------------------------------------------------------
// §3.4.1 prescan

pub fn prescan_rr(z: &Zone, rr: &Rr) -> BTreeSet<u8> {
    let mut e = BTreeSet::new();
    if !z.in_zone(&rr.owner) {
        e.insert(NOTZONE);
    }
    if rr.class == z.class {
        if is_meta_for_zone_or_none(rr.rtype) {
            e.insert(FORMERR);
        }
    } else if rr.class == C_ANY {
        if rr.ttl != 0 || !rr.rdata.is_empty() || is_meta_for_any(rr.rtype) {
            e.insert(FORMERR);
        }
    } else if rr.class == C_NONE {
        if rr.ttl != 0 || is_meta_for_zone_or_none(rr.rtype) {
            e.insert(FORMERR);
        }
    } else {
        e.insert(FORMERR);
    }
    e
}

pub fn prescan(z: &Zone, upd: &[Rr]) -> BTreeSet<u8> {
    let mut e = BTreeSet::new();
    for rr in upd {
        e.extend(prescan_rr(z, rr));
    }
    e
}

// ---------------------------------------------------------------------------------------------
// §3.4.2 update

/// Apply one (prescanned) update RR. Returns true if the zone changed.
pub fn apply_rr(z: &mut Zone, rr: &Rr, v: Variant) -> bool {
    let before = z.sets.clone();
    let owner = fold(&rr.owner);
    let key = (owner.clone(), rr.rtype);
    if rr.class == z.class {
        let types = z.types_at(&owner);
        if rr.rtype == T_CNAME {
            if types.iter().any(|t| *t != T_CNAME) {
                return false;
            }
        } else if types.contains(&T_CNAME) {
            return false;
        }
        if rr.rtype == T_SOA {
            let Some(zset) = z.rrset(&owner, T_SOA) else { return false };
            let zserial = zset.keys().next().and_then(|r| soa_serial_of(r)).unwrap_or(0);
            let nserial = soa_serial_of(&rr.rdata).unwrap_or(0);
            if serial_gt(zserial, nserial) {
                return false;
            }
            if zserial == nserial && !v.soa_equal_replaces {
                return false;
            }
        }
        let set = z.sets.entry(key).or_default();
        if rr.rtype == T_CNAME || rr.rtype == T_SOA {
            set.clear();
        }
        set.insert(rr.rdata.clone(), rr.ttl); // duplicate RDATA: zone RR replaced by update RR (TTL)
    } else if rr.class == C_ANY {
        if rr.rtype == T_ANY {
            let apex = owner == z.apex;
            z.sets.retain(|(n, t), _| *n != owner || (apex && (*t == T_SOA || *t == T_NS)));
        } else if owner == z.apex && (rr.rtype == T_SOA || rr.rtype == T_NS) {
            // protected
        } else {
            z.sets.remove(&key);
        }
    } else if rr.class == C_NONE {
        if rr.rtype == T_SOA {
            return false;
        }
        if rr.rtype == T_NS {
            if let Some(s) = z.rrset(&owner, T_NS) {
                let only = s.len() == 1 && s.contains_key(&rr.rdata);
                if only && (owner == z.apex || !v.nonapex_last_ns_deletable) {
                    return false;
                }
            }
        }
        if let Some(s) = z.sets.get_mut(&key) {
            s.remove(&rr.rdata);
        }
    }
    z.purge_empty();
    z.sets != before
}

#[derive(Clone, Debug)]
pub struct Outcome {
    /// admissible rcodes (never empty)
    pub rcodes: BTreeSet<u8>,
    /// which stage produced the error set: "prereq" | "prescan" | "ok"
    pub stage: &'static str,
    /// zone after the message (== zone before unless accepted)
    pub zone: Zone,
    /// some update RR changed the zone at the moment it was applied
    pub touched: bool,
    /// zone after != zone before
    pub changed: bool,
    /// zone after prefixes of the update section (index i = after i RRs), accepted messages only
    pub steps: Vec<Zone>,
    /// serial carried by an accepted SOA update, if any
    pub soa_set_serial: Option<u32>,
}

pub fn process(z: &Zone, pre: &[Rr], upd: &[Rr], v: Variant) -> Outcome {
    let e = prerequisites(z, pre);
    if !e.is_empty() {
        return Outcome { rcodes: e, stage: "prereq", zone: z.clone(), touched: false, changed: false, steps: vec![], soa_set_serial: None };
    }
    let e = prescan(z, upd);
    if !e.is_empty() {
        return Outcome { rcodes: e, stage: "prescan", zone: z.clone(), touched: false, changed: false, steps: vec![], soa_set_serial: None };
    }
    let mut cur = z.clone();
    let mut steps = vec![cur.clone()];
    let mut touched = false;
    let mut soa_set = None;
    for rr in upd {
        let ch = apply_rr(&mut cur, rr, v);
        if ch && rr.class == z.class && rr.rtype == T_SOA {
            soa_set = soa_serial_of(&rr.rdata);
        }
        touched |= ch;
        steps.push(cur.clone());
    }
    let changed = cur.sets != z.sets;
    let mut rc = BTreeSet::new();
    rc.insert(NOERROR);
    Outcome { rcodes: rc, stage: "ok", zone: cur, touched, changed, steps, soa_set_serial: soa_set }
}

// ---------------------------------------------------------------------------------------------
// zone invariants of the property statement

pub fn invariants(z: &Zone) -> Vec<String> {
    let mut bad = Vec::new();
    let soas: usize = z.sets.iter().filter(|((_, t), _)| *t == T_SOA).map(|(_, s)| s.len()).sum();
    let apex_soa = z.rrset(&z.apex, T_SOA).map(|s| s.len()).unwrap_or(0);
    if soas != 1 || apex_soa != 1 {
        bad.push(format!("soa-count:{soas}:apex:{apex_soa}"));
    }
    if z.rrset(&z.apex, T_NS).is_none() {
        bad.push("no-apex-ns".to_string());
    }
    let mut owners: BTreeMap<&Labels, Vec<u16>> = BTreeMap::new();
    for ((n, t), s) in &z.sets {
        if !s.is_empty() {
            owners.entry(n).or_default().push(*t);
        }
    }
    for (_, ts) in owners {
        if ts.contains(&T_CNAME) && ts.len() > 1 {
            bad.push("cname-and-other-data".to_string());
            break;
        }
    }
    for ((_, t), s) in &z.sets {
        if *t == T_CNAME && s.len() > 1 {
            bad.push("multiple-cname".to_string());
            break;
        }
    }
    bad
}
