//! Non-interference helper of C13: what a response reveals, projected to plain types, and the
//! first aspect in which two responses to the same request bytes differ.
//!
//! Ignored on purpose: the MAC and the time-signed field of the response TSIG (they depend on the
//! moment of signing, not on the zone). Everything else is compared: rcode (with the extended
//! bits carried in OPT, which is part of the additional section), the other header bits and
//! counts, the question, the record multisets of the three sections, the remaining TSIG fields
//! (key name, algorithm, fudge, original id, error, other data, MAC *length*).
#![allow(dead_code)]

use serde_json::{json, Value};

use vh::mon::hex;
use vh::refwire::{self, Labels};

use super::reftsig;

type RecFp = (Labels, u16, u16, u32, Vec<u8>);

#[derive(Debug, PartialEq, Eq)]
pub struct Fp {
    pub id: u16,
    pub rcode: u8,
    /// flags without the rcode nibble
    pub flags: u16,
    pub counts: [u16; 4],
    pub question: Vec<(Labels, u16, u16)>,
    pub sections: [Vec<RecFp>; 3],
    /// (owner, class, ttl, algorithm, fudge, mac length, original id, error, other data)
    pub tsig: Vec<(Labels, u16, u32, Labels, u16, usize, u16, u16, Vec<u8>)>,
}

pub fn fingerprint(reply: &[u8]) -> Result<Fp, String> {
    let w = refwire::walk(reply)?;
    let mut sections: [Vec<RecFp>; 3] = [vec![], vec![], vec![]];
    let mut tsig = Vec::new();
    for (i, sec) in w.sections.iter().enumerate() {
        for r in sec {
            if r.rtype == reftsig::T_TSIG {
                match reftsig::locate(reply) {
                    Ok(t) if t.start == r.start => tsig.push((refwire::fold(&t.name), t.class, t.ttl, refwire::fold(&t.alg_name), t.fudge, t.mac.len(), t.orig_id, t.error, t.other.clone())),
                    // a TSIG the reference cannot take apart: compare it raw (nothing ignored)
                    _ => sections[i].push((refwire::fold(&r.owner.labels), r.rtype, r.class, r.ttl, r.rdata(reply).to_vec())),
                }
            } else {
                sections[i].push((refwire::fold(&r.owner.labels), r.rtype, r.class, r.ttl, r.rdata(reply).to_vec()));
            }
        }
        sections[i].sort();
    }
    Ok(Fp {
        id: w.header.id,
        rcode: w.header.rcode_low(),
        flags: w.header.flags & 0xfff0,
        counts: [w.header.qd, w.header.an, w.header.ns, w.header.ar],
        question: w.questions.iter().map(|q| (refwire::fold(&q.name.labels), q.qtype, q.qclass)).collect(),
        sections,
        tsig,
    })
}

/// `None` when the two response sequences reveal the same; otherwise (what differs, detail)
pub fn first_difference(a: &[Vec<u8>], b: &[Vec<u8>]) -> Option<(String, Value)> {
    if a.len() != b.len() {
        return Some(("reply-count".into(), json!({"a": a.len(), "b": b.len()})));
    }
    for (ra, rb) in a.iter().zip(b.iter()) {
        let (fa, fb) = match (fingerprint(ra), fingerprint(rb)) {
            (Ok(x), Ok(y)) => (x, y),
            _ => {
                if ra != rb {
                    return Some(("unparsable-reply-bytes".into(), json!({"a": hex(ra), "b": hex(rb)})));
                }
                continue;
            }
        };
        if fa == fb {
            continue;
        }
        let what = if fa.rcode != fb.rcode {
            "rcode"
        } else if fa.flags != fb.flags || fa.id != fb.id {
            "header"
        } else if fa.question != fb.question {
            "question"
        } else if fa.sections[0] != fb.sections[0] {
            "answer"
        } else if fa.sections[1] != fb.sections[1] {
            "authority"
        } else if fa.sections[2] != fb.sections[2] {
            "additional"
        } else if fa.tsig != fb.tsig {
            "tsig-fields"
        } else {
            "counts"
        };
        return Some((what.to_string(), json!({"a": hex(ra), "b": hex(rb), "a_rcode": fa.rcode, "b_rcode": fb.rcode})));
    }
    None
}
