//! The independent GATE MODEL of C11 (plain types only; no hickory code).
//!
//! Input: configuration (zone origins + handler chains, allow/deny prefix sets), source address,
//! request bytes.  Output: whether a response is due and what it may look like.
//!
//! The model evaluates every error condition of the statement separately as No / Maybe / Yes:
//!
//!  | condition            | rcode    | Yes when …                                   | Maybe when … (don't-care)                  |
//!  |----------------------|----------|----------------------------------------------|--------------------------------------------|
//!  | unknown opcode       | NOTIMP   | opcode ∉ {0,2,4,5}                           | –                                          |
//!  | question unparsable  | FORMERR  | QDCOUNT ≠ 1 (RFC 9619, documented), name /   | the QNAME uses a compression pointer (the  |
//!  |                      |          | fixed part runs off the end or is malformed  | accepted pointer forms are not in the      |
//!  |                      |          | under the permissive walker                  | statement)                                 |
//!  | source denied        | REFUSED  | longest deny prefix not beaten by a strictly | deny/allow lists exist only for the other  |
//!  |                      |          | longer allow prefix; only-allow lists miss   | address family (doc comment is ambiguous)  |
//!  | body unparsable      | FORMERR  | a record runs off the end of the message;    | anything that is not on the small          |
//!  |                      |          | two OPT records (RFC 6891 §6.1.1)            | "certainly valid" whitelist below          |
//!  | EDNS version > 0     | BADVERS  | the one OPT in the additional section has    | the records could not be walked            |
//!  |                      |          | version > 0                                  |                                            |
//!  | unsupported opcode   | NOTIMP   | STATUS, NOTIFY                               | –                                          |
//!  | no enclosing zone    | REFUSED  | QUERY and no configured origin is a suffix   | –                                          |
//!
//! Where several conditions hold at once the statement gives no order, so every rcode whose
//! condition is Yes or Maybe is admissible; the ordinary outcome (answer from the longest-suffix
//! zone / UPDATE result) is admissible only if NO condition is Yes.  In particular a denied source
//! can never obtain zone data.  `branch` = first Yes condition in the order above (for counters and
//! finding signatures), else the ordinary outcome.

use std::net::IpAddr;

use vh::refwire::{self, fold, Labels};

use crate::cfg::{Config, HKind, Net};

#[derive(Clone, Copy, Debug, PartialEq, Eq)]
pub enum Tri {
    No,
    Maybe,
    Yes,
}

pub const NOERROR: u16 = 0;
pub const FORMERR: u16 = 1;
pub const NXDOMAIN: u16 = 3;
pub const NOTIMP: u16 = 4;
pub const REFUSED: u16 = 5;
pub const BADVERS: u16 = 16;

#[derive(Clone, Debug, PartialEq, Eq)]
pub struct Question {
    pub labels: Labels,
    pub qtype: u16,
    pub qclass: u16,
    /// offset just past QCLASS in the request
    pub end: usize,
    /// number of compression pointers in QNAME
    pub pointers: usize,
    /// a pointer lands inside the 12 header octets
    pub header_pointer: bool,
}

#[derive(Clone, Debug, PartialEq, Eq)]
pub enum Normal {
    /// answered by handler `marker` of the longest-suffix zone; `strict` = ordinary class/type, so
    /// rcode ∈ {NOERROR, NXDOMAIN} and the marker must be present
    Zone { origin: String, marker: Option<u16>, strict: bool },
    /// UPDATE reaching the catalog: result code is C12's business (don't-care here)
    Update,
    /// not applicable (some condition is certain or the question is unknown)
    None,
}

#[derive(Clone, Debug, PartialEq, Eq)]
pub enum QEcho {
    /// response must carry exactly the request's question
    Must,
    /// question may be absent; if present it must equal the request's
    IfPresent,
    /// QNAME went through the header octets (or question unknown): not compared
    DontCare,
}

#[derive(Clone, Debug)]
pub struct Expect {
    pub branch: &'static str,
    pub respond: bool,
    /// admissible rcodes of the error conditions (Yes or Maybe)
    pub err_rcodes: Vec<u16>,
    pub normal: Normal,
    pub qecho: QEcho,
    pub question: Option<Question>,
    pub conds: Vec<(&'static str, Tri)>,
}

pub fn question(b: &[u8]) -> Result<Question, String> {
    let (n, p) = refwire::read_name(b, 12)?;
    if p + 4 > b.len() {
        return Err("question fixed part runs off the end".into());
    }
    let qtype = u16::from_be_bytes([b[p], b[p + 1]]);
    let qclass = u16::from_be_bytes([b[p + 2], b[p + 3]]);
    Ok(Question { header_pointer: n.targets.iter().any(|t| *t < 12), pointers: n.pointers, labels: n.labels, qtype, qclass, end: p + 4 })
}

/// Is `ip` denied?  Documented semantics (access.rs): per address family, the longest matching
/// deny prefix loses only against a strictly longer matching allow prefix; deny-only match ⇒ denied;
/// allow-only match ⇒ allowed; no match: lists with deny entries allow the rest, allow-only lists deny
/// the rest, empty lists allow.  v4-mapped v6 sources count as v4.
pub fn acl_denied(cfg: &Config, ip: IpAddr) -> Tri {
    let (v6, addr): (bool, u128) = match ip {
        IpAddr::V4(a) => (false, (u32::from(a) as u128) << 96),
        IpAddr::V6(a) => {
            let x = u128::from(a);
            if x >> 32 == 0xffff {
                (false, ((x & 0xffff_ffff) as u128) << 96)
            } else {
                (true, x)
            }
        }
    };
    let lpm = |nets: &[Net]| -> Option<u8> { nets.iter().filter(|n| n.v6 == v6 && (addr & Net::mask(n.len)) == n.addr).map(|n| n.len).max() };
    match (lpm(&cfg.deny), lpm(&cfg.allow)) {
        (Some(d), Some(a)) => {
            if a > d {
                Tri::No
            } else {
                Tri::Yes
            }
        }
        (Some(_), None) => Tri::Yes,
        (None, Some(_)) => Tri::No,
        (None, None) => {
            let reading = |deny_any: bool, allow_any: bool| -> bool { !deny_any && allow_any };
            let fam = reading(cfg.deny.iter().any(|n| n.v6 == v6), cfg.allow.iter().any(|n| n.v6 == v6));
            let glob = reading(!cfg.deny.is_empty(), !cfg.allow.is_empty());
            match (fam, glob) {
                (true, true) => Tri::Yes,
                (false, false) => Tri::No,
                _ => Tri::Maybe,
            }
        }
    }
}

#[derive(Clone, Copy, Debug, PartialEq, Eq)]
pub enum Edns {
    None,
    Version(u8),
    Unknown,
}

/// (body unparsable?, EDNS)
pub fn body(b: &[u8], q: &Question, opcode: u8) -> (Tri, Edns) {
    let m = match refwire::walk(b) {
        Ok(m) => m,
        Err(e) => {
            // data that is simply not there: every parser must fail
            let missing = e.contains("runs off the end") || e.contains("short read");
            return (if missing { Tri::Yes } else { Tri::Maybe }, Edns::Unknown);
        }
    };
    let opts: Vec<&refwire::WRecord> = m.sections[2].iter().filter(|r| r.rtype == 41).collect();
    if opts.len() >= 2 {
        return (Tri::Yes, Edns::Unknown);
    }
    let edns = match opts.first() {
        None => Edns::None,
        Some(o) => Edns::Version((o.ttl >> 16) as u8),
    };
    // whitelist of certainly-valid bodies
    let mut simple = m.end == b.len();
    for (si, sec) in m.sections.iter().enumerate() {
        for r in sec {
            let owner_ok = r.owner.pointers == 0 || (r.owner.pointers == 1 && r.owner.targets == [12] && q.pointers == 0 && b[r.start] & 0xC0 == 0xC0);
            let rd = r.rdata(b);
            let data_ok = match r.rtype {
                1 => r.class == 1 && (rd.len() == 4 || (opcode == 5 && rd.is_empty())),
                16 => {
                    r.class == 1 && {
                        let mut i = 0;
                        while i < rd.len() {
                            i += 1 + rd[i] as usize;
                        }
                        !rd.is_empty() && i == rd.len()
                    }
                }
                41 => {
                    si == 2 && r.owner.labels.is_empty() && r.owner.pointers == 0 && {
                        let mut i = 0;
                        let mut ok = true;
                        while i < rd.len() {
                            if i + 4 > rd.len() {
                                ok = false;
                                break;
                            }
                            let code = u16::from_be_bytes([rd[i], rd[i + 1]]);
                            let l = u16::from_be_bytes([rd[i + 2], rd[i + 3]]) as usize;
                            if code < 65001 || code > 65534 || i + 4 + l > rd.len() {
                                ok = false;
                                break;
                            }
                            i += 4 + l;
                        }
                        ok
                    }
                }
                _ => false,
            };
            if !(owner_ok && data_ok) {
                simple = false;
            }
        }
    }
    (if simple { Tri::No } else { Tri::Maybe }, edns)
}

/// longest-suffix zone for folded labels
pub fn find_zone<'a>(cfg: &'a Config, qname: &Labels) -> Option<&'a crate::cfg::ZoneSpec> {
    let q = fold(qname);
    cfg.zones
        .iter()
        .filter(|z| {
            let o = z.origin_labels();
            o.len() <= q.len() && q[q.len() - o.len()..] == o[..]
        })
        .max_by_key(|z| z.origin_labels().len())
}

const ORDINARY_TYPES: &[u16] = &[1, 2, 5, 6, 15, 16, 28];

pub fn gate(cfg: &Config, src: IpAddr, b: &[u8]) -> Expect {
    let mut e = Expect { branch: "short", respond: false, err_rcodes: vec![], normal: Normal::None, qecho: QEcho::DontCare, question: None, conds: vec![] };
    if b.len() < 12 {
        return e;
    }
    let flags = u16::from_be_bytes([b[2], b[3]]);
    if flags & 0x8000 != 0 {
        e.branch = "qr";
        return e;
    }
    e.respond = true;
    let opcode = ((flags >> 11) & 0xf) as u8;
    let qd = u16::from_be_bytes([b[4], b[5]]);

    let c_unknown_op = if matches!(opcode, 0 | 2 | 4 | 5) { Tri::No } else { Tri::Yes };
    let q = if qd == 1 { question(b).ok() } else { None };
    let c_question = match &q {
        None => Tri::Yes,
        Some(q) if q.pointers > 0 => Tri::Maybe,
        Some(_) => Tri::No,
    };
    let c_acl = acl_denied(cfg, src);
    let (c_body, edns) = match &q {
        Some(q) => body(b, q, opcode),
        None => (Tri::No, Edns::None), // not evaluated: the question already failed
    };
    let c_badvers = match edns {
        _ if q.is_none() || c_body == Tri::Yes => Tri::No,
        Edns::Version(v) if v > 0 => Tri::Yes,
        Edns::Unknown => Tri::Maybe,
        _ => Tri::No,
    };
    let c_unsupported = if matches!(opcode, 2 | 4) { Tri::Yes } else { Tri::No };
    let zone = match (&q, opcode) {
        (Some(q), 0) => Some(find_zone(cfg, &q.labels)),
        _ => None,
    };
    let c_nozone = match zone {
        Some(None) => Tri::Yes,
        _ => Tri::No,
    };
    let conds: Vec<(&'static str, Tri, u16)> = vec![
        ("notimp-unknown-opcode", c_unknown_op, NOTIMP),
        ("formerr-question", c_question, FORMERR),
        ("refused-acl", c_acl, REFUSED),
        ("formerr-body", c_body, FORMERR),
        ("badvers", c_badvers, BADVERS),
        ("notimp-opcode", c_unsupported, NOTIMP),
        ("refused-nozone", c_nozone, REFUSED),
    ];
    for (_, t, rc) in &conds {
        if *t != Tri::No && !e.err_rcodes.contains(rc) {
            e.err_rcodes.push(*rc);
        }
    }
    let first_yes = conds.iter().find(|c| c.1 == Tri::Yes).map(|c| c.0);
    e.conds = conds.iter().map(|c| (c.0, c.1)).collect();
    if first_yes.is_none() {
        e.normal = match (opcode, zone) {
            (5, _) => Normal::Update,
            (0, Some(Some(z))) => {
                let q = q.as_ref().unwrap();
                let marker = z.chain.iter().find(|h| h.kind != HKind::Skip).map(|h| h.marker);
                Normal::Zone { origin: z.origin.clone(), marker, strict: marker.is_some() && q.qclass == 1 && ORDINARY_TYPES.contains(&q.qtype) }
            }
            _ => Normal::None,
        };
    }
    e.branch = first_yes.unwrap_or(match &e.normal {
        Normal::Update => "update",
        Normal::Zone { marker: None, .. } => "zone-all-skip",
        Normal::Zone { .. } => "zone-answer",
        Normal::None => "unreachable",
    });
    e.qecho = match &q {
        Some(q) if q.header_pointer => QEcho::DontCare,
        // the server certainly parsed the question: it must come back
        Some(q) if q.pointers == 0 && c_unknown_op == Tri::No => QEcho::Must,
        Some(_) => QEcho::IfPresent,
        // request question unknown to the model: a response without question is expected, one
        // with a question cannot be compared
        None => QEcho::DontCare,
    };
    e.question = q;
    e
}
