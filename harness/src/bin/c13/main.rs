//! C13 — updates and signed-only transfers need a valid, timely TSIG; replies verify at the client.
//!
//! Real code: `SqliteZoneHandler` (updates on, `AxfrPolicy::AllowSigned`, 1–3 TSIG keys) behind a
//! `Catalog`; server clock = virtual `VTime` (the `T: Time` parameter of handle_request). Genuine
//! UPDATE / AXFR requests are signed by hickory's CLIENT side (`Message::finalize` with a
//! `TSigner`), then mutated: every single-bit flip, byte sets, section-count edits, TSIG field
//! edits re-encoded without re-MAC, structural edits (record after TSIG, two TSIGs, TSIG moved out
//! of the additional section, trailing bytes), key confusion, unsigned, clock offsets.
//!
//! Oracle: `reftsig` (independent RFC 8945 §4.3 digest + ring HMAC) decides every request:
//! valid iff well-formed with the TSIG as the only/last additional record, configured key name +
//! algorithm, full-length MAC over the exact bytes (original-ID substitution), |now - time| < fudge.
//!  * `only-if`: zone snapshot changed, or an AXFR/IXFR response carries answer records => the
//!    reference says valid (sig = mutation class [@ region of the flipped byte] : symptom);
//!  * `reply`: for the genuine request at a valid clock the reply must pass the client's
//!    `TSigVerifier::verify` (`reply-not-verifiable`), and every bit-flipped reply that reftsig
//!    (response form, request MAC prepended) rejects must be rejected too (`forged-reply-accepted`);
//!  * `valid-refused`: the genuine request at |offset| < fudge must take effect (sanity of the
//!    harness and of the server: otherwise everything else is vacuous); an authentic UPDATE whose
//!    prerequisites do not hold (by `refupdate`) must be answered from the prerequisite section,
//!    i.e. not REFUSED/NOTAUTH, and its (signed) reply goes through the reply clause as well;
//!  * `leak` (non-interference reading of "returns no zone data"): the response to a request the
//!    reference judges INVALID must not depend on the zone's content.
//!    (a) direct: an invalid UPDATE is never answered NXDOMAIN / YXDOMAIN / YXRRSET / NXRRSET —
//!        those rcodes can only come from evaluating the prerequisite section against zone data
//!        (sig `rcode-<NAME>:<mutation class>`);
//!    (b) differential: the same invalid bytes at the same clock go to a second server with the
//!        same keys whose zone differs exactly in the RRset(s) the request's prerequisite names
//!        (present/absent, equal/different value, so that the prerequisite's truth flips): rcode,
//!        header, question and the three record sets must agree, response TSIG MAC/time ignored
//!        (sig `differs:<what>:<mutation class>`). The authentic request is sent to both servers
//!        too: it must tell them apart (counter `leak/pairs-distinguished-by-valid-request`),
//!        otherwise the differential is vacuous;
//!  * `client` (part G3, `client.rs`): `DnsMultiplexer` (13 signed requests in flight) and
//!    `UdpClientStream` built WITH the signer, hand-driven against the real server path: the
//!    genuine reply completes the request, forged ones (bit flips, TSIG stripped, other secret /
//!    key name, another in-flight request's MAC, no request MAC, stale time, empty MAC) never do;
//!  * `panic`.
//! Base requests vary what hickory's client helpers never produce: header bits RD/CD/AD/TC (and
//! the reserved Z bit), EDNS right before the TSIG, 0-2
//! prerequisites of every RFC 2136 3.2 form in satisfied and unsatisfied variants (generated
//! against the known zone content), 1-3 update RRs, an IXFR-style SOA in the authority section
//! of AXFR queries. Every clause runs for every base request. A reply-clause alarm is attributed
//! to the smallest responsible request feature by re-running the clause on twins of the request
//! that carry no / one / two feature(s) (sig suffix `:req=<feature>[+<feature>]`).
//! EDNS of signed requests (UPDATE and AXFR alike; what the server signs is the reply WITH the
//! OPT it answers with, which differs from the request's OPT as soon as that carries anything
//! beyond payload size and DO): no OPT / OPT version 0 with payload below 512, 512, 1232, 4096,
//! 65535, other; DO on/off; the 15 Z flag bits; options NSID request, COOKIE (client part only),
//! PADDING, EXPIRE, TCP-KEEPALIVE, DAU, CLIENT-SUBNET, unassigned codes with random data, 2-8 of
//! them in one OPT. (a) 60% of the base requests carry a random such OPT and go through every
//! clause; (b) EDNS sweep: every base request is re-sent (genuine, offset 0, reply clause without
//! flips) with each shape class (`basegen::edns_sweep`, ~23 shapes). Server side: every second
//! server has an NSID configured (`Catalog::set_nsid`, same on the leak twin); a shape that asks
//! for the NSID goes to the server with and without it. Counters `edns/verified/<kind>/<class>`.
//! A request whose advertised payload is below 512 cannot be produced by hickory's client model
//! (clamped on encoding): signed by `reftsig`, reply checked like the Z-bit ones.
//! Transfer policies: every AXFR base request is also sent, correctly signed (as generated /
//! without OPT / with options), to the same zone under `AllowAll` (must transfer; IF the reply
//! carries a TSIG it must verify; sigs `...:axfr@allow-all:...`) and under `Deny` (no zone data:
//! `only-if` / `policy-deny:data-leaked`).
//! EDNS version != 0 is a separate case outside the clauses (`badvers_probe`): the catalog
//! answers BADVERS (RFC 6891 6.1.3) before any zone handler / TSIG is looked at; only counted
//! (`edns-version/*`), plus: no panic, and a reply that does carry a TSIG must verify.
//! Don't-cares: under `AllowAll` hickory never looks at the TSIG of a transfer request and sends
//! the zone unsigned (the statement speaks of the signed-only policy; RFC 8945 5.2 would have
//! the reply carry a TSIG): counted under dontcare/allow-all-reply-unsigned, not judged;
//! |now - time| == fudge exactly (hickory's range is half-open, RFC not explicit);
//! header-ID flips (covered by the original-ID field: the reference itself says valid);
//! bits hickory's `Header`/`Record` model does not carry and that leave the parsed message equal
//! are reported under their own region signature, never silently dropped (see report);
//! ordinary queries produced by a flip of the opcode are not protected by TSIG: "returns zone
//! data" is judged only on AXFR/IXFR responses, "zone changed" on everything; for the same
//! reason the `leak` clause skips mutants whose opcode became QUERY;
//! a request with the reserved Z bit set: hickory re-encodes the header from its model before
//! computing the digest, so it refuses the (reference-valid) request signed over the exact
//! bytes — only-if direction is not concerned; counted under dontcare/z-request-refused. Such
//! requests are signed by `reftsig` (hickory's client cannot produce them) and their replies are
//! checked with `TSigner::verify_message_byte` + the time window (what `TSigVerifier` does);
//! the leak clause applies the same same-parse exemption as only-if (hickory treats such a
//! request as the authentic one).

#[path = "../c12/reftsig.rs"]
mod reftsig;
#[path = "../c12/refupdate.rs"]
mod refupdate;
#[path = "../c12/zonekit.rs"]
mod zonekit;
mod basegen;
mod client;
mod leak;

use std::collections::BTreeMap;
use std::sync::Arc;

use hickory_proto::op::Message;
use hickory_proto::rr::rdata::opt::NSIDPayload;
use hickory_proto::rr::{TSigVerifier, TSigner};
use hickory_server::zone_handler::{AxfrPolicy, Catalog};
use serde_json::{json, Value};

use basegen::{Spec, F_Z};
use reftsig::{Alg, Key, Verdict};
use refupdate::*;
use vh::mon::{self, hex, unhex, Ctx, Reporter};
use vh::prng::{fnv64, Rng};
use vh::refwire;
use zonekit::*;

const T0: u64 = 1_700_000_000;
const FUDGE: u64 = 300;

struct World {
    rt: tokio::runtime::Runtime,
    env: Env,
    zone0: Zone,
    h: Arc<Handler>,
    cat: Catalog,
    base: Snap,
    /// transfer policy of the zone handler (AllowSigned except in the policy probes)
    policy: AxfrPolicy,
    /// `Catalog::set_nsid`: the server answers an NSID request with this payload (RFC 5001)
    nsid: Option<Vec<u8>>,
}

impl World {
    fn new(dir: std::path::PathBuf, keys: Vec<Key>, zone0: Zone) -> Result<World, String> {
        let rt = tokio::runtime::Builder::new_current_thread().enable_all().start_paused(true).build().expect("rt");
        let env = Env::new(dir, keys);
        env.write_zone(&zone_text(&zone0));
        let h = Arc::new(rt.block_on(env.open(":memory:", AxfrPolicy::AllowSigned))?);
        let cat = catalog_for(&h);
        let base = snapshot(&rt, &h);
        Ok(World { rt, env, zone0, h, cat, base, policy: AxfrPolicy::AllowSigned, nsid: None })
    }
    fn reset(&mut self) -> Result<(), String> {
        let h = Arc::new(self.rt.block_on(self.env.open(":memory:", self.policy))?);
        self.cat = catalog_for(&h);
        self.h = h;
        self.base = snapshot(&self.rt, &self.h);
        self.apply_nsid();
        Ok(())
    }
    fn apply_nsid(&mut self) {
        let payload = self.nsid.as_ref().and_then(|b| NSIDPayload::new(b.clone()).ok());
        self.cat.set_nsid(payload);
    }
    fn set_nsid(&mut self, nsid: Option<Vec<u8>>) {
        self.nsid = nsid;
        self.apply_nsid();
    }
    fn set_policy(&mut self, policy: AxfrPolicy) -> Result<(), String> {
        self.policy = policy;
        self.reset()
    }
    fn policy_name(&self) -> &'static str {
        match self.policy {
            AxfrPolicy::AllowSigned => "allow-signed",
            AxfrPolicy::AllowAll => "allow-all",
            AxfrPolicy::Deny => "deny",
        }
    }
}

fn policy_of(name: &str) -> AxfrPolicy {
    match name {
        "allow-all" => AxfrPolicy::AllowAll,
        "deny" => AxfrPolicy::Deny,
        _ => AxfrPolicy::AllowSigned,
    }
}

fn signer_of(k: &Key) -> TSigner {
    TSigner::new(k.secret.clone(), hk_alg(k.alg), to_name(&k.name), FUDGE as u16).expect("signer")
}

/// genuine request signed by hickory's client side; returns (bytes, verifier)
fn client_sign(unsigned: &[u8], key: &Key, time: u64) -> Result<(Vec<u8>, TSigVerifier), String> {
    let mut m = Message::from_vec(unsigned).map_err(|e| e.to_string())?;
    let v = m.finalize(&signer_of(key), time).map_err(|e| e.to_string())?.ok_or("no verifier")?;
    Ok((m.to_vec().map_err(|e| e.to_string())?, v))
}

/// The client's view of a reply. `Client`: hickory's `TSigVerifier` as returned by
/// `Message::finalize`. `Raw`: for requests hickory's message model cannot express (reserved Z
/// bit) the request is signed by `reftsig` and the reply goes through the two steps
/// `TSigVerifier::verify` consists of (`TSigner::verify_message_byte` with the request MAC, then
/// the request time inside the reply's fudge window).
enum Verifier {
    Client(TSigVerifier),
    Raw { signer: TSigner, req_mac: Vec<u8>, time: u64 },
}

impl Verifier {
    fn verify(&mut self, reply: &[u8]) -> Result<(), String> {
        match self {
            Verifier::Client(v) => v.verify(reply).map(|_| ()).map_err(|e| e.to_string()),
            Verifier::Raw { signer, req_mac, time } => {
                let (_, _, range) = signer.verify_message_byte(reply, Some(req_mac), true).map_err(|e| e.to_string())?;
                if !range.contains(time) {
                    return Err("tsig validation error: outdated response".into());
                }
                Message::from_vec(reply).map(|_| ()).map_err(|e| e.to_string())
            }
        }
    }
}

/// the authentic form of a base request: (signed bytes, client-side verifier)
fn sign_base(unsigned: &[u8], key: &Key, time: u64) -> Result<(Vec<u8>, Verifier), String> {
    // what hickory's message model cannot express (reserved header bit, advertised payload size
    // below 512) is signed over the exact bytes by the reference
    if !Spec::parse(unsigned)?.client_expressible() {
        let signed = reftsig::sign_request(unsigned, key, time, FUDGE as u16);
        let req_mac = reftsig::locate(&signed)?.mac;
        Ok((signed, Verifier::Raw { signer: signer_of(key), req_mac, time }))
    } else {
        let (signed, v) = client_sign(unsigned, key, time)?;
        Ok((signed, Verifier::Client(v)))
    }
}

#[derive(Debug)]
struct Obs {
    decoder_refused: bool,
    zone_changed: bool,
    axfr_data: bool,
    rcode: Option<u8>,
    replies: Vec<Vec<u8>>,
    panic: Option<mon::PanicRecord>,
}

fn observe(w: &mut World, bytes: &[u8], now: u64) -> Obs {
    set_clock(now);
    let mut o = Obs { decoder_refused: false, zone_changed: false, axfr_data: false, rcode: None, replies: vec![], panic: None };
    match send(&w.rt, &w.cat, bytes) {
        Ok(v) => o.replies = v,
        Err(SendErr::Parse(_)) => {
            o.decoder_refused = true;
            return o;
        }
        Err(SendErr::Panic(p)) => {
            o.panic = Some(p);
            let _ = w.reset();
            return o;
        }
    }
    for r in &o.replies {
        if let Ok(m) = refwire::walk(r) {
            o.rcode = Some(m.header.rcode_low());
            let xfr = m.questions.first().map(|q| q.qtype == T_AXFR || q.qtype == T_IXFR).unwrap_or(false);
            if xfr && m.header.opcode() == 0 && m.sections[0].iter().any(|rec| rec.rtype != reftsig::T_TSIG) {
                o.axfr_data = true;
            }
        }
    }
    let s = snapshot(&w.rt, &w.h);
    if s != w.base {
        o.zone_changed = true;
        let _ = w.reset();
    }
    o
}

/// Observation of the twin server of the leak clause: as `observe`, but the zone snapshot is only
/// taken when the reply does not carry an error rcode (the only-if clause watches the first
/// server's zone for every request; here only the responses are compared).
fn observe_twin(w: &mut World, bytes: &[u8], now: u64) -> Obs {
    set_clock(now);
    let mut o = Obs { decoder_refused: false, zone_changed: false, axfr_data: false, rcode: None, replies: vec![], panic: None };
    match send(&w.rt, &w.cat, bytes) {
        Ok(v) => o.replies = v,
        Err(SendErr::Parse(_)) => {
            o.decoder_refused = true;
            return o;
        }
        Err(SendErr::Panic(p)) => {
            o.panic = Some(p);
            let _ = w.reset();
            return o;
        }
    }
    o.rcode = o.replies.last().and_then(|r| rcode_of(r));
    if !matches!(o.rcode, Some(rc) if rc != NOERROR) {
        let s = snapshot(&w.rt, &w.h);
        if s != w.base {
            o.zone_changed = true;
            let _ = w.reset();
        }
    }
    o
}

#[derive(Clone)]
struct Mutant {
    class: String,
    bytes: Vec<u8>,
}

fn mutants(rng: &mut Rng, signed: &[u8], keys: &[Key], key: &Key, time: u64, unsigned: &[u8], thorough: bool) -> Vec<Mutant> {
    let mut v = Vec::new();
    let regs = reftsig::regions(signed);
    // 1. every single-bit flip
    for pos in 0..signed.len() {
        for bit in 0..8 {
            let mut b = signed.to_vec();
            b[pos] ^= 1 << bit;
            v.push(Mutant { class: format!("bitflip@{}", reftsig::region_of(&regs, pos)), bytes: b });
        }
    }
    // 2. byte sets
    let n_sets = if thorough { signed.len() } else { 48 };
    for i in 0..n_sets {
        let pos = if thorough { i } else { rng.usize_below(signed.len()) };
        for val in [0x00u8, 0xff, 0xc0, 0x3f, 0x40] {
            if signed[pos] != val {
                let mut b = signed.to_vec();
                b[pos] = val;
                v.push(Mutant { class: format!("byteset@{}", reftsig::region_of(&regs, pos)), bytes: b });
            }
        }
    }
    // 3. section counts
    for off in [4usize, 6, 8, 10] {
        let c = u16::from_be_bytes([signed[off], signed[off + 1]]);
        for nv in [c.wrapping_add(1), c.wrapping_sub(1), 0] {
            if nv != c {
                let mut b = signed.to_vec();
                b[off..off + 2].copy_from_slice(&nv.to_be_bytes());
                v.push(Mutant { class: "count-edit".into(), bytes: b });
            }
        }
    }
    // 4. TSIG field edits, re-encoded, MAC kept
    if let Ok(t) = reftsig::locate(signed) {
        let body = reftsig::strip(signed, &t);
        let re = |name: &refwire::Labels, alg: &refwire::Labels, time: u64, fudge: u16, mac: &[u8], oid: u16, err: u16, other: &[u8]| reftsig::append_tsig(&body, name, alg, time, fudge, mac, oid, err, other);
        let mut push = |class: &str, b: Vec<u8>| v.push(Mutant { class: class.to_string(), bytes: b });
        for k in keys {
            if k.name != t.name {
                push("tsig-key-name:other-configured", re(&k.name, &t.alg_name, t.time, t.fudge, &t.mac, t.orig_id, t.error, &t.other));
            }
        }
        push("tsig-key-name:unknown", re(&lbl("nokey."), &t.alg_name, t.time, t.fudge, &t.mac, t.orig_id, t.error, &t.other));
        for a in [Alg::Sha256, Alg::Sha384, Alg::Sha512] {
            if a.labels() != t.alg_name {
                push("tsig-algorithm:other-supported", re(&t.name, &a.labels(), t.time, t.fudge, &t.mac, t.orig_id, t.error, &t.other));
            }
        }
        push("tsig-algorithm:unknown", re(&t.name, &lbl("hmac-md5.sig-alg.reg.int."), t.time, t.fudge, &t.mac, t.orig_id, t.error, &t.other));
        for d in [1i64, -1, 300, -300, 1 << 32] {
            push("tsig-time", re(&t.name, &t.alg_name, (t.time as i64 + d) as u64 & 0xFFFF_FFFF_FFFF, t.fudge, &t.mac, t.orig_id, t.error, &t.other));
        }
        for f in [t.fudge.wrapping_add(1), t.fudge.wrapping_sub(1), 0, 65535] {
            push("tsig-fudge", re(&t.name, &t.alg_name, t.time, f, &t.mac, t.orig_id, t.error, &t.other));
        }
        let l = t.mac.len();
        push("tsig-mac:truncated-0", re(&t.name, &t.alg_name, t.time, t.fudge, &[], t.orig_id, t.error, &t.other));
        push("tsig-mac:truncated-half", re(&t.name, &t.alg_name, t.time, t.fudge, &t.mac[..l / 2], t.orig_id, t.error, &t.other));
        push("tsig-mac:truncated-10", re(&t.name, &t.alg_name, t.time, t.fudge, &t.mac[..10.min(l)], t.orig_id, t.error, &t.other));
        push("tsig-mac:truncated-len-1", re(&t.name, &t.alg_name, t.time, t.fudge, &t.mac[..l - 1], t.orig_id, t.error, &t.other));
        let mut ext = t.mac.clone();
        ext.push(0);
        push("tsig-mac:extended", re(&t.name, &t.alg_name, t.time, t.fudge, &ext, t.orig_id, t.error, &t.other));
        let mut ext2 = t.mac.clone();
        ext2.extend_from_slice(&t.mac);
        push("tsig-mac:extended", re(&t.name, &t.alg_name, t.time, t.fudge, &ext2, t.orig_id, t.error, &t.other));
        for d in [1u16, 0xffff] {
            push("tsig-original-id", re(&t.name, &t.alg_name, t.time, t.fudge, &t.mac, t.orig_id.wrapping_add(d), t.error, &t.other));
        }
        for e in [16u16, 17, 18, 22, 1] {
            push("tsig-error", re(&t.name, &t.alg_name, t.time, t.fudge, &t.mac, t.orig_id, e, &t.other));
        }
        push("tsig-other-data", re(&t.name, &t.alg_name, t.time, t.fudge, &t.mac, t.orig_id, t.error, &[0, 0, 0x65, 0x53, 0xf1, 0x00]));
        // 5. structure
        let mut after = signed.to_vec();
        refwire::put_record(&mut after, &lbl("x.z."), T_A, C_IN, 0, &[192, 0, 2, 99]);
        let ar = u16::from_be_bytes([after[10], after[11]]) + 1;
        after[10..12].copy_from_slice(&ar.to_be_bytes());
        push("record-after-tsig", after);
        let mut two = signed.to_vec();
        two.extend_from_slice(&signed[t.start..]);
        let ar = u16::from_be_bytes([two[10], two[11]]) + 1;
        two[10..12].copy_from_slice(&ar.to_be_bytes());
        push("two-tsigs", two);
        // TSIG moved into the authority section (AR-1, NS+1); only meaningful when it is the only
        // additional record (otherwise the section boundary does not fall in front of it)
        let mut moved = signed.to_vec();
        let ns = u16::from_be_bytes([moved[8], moved[9]]) + 1;
        let ar = u16::from_be_bytes([moved[10], moved[11]]) - 1;
        moved[8..10].copy_from_slice(&ns.to_be_bytes());
        moved[10..12].copy_from_slice(&ar.to_be_bytes());
        push("tsig-not-in-additional", moved);
        // TSIG not last: an OPT-less extra additional record placed before it, signed content untouched otherwise
        let mut notlast = body.clone();
        refwire::put_record(&mut notlast, &lbl("x.z."), T_A, C_IN, 0, &[192, 0, 2, 98]);
        let ar = u16::from_be_bytes([notlast[10], notlast[11]]) + 1;
        notlast[10..12].copy_from_slice(&ar.to_be_bytes());
        // (a) TSIG after it with the old MAC; (b) TSIG first, record last
        push("tsig-not-last", {
            let mut b = body.clone();
            b.extend_from_slice(&signed[t.start..]);
            refwire::put_record(&mut b, &lbl("x.z."), T_A, C_IN, 0, &[192, 0, 2, 98]);
            let ar = u16::from_be_bytes([b[10], b[11]]) + 2;
            b[10..12].copy_from_slice(&ar.to_be_bytes());
            b
        });
        push("extra-record-before-tsig", reftsig::append_tsig(&notlast, &t.name, &t.alg_name, t.time, t.fudge, &t.mac, t.orig_id, t.error, &t.other));
        // an OPT record placed behind the TSIG (RFC 6891 6.1.1: OPT placement never overrides
        // "TSIG is last"): appended when the request has none, moved when it has one
        push("opt-after-tsig", {
            let opt_rec = refwire::walk(&body).ok().and_then(|w| w.sections[2].iter().find(|r| r.rtype == basegen::T_OPT).map(|r| (r.start, r.end)));
            let mut b;
            match opt_rec {
                Some((s, e)) if e == body.len() => {
                    // body = ... OPT ; result = ... TSIG OPT (names in both are uncompressed or point backwards into the untouched prefix)
                    b = body[..s].to_vec();
                    b.extend_from_slice(&signed[t.start..]);
                    b.extend_from_slice(&body[s..e]);
                    let ar = u16::from_be_bytes([body[10], body[11]]) + 1;
                    b[10..12].copy_from_slice(&ar.to_be_bytes());
                }
                _ => {
                    b = signed.to_vec();
                    refwire::put_record(&mut b, &[], basegen::T_OPT, 1232, 0, &[]);
                    let ar = u16::from_be_bytes([b[10], b[11]]) + 1;
                    b[10..12].copy_from_slice(&ar.to_be_bytes());
                }
            }
            b
        });
        for n in [1usize, 12] {
            let mut b = signed.to_vec();
            b.extend(std::iter::repeat(0u8).take(n));
            push("trailing-bytes", b);
        }
        // 6. key confusion (fresh MACs by reftsig)
        let mut wrong = key.clone();
        wrong.secret = b"another-secret-another-secret-xx".to_vec();
        push("key:same-name-other-secret", reftsig::sign_request(unsigned, &wrong, time, FUDGE as u16));
        let mut other_name = key.clone();
        other_name.name = lbl("stranger.");
        push("key:other-name-same-secret", reftsig::sign_request(unsigned, &other_name, time, FUDGE as u16));
        for k in keys {
            if k.name != key.name {
                let mut x = k.clone();
                x.secret = key.secret.clone();
                x.alg = key.alg;
                push("key:configured-name-with-other-keys-secret", reftsig::sign_request(unsigned, &x, time, FUDGE as u16));
            }
        }
        for a in [Alg::Sha256, Alg::Sha384, Alg::Sha512] {
            if a != key.alg {
                // right name and secret, other algorithm (field and MAC)
                let mut x = key.clone();
                x.alg = a;
                push("key:other-algorithm", reftsig::sign_request(unsigned, &x, time, FUDGE as u16));
                // algorithm FIELD says `a`, MAC computed with the configured algorithm
                push("key:algorithm-field-only", reftsig::sign_custom(unsigned, &key.name, &a.labels(), key.alg, &key.secret, time, FUDGE as u16));
            }
        }
        // 7. unsigned
        push("unsigned", unsigned.to_vec());
        push("unsigned", body);
    }
    v
}

/// "parse to the same message": hickory's own decoder yields field-for-field the same Message
fn same_parse(a: &[u8], b: &[u8]) -> bool {
    match (Message::from_vec(a), Message::from_vec(b)) {
        (Ok(x), Ok(y)) => format!("{x:?}") == format!("{y:?}"),
        _ => false,
    }
}

/// bit flips and byte sets share one signature per region
fn positional(class: &str) -> String {
    match class.split_once('@') {
        Some((fam, region)) if fam == "bitflip" || fam == "byteset" => format!("byte-edit@{region}"),
        _ => class.to_string(),
    }
}

struct Checker<'a> {
    rep: &'a mut Reporter,
}

fn case_json(w: &World, wb: Option<&World>, kind: &str, req_kind: &str, unsigned: &[u8], key_idx: usize, time: u64, bytes: &[u8], now: u64, class: &str) -> Value {
    let mut c = json!({
        "kind": kind, "request": req_kind, "zone": zone_json(&w.zone0), "zone_text": zone_lines(&w.zone0),
        "keys": w.env.keys.iter().map(|k| json!({"name": show(&k.name), "alg": k.alg.name(), "secret": hex(&k.secret)})).collect::<Vec<_>>(),
        "unsigned_request": hex(unsigned), "signing_key": key_idx, "signed_at": time,
        "bytes": hex(bytes), "server_clock": now, "mutation": class,
        "axfr_policy": w.policy_name(), "server_nsid": w.nsid.as_ref().map(|b| hex(b)),
    });
    if let Ok(s) = Spec::parse(unsigned) {
        c["base"] = s.json();
    }
    if let Some(b) = wb {
        // the twin server of the leak clause (same keys, same clock)
        c["zone_b"] = zone_json(&b.zone0);
        c["zone_b_text"] = json!(zone_lines(&b.zone0));
    }
    c
}

type MkCase<'x> = &'x dyn Fn(&World, Option<&World>, &[u8], u64, &str) -> Value;

impl<'a> Checker<'a> {
    /// ONLY-IF and LEAK clauses on one request. `wb`: the twin server (zone differs exactly in
    /// what the base request's prerequisite names), `has_prereq`: the base request is an UPDATE
    /// with a prerequisite section.
    fn judge_request(&mut self, w: &mut World, mut wb: Option<&mut World>, m: &Mutant, genuine: &[u8], now: u64, has_prereq: bool, mk_case: MkCase) {
        let keys = w.env.keys.clone();
        let verdict = reftsig::judge_request(&m.bytes, &keys, now);
        let o = observe(w, &m.bytes, now);
        self.rep.eval();
        let base_class = m.class.split('@').next().unwrap_or("").to_string();
        self.rep.count(&format!("mutation/{base_class}"));
        if o.decoder_refused {
            self.rep.count("outcome/decoder-refused");
        } else if refwire::walk(&m.bytes).map(|x| x.sections[2].iter().any(|r| r.rtype == reftsig::T_TSIG)).unwrap_or(false) {
            self.rep.nontrivial(fnv64(&m.bytes) ^ now);
            let vtxt = format!("{:?}", verdict);
            let (zc, ax) = (o.zone_changed, o.axfr_data);
            self.rep.sample(|| json!({"mutation": m.class, "server_clock": now, "bytes": hex(&m.bytes), "reference_verdict": vtxt, "zone_changed": zc, "axfr_data": ax}));
        }
        if let Some(p) = &o.panic {
            self.rep.violation("panic", &format!("{}:{}", p.site(), base_class), mk_case(w, wb.as_deref(), &m.bytes, now, &m.class), json!("no panic"), json!({"message": p.message, "location": p.location}));
            return;
        }
        let effect = o.zone_changed || o.axfr_data;
        match &verdict {
            Verdict::Valid => {
                self.rep.count("reference/valid");
                if effect {
                    self.rep.count("outcome/valid-took-effect");
                } else {
                    self.rep.count("outcome/valid-no-effect");
                }
            }
            Verdict::Boundary => {
                self.rep.count("reference/boundary-dontcare");
            }
            Verdict::Invalid(why) => {
                self.rep.count("reference/invalid");
                // the exemption only covers invalidity that stems from the edit: at this server clock
                // the genuine request itself must be acceptable (otherwise the request is stale, and
                // taking effect is exactly what the statement forbids)
                // (evaluated lazily: two full decodes)
                let exempt = || same_parse(&m.bytes, genuine) && !matches!(reftsig::judge_request(genuine, &keys, now), Verdict::Invalid(_));
                if effect && exempt() {
                    // don't-care: the edit touches nothing hickory's message model carries (reserved
                    // header bit, bytes after the end of the message): what is signed and what is
                    // parsed are unchanged
                    self.rep.count(&format!("dontcare/same-parse/{}", m.class));
                } else if effect {
                    let symptom = if o.zone_changed { "zone-changed" } else { "data-leaked" };
                    self.rep.violation(
                        "only-if",
                        &format!("{}:{}", positional(&m.class), symptom),
                        mk_case(w, wb.as_deref(), &m.bytes, now, &m.class),
                        json!({"reference": format!("invalid: {why}"), "effect": "none"}),
                        json!({"zone_changed": o.zone_changed, "axfr_records_returned": o.axfr_data, "rcode": o.rcode.map(rcode_name)}),
                    );
                } else {
                    self.rep.count("outcome/invalid-rejected");
                }
                self.judge_leak(w, wb.as_deref_mut(), m, &o, now, has_prereq, &exempt, why, mk_case);
            }
        }
    }

    /// LEAK clause (non-interference) for a request the reference judged invalid
    fn judge_leak(&mut self, w: &mut World, wb: Option<&mut World>, m: &Mutant, o: &Obs, now: u64, has_prereq: bool, exempt: &dyn Fn() -> bool, why: &str, mk_case: MkCase) {
        if o.decoder_refused {
            // never reached a zone handler; the decoder has no access to the zone
            return;
        }
        let Ok(h) = refwire::read_header(&m.bytes) else { return };
        if h.opcode() == 0 {
            // an ordinary query (the edit rewrote the opcode): not protected by TSIG
            self.rep.count("leak/skipped-opcode-query");
            return;
        }
        let is_update = h.opcode() == 5 && !h.qr();
        if has_prereq && is_update {
            self.rep.count("leak/invalid_requests_with_prereq_judged");
        }
        self.rep.eval();
        // (a) direct: a prerequisite-evaluation result can only come from looking at zone data
        let direct = match o.rcode {
            Some(rc) if is_update && matches!(rc, NXDOMAIN | YXDOMAIN | YXRRSET | NXRRSET) => Some(rc),
            _ => None,
        };
        // (b) differential: same bytes, same clock, same keys, zone differs in what the prerequisite names
        if let Some(wb) = wb {
            let ob = observe_twin(wb, &m.bytes, now);
            self.rep.count("leak/differential_pairs");
            if let Some(p) = &ob.panic {
                self.rep.violation("panic", &format!("{}:{}", p.site(), m.class.split('@').next().unwrap_or("")), mk_case(w, Some(wb), &m.bytes, now, &m.class), json!("no panic"), json!({"message": p.message, "location": p.location, "server": "twin"}));
                return;
            }
            let twin_rcode = ob.rcode;
            let diff = if ob.zone_changed {
                Some(("zone-changed".to_string(), json!({"twin_zone_changed": true})))
            } else if ob.decoder_refused {
                Some(("reply-count".to_string(), json!({"twin": "decoder refused"})))
            } else {
                leak::first_difference(&o.replies, &ob.replies)
            };
            if diff.is_none() {
                self.rep.count("leak/responses-identical");
            }
            // witnesses carry the twin zone
            if direct.is_some() || diff.is_some() {
                if exempt() {
                    self.rep.count("leak/dontcare-same-parse");
                    return;
                }
                if let Some(rc) = direct {
                    self.leak_rcode(w, Some(wb), m, o, now, rc, why, mk_case);
                }
                if let Some((what, detail)) = diff {
                    self.rep.violation(
                        "leak",
                        &format!("differs:{}:{}", what, positional(&m.class)),
                        mk_case(w, Some(wb), &m.bytes, now, &m.class),
                        json!({"reference": format!("invalid: {why}"), "responses": "identical on both servers (TSIG MAC/time ignored)"}),
                        json!({"differs": what, "detail": detail, "rcode_a": o.rcode.map(rcode_name), "rcode_b": twin_rcode.map(rcode_name)}),
                    );
                }
            }
            return;
        }
        match direct {
            Some(_) if exempt() => self.rep.count("leak/dontcare-same-parse"),
            Some(rc) => self.leak_rcode(w, None, m, o, now, rc, why, mk_case),
            None => {}
        }
    }

    fn leak_rcode(&mut self, w: &World, wb: Option<&World>, m: &Mutant, o: &Obs, now: u64, rc: u8, why: &str, mk_case: MkCase) {
        self.rep.violation(
            "leak",
            &format!("rcode-{}:{}", rcode_name(rc), positional(&m.class)),
            mk_case(w, wb, &m.bytes, now, &m.class),
            json!({"reference": format!("invalid: {why}"), "rcode": "one that does not depend on zone content (REFUSED / NOTAUTH / FORMERR ...)"}),
            json!({"rcode": rcode_name(rc), "replies": o.replies.iter().map(|r| hex(r)).collect::<Vec<_>>()}),
        );
    }
}

// ---------------------------------------------------------------------------------------------
// genuine request + reply clause

#[derive(Clone, PartialEq)]
enum Flips {
    None,
    All,
    /// only the bits of one region of the reply (twin probes)
    Region(String),
}

struct Finding {
    rule: String,
    sig: String,
    /// region of the reply the flipped bit lies in (flip findings)
    region: Option<String>,
    case: Value,
    expected: Value,
    observed: Value,
}

#[derive(Default)]
struct Probe {
    findings: Vec<Finding>,
    counts: BTreeMap<String, u64>,
    evals: u64,
    /// rcode of the reply to the genuine request
    rcode: Option<u8>,
    inconclusive: Option<String>,
}

impl Probe {
    fn count(&mut self, name: &str) {
        *self.counts.entry(name.to_string()).or_insert(0) += 1;
    }
    fn find(&mut self, rule: &str, sig: String, case: Value, expected: Value, observed: Value) {
        self.findings.push(Finding { rule: rule.to_string(), sig, region: None, case, expected, observed });
    }
    fn find_at(&mut self, region: &str, rule: &str, sig: String, case: Value, expected: Value, observed: Value) {
        self.findings.push(Finding { rule: rule.to_string(), sig, region: Some(region.to_string()), case, expected, observed });
    }
}

/// what the reference models say the authentic request does
enum Expect {
    /// zone changes / zone data is transferred
    Effect,
    /// authentic UPDATE whose prerequisites do not hold: answered from the prerequisite section
    PrereqFails,
    /// prescan error or a no-op update: C12's business
    DontCare,
}

fn expectation(spec: &Spec, zone: &Zone) -> Expect {
    if !spec.is_update() {
        return Expect::Effect;
    }
    let outs: Vec<Outcome> = VARIANTS.iter().map(|v| process(zone, &spec.pre, &spec.upd, *v)).collect();
    if outs.iter().all(|o| o.stage == "ok" && o.changed) {
        Expect::Effect
    } else if outs.iter().all(|o| o.stage == "prereq") {
        Expect::PrereqFails
    } else {
        Expect::DontCare
    }
}

/// Send the authentic form of `unsigned` and run the reply clause; nothing is reported here.
fn reply_probe(w: &mut World, unsigned: &[u8], key_idx: usize, time: u64, now: u64, flips: &Flips) -> Probe {
    let mut p = Probe::default();
    let key = w.env.keys[key_idx].clone();
    let Ok(spec) = Spec::parse(unsigned) else {
        p.inconclusive = Some("unsigned request does not parse".into());
        return p;
    };
    let req_kind = spec.kind.clone();
    let Ok((signed, mut verifier)) = sign_base(unsigned, &key, time) else {
        p.inconclusive = Some("client signer failed".into());
        return p;
    };
    // hickory's client re-encodes the request from its model: the shape must survive that
    match reftsig::locate(&signed).map(|t| reftsig::strip(&signed, &t)).and_then(|b| Spec::parse(&b)) {
        Ok(s2) if (s2.kind == spec.kind, s2.id, s2.flags, &s2.opt, s2.pre.len(), s2.upd.len(), s2.auth.len()) == (true, spec.id, spec.flags, &spec.opt, spec.pre.len(), spec.upd.len(), spec.auth.len()) => {}
        other => {
            p.inconclusive = Some(format!("client signer changed the shape of the request: {:?}", other.map(|s| s.json())));
            return p;
        }
    }
    let o = observe(w, &signed, now);
    p.evals += 1;
    p.rcode = o.rcode;
    let off = now as i64 - time as i64;
    let mk = |w: &World, bytes: &[u8], class: &str, kind: &str| case_json(w, None, kind, &req_kind, unsigned, key_idx, time, bytes, now, class);
    if let Some(pn) = &o.panic {
        p.find("panic", format!("{}:genuine", pn.site()), mk(w, &signed, "genuine", "request"), json!("no panic"), json!({"message": pn.message, "location": pn.location}));
        return p;
    }
    let effect = o.zone_changed || o.axfr_data;
    let zbit = spec.flags & F_Z != 0;
    // policy probes (AXFR only; AxfrPolicy does not concern updates): signatures carry the policy
    let policy = if spec.is_update() { AxfrPolicy::AllowSigned } else { w.policy };
    let sig_kind = match policy {
        AxfrPolicy::AllowSigned => req_kind.clone(),
        _ => format!("{req_kind}@{}", w.policy_name()),
    };
    if policy == AxfrPolicy::Deny {
        // nobody is authorised to transfer: the correctly signed request gets no zone data either
        if effect {
            p.find("only-if", "policy-deny:data-leaked".to_string(), mk(w, &signed, "genuine", "request"), json!({"policy": "deny", "effect": "none"}), json!({"axfr_records_returned": o.axfr_data, "rcode": o.rcode.map(rcode_name)}));
        } else {
            p.count("policy/deny/signed-axfr-refused");
        }
        return p;
    }
    // the server turned the request away as unauthentic: REFUSED / NOTAUTH, or a TSIG error in the reply
    let reply_tsig_error = o.replies.first().and_then(|r| reftsig::locate(r).ok()).map(|t| t.error).unwrap_or(0);
    let refused = matches!(o.rcode, Some(REFUSED) | Some(NOTAUTH) | None) || reply_tsig_error != 0;
    match expectation(&spec, &w.zone0) {
        Expect::Effect => {
            if !effect && zbit {
                // reference-valid, refused by hickory (digest over the re-encoded header): don't-care
                p.count("dontcare/z-request-refused");
                return p;
            }
            if !effect {
                p.find("valid-refused", format!("{sig_kind}:offset{off:+}"), mk(w, &signed, "genuine", "request"), json!("request takes effect"), json!({"rcode": o.rcode.map(rcode_name)}));
                return p;
            }
            if policy == AxfrPolicy::AllowAll {
                p.count("policy/allow-all/signed-axfr-transferred");
            } else {
                p.count(&format!("accepted/{req_kind}"));
            }
        }
        Expect::PrereqFails => {
            if refused {
                if zbit {
                    p.count("dontcare/z-request-refused");
                    return p;
                }
                p.find("valid-refused", format!("{sig_kind}:offset{off:+}"), mk(w, &signed, "genuine", "request"), json!("authentic request: answered from the prerequisite section"), json!({"rcode": o.rcode.map(rcode_name)}));
                return p;
            }
            // rcode / no effect are C12's business
            p.count(if effect { "authentic/prereq-fails-by-reference-but-took-effect" } else { "authentic/prereq-failed-no-effect" });
        }
        Expect::DontCare => {
            if refused && !effect {
                p.count("dontcare/authentic-noop-or-prescan-refused");
                return p;
            }
            p.count("authentic/noop-or-prescan-error");
        }
    }
    let Some(reply) = o.replies.first().cloned() else {
        p.find("reply", format!("no-reply:{sig_kind}"), mk(w, &signed, "genuine", "request"), json!("one reply"), json!(0));
        return p;
    };
    let reply_opt = refwire::walk(&reply).ok().map(|m| (m.sections[2].iter().any(|r| r.rtype == reftsig::T_TSIG), m.sections[2].iter().find(|r| r.rtype == basegen::T_OPT).map(|r| r.rdata(&reply).to_vec())));
    if policy == AxfrPolicy::AllowAll && matches!(reply_opt, Some((false, _))) {
        // don't-care (outside the statement, which speaks of the signed-only policy): under
        // AllowAll the handler never looks at the TSIG and the transfer goes out unsigned
        p.count("dontcare/allow-all-reply-unsigned");
        return p;
    }
    // the request MAC, from the bytes
    let req_mac = reftsig::locate(&signed).map(|t| t.mac).unwrap_or_default();
    let ref_reply = |r: &[u8]| -> Verdict {
        match reftsig::locate(r) {
            Ok(t) => reftsig::judge_located(r, &t, &[key.clone()], time, Some(&req_mac)),
            Err(e) => Verdict::Invalid(e),
        }
    };
    let rv = ref_reply(&reply);
    match mon::catch(|| verifier.verify(&reply)) {
        Ok(Ok(_)) => {
            p.count("reply/verified");
            for c in spec.classes() {
                p.count(&format!("reply/verified/{c}"));
            }
            p.count(&format!("reply/verified/rcode-{}", o.rcode.map(rcode_name).unwrap_or("none")));
            if policy == AxfrPolicy::AllowSigned {
                // EDNS shape of the request whose reply verified, per request kind
                for c in spec.edns_classes() {
                    p.count(&format!("edns/verified/{req_kind}/{c}"));
                }
                let asked_nsid = spec.opt.as_ref().map(|o| o.options.iter().any(|(c, _)| *c == 3)).unwrap_or(false);
                if asked_nsid {
                    // does the verified reply carry the server's NSID (option code 3 first in its OPT: the only option hickory's server ever adds)
                    let answered = matches!(&reply_opt, Some((_, Some(rd))) if rd.len() >= 4 && rd[0] == 0 && rd[1] == 3);
                    p.count(&format!("edns/verified/{req_kind}/nsid-asked/{}", match (w.nsid.is_some(), answered) {
                        (true, true) => "server-nsid-in-reply",
                        (true, false) => "server-nsid-configured-not-in-reply",
                        (false, true) => "nsid-in-reply-without-configuration",
                        (false, false) => "server-without-nsid",
                    }));
                }
            } else {
                p.count(&format!("policy/{}/signed-reply-verified", w.policy_name()));
            }
        }
        Ok(Err(e)) => {
            p.find("reply", format!("reply-not-verifiable:{sig_kind}:offset{off:+}"), mk(w, &signed, "genuine", "request"), json!({"client_verifier": "Ok", "reftsig_on_reply": format!("{rv:?}")}), json!({"error": e, "reply": hex(&reply)}));
            return p;
        }
        Err(pn) => {
            p.find("panic", format!("{}:verify-genuine-reply", pn.site()), mk(w, &signed, "genuine", "request"), json!("no panic"), json!({"message": pn.message, "location": pn.location}));
            return p;
        }
    }
    if !matches!(rv, Verdict::Valid | Verdict::Boundary) {
        // hickory's own verifier accepted what the reference rejects: the server signed something
        // else than RFC 8945 response form
        p.find("reply", format!("reply-not-rfc-form:{sig_kind}"), mk(w, &signed, "genuine", "request"), json!("reftsig accepts the genuine reply"), json!({"reftsig": format!("{rv:?}"), "reply": hex(&reply)}));
        return p;
    }
    if *flips == Flips::None {
        return p;
    }
    let regs = reftsig::regions(&reply);
    for pos in 0..reply.len() {
        let region = reftsig::region_of(&regs, pos);
        if let Flips::Region(only) = flips {
            if *only != region {
                continue;
            }
        }
        for bit in 0..8 {
            let mut r = reply.clone();
            r[pos] ^= 1 << bit;
            let v = ref_reply(&r);
            p.evals += 1;
            p.count("reply/flips");
            if matches!(v, Verdict::Invalid(_)) {
                // fresh verifier (it is stateful)
                let Ok((_, mut ver)) = sign_base(unsigned, &key, time) else { continue };
                match mon::catch(|| ver.verify(&r).is_ok()) {
                    Ok(false) => p.count("reply/forged-rejected"),
                    Ok(true) if same_parse(&r, &reply) => p.count(&format!("dontcare/same-parse/reply-bitflip@{region}")),
                    Ok(true) => {
                        let mut c = mk(w, &signed, &format!("reply-bitflip@{region}"), "reply");
                        c["reply"] = json!(hex(&r));
                        p.find_at(&region, "reply", format!("forged-reply-accepted:byte-edit@{region}"), c, json!({"reftsig": format!("{v:?}")}), json!("TSigVerifier::verify returned Ok"));
                    }
                    Err(pn) => {
                        let mut c = mk(w, &signed, &format!("reply-bitflip@{region}"), "reply");
                        c["reply"] = json!(hex(&r));
                        // one panic site is reached from flips in many regions (any edit that re-frames
                        // the records): the discriminator is the panic itself, not where the bit was
                        p.find_at(&region, "panic", format!("{}:verify-flipped-reply:{}", pn.site(), slug(&pn.message)), c, json!("no panic"), json!({"message": pn.message, "location": pn.location}));
                    }
                }
            } else {
                p.count("reply/flip-still-valid-per-reference");
            }
        }
    }
    p
}

fn slug(msg: &str) -> String {
    let s: String = msg.chars().take(48).map(|c| if c.is_ascii_alphanumeric() || c == '_' || c == '.' { c } else { '-' }).collect();
    s.trim_matches('-').to_string()
}

/// (rule, sig, feature set) -> responsible feature(s)
type BlameCache = BTreeMap<(String, String, String), String>;

/// Smallest request feature that reproduces the alarm (rule, sig): none (the default-shaped twin
/// raises it too), one single feature, or the whole combination.
fn blame(cache: &mut BlameCache, w: &mut World, spec: &Spec, key_idx: usize, time: u64, now: u64, rule: &str, sig: &str, region: Option<&str>) -> String {
    let mut feats = spec.features();
    // the server-side NSID configuration counts as a feature of the situation (it only shows
    // together with an NSID option in the request)
    let nsid0 = w.nsid.clone();
    if nsid0.is_some() {
        feats.push("srv-nsid");
    }
    if feats.is_empty() {
        return String::new();
    }
    let ck = (rule.to_string(), sig.to_string(), feats.join("+"));
    if let Some(b) = cache.get(&ck) {
        return b.clone();
    }
    let flips = match region {
        Some(r) => Flips::Region(r.to_string()),
        None => Flips::None,
    };
    let mut raised = |keep: &[&str]| -> bool {
        let twin = spec.only(keep).wire();
        w.set_nsid(if keep.contains(&"srv-nsid") { nsid0.clone() } else { None });
        reply_probe(w, &twin, key_idx, time, now, &flips).findings.iter().any(|f| f.rule == rule && f.sig == sig)
    };
    let b = if raised(&[]) {
        String::new()
    } else if let Some(f) = feats.iter().find(|f| raised(&[**f])) {
        f.to_string()
    } else {
        // pairs (e.g. an NSID request + an NSID-configured server), then the whole combination
        let mut pair = None;
        'outer: for i in 0..feats.len() {
            for j in i + 1..feats.len() {
                if raised(&[feats[i], feats[j]]) {
                    pair = Some(format!("{}+{}", feats[i], feats[j]));
                    break 'outer;
                }
            }
        }
        pair.unwrap_or_else(|| feats.join("+"))
    };
    w.set_nsid(nsid0);
    cache.insert(ck, b.clone());
    b
}

/// EDNS version other than 0 (separate case, outside the clauses): RFC 6891 6.1.3 has the server
/// answer BADVERS, and hickory's catalog does so before any zone handler (hence before the TSIG)
/// is looked at. Nothing is demanded of the outcome; only (a) no panic, (b) IF the reply carries a
/// TSIG it must verify at the client. Outcomes are counted under `edns-version/*`.
fn badvers_probe(rep: &mut Reporter, w: &mut World, unsigned: &[u8], key_idx: usize, time: u64) {
    let key = w.env.keys[key_idx].clone();
    let Ok(spec) = Spec::parse(unsigned) else { return };
    let Ok((signed, mut verifier)) = sign_base(unsigned, &key, time) else { return };
    let o = observe(w, &signed, time);
    rep.eval();
    rep.count("edns-version/probes");
    let mk = |w: &World, class: &str| case_json(w, None, "badvers", &spec.kind, unsigned, key_idx, time, &signed, time, class);
    if let Some(pn) = &o.panic {
        rep.violation("panic", &format!("{}:genuine-edns-version", pn.site()), mk(w, "genuine-edns-version"), json!("no panic"), json!({"message": pn.message, "location": pn.location}));
        return;
    }
    rep.count(if o.zone_changed || o.axfr_data { "edns-version/took-effect" } else { "edns-version/no-effect" });
    let Some(reply) = o.replies.first() else {
        rep.count("edns-version/no-reply");
        return;
    };
    // extended rcode: upper 8 bits in the OPT TTL of the reply
    let ext = refwire::walk(reply).ok().and_then(|m| m.sections[2].iter().find(|r| r.rtype == basegen::T_OPT).map(|r| (r.ttl >> 24) as u16)).unwrap_or(0);
    let rcode = (ext << 4) | o.rcode.unwrap_or(0) as u16;
    rep.count(&format!("edns-version/rcode-{}", if rcode == 16 { "BADVERS".to_string() } else { rcode.to_string() }));
    let signed_reply = refwire::walk(reply).map(|m| m.sections[2].iter().any(|r| r.rtype == reftsig::T_TSIG)).unwrap_or(false);
    if !signed_reply {
        rep.count("edns-version/reply-unsigned");
        return;
    }
    match mon::catch(|| verifier.verify(reply)) {
        Ok(Ok(_)) => rep.count("edns-version/signed-reply-verified"),
        Ok(Err(e)) => rep.violation("reply", &format!("reply-not-verifiable:{}:edns-version", spec.kind), mk(w, "genuine-edns-version"), json!({"client_verifier": "Ok"}), json!({"error": e, "reply": hex(reply)})),
        Err(pn) => rep.violation("panic", &format!("{}:verify-genuine-reply", pn.site()), mk(w, "genuine-edns-version"), json!("no panic"), json!({"message": pn.message, "location": pn.location})),
    }
}

/// reply clause for the genuine request; returns the rcode of the reply
fn check_reply(rep: &mut Reporter, cache: &mut BlameCache, w: &mut World, unsigned: &[u8], key_idx: usize, time: u64, now: u64, flips: bool) -> Option<u8> {
    let p = reply_probe(w, unsigned, key_idx, time, now, &if flips { Flips::All } else { Flips::None });
    rep.evals(p.evals);
    for (k, n) in &p.counts {
        rep.add(k, *n);
    }
    if let Some(r) = &p.inconclusive {
        rep.inconclusive(r);
    }
    let spec = Spec::parse(unsigned).ok();
    for f in p.findings {
        let b = match &spec {
            Some(s) => blame(cache, w, s, key_idx, time, now, &f.rule, &f.sig, f.region.as_deref()),
            None => String::new(),
        };
        let sig = if b.is_empty() { f.sig.clone() } else { format!("{}:req={}", f.sig, b) };
        rep.violation(&f.rule, &sig, f.case, f.expected, f.observed);
    }
    p.rcode
}

/// part G3: the client-side transports built with a signer, against the real server path
fn check_client(rep: &mut Reporter, w: &mut World, req_kind: &str, unsigned: &[u8], key_idx: usize, time: u64, bits: &[u32], transports: &[&str]) {
    for t in transports {
        let run = match *t {
            "udp" => client::run_udp(w, unsigned, key_idx, time, bits),
            _ => client::run_mux(w, unsigned, key_idx, time, bits),
        };
        // accepted updates changed the zone: back to the initial state for whatever follows
        if snapshot(&w.rt, &w.h) != w.base {
            let _ = w.reset();
        }
        rep.evals(run.evals);
        for (k, n) in &run.counts {
            rep.add(k, *n);
        }
        let mk = |what: &str, detail: Value| {
            let mut c = case_json(w, None, "client", req_kind, unsigned, key_idx, time, &[], time, what);
            c["transport"] = json!(t);
            c["flip_bits"] = json!(bits);
            c["detail"] = detail;
            c
        };
        if let Some(p) = &run.panic {
            rep.violation("panic", &format!("{}:client-{t}:{}", p.site(), slug(&p.message)), mk("client", json!(null)), json!("no panic"), json!({"message": p.message, "location": p.location}));
        }
        for v in run.viols {
            let what = v.sig.clone();
            rep.violation(&v.rule, &v.sig, mk(&what, v.detail), v.expected, v.observed);
        }
    }
}

fn gen_keys(rng: &mut Rng) -> Vec<Key> {
    let n = rng.urange(1, 3);
    let algs = [Alg::Sha256, Alg::Sha384, Alg::Sha512];
    (0..n)
        .map(|i| {
            let len = rng.urange(16, 48);
            Key { name: lbl(["k.", "key2.z.", "Third-Key."][i]), alg: *rng.pick(&algs), secret: rng.bytes(len) }
        })
        .collect()
}

fn main() {
    let ctx = Ctx::from_args("C13");
    mon::install_panic_monitor();
    let mut rep = Reporter::new(&ctx);
    let tag = if ctx.replay.is_some() { "replay".to_string() } else { format!("s{}", ctx.shard) };
    let root = scratch_root("c13");
    let dir = root.join(&tag);
    let dir_b = root.join(format!("{tag}-twin"));
    let mut cache = BlameCache::new();

    if let Some(case) = ctx.replay_case() {
        let c = &case["case"];
        let zone0 = zone_from_json(&c["zone"]);
        let keys: Vec<Key> = c["keys"]
            .as_array()
            .map(|a| a.iter().map(|k| Key { name: lbl(k["name"].as_str().unwrap_or("k.")), alg: match k["alg"].as_str().unwrap_or("") { "hmac-sha384" => Alg::Sha384, "hmac-sha512" => Alg::Sha512, _ => Alg::Sha256 }, secret: unhex(k["secret"].as_str().unwrap_or("")) }).collect())
            .unwrap_or_default();
        let mut w = World::new(dir.clone(), keys.clone(), zone0).expect("world");
        // server configuration of the witness (older witnesses: signed-only policy, no NSID)
        let nsid = c["server_nsid"].as_str().map(unhex);
        w.nsid = nsid.clone();
        w.set_policy(policy_of(c["axfr_policy"].as_str().unwrap_or(""))).expect("world");
        // the twin server of the leak clause, when the witness carries one
        let mut wb = if c["zone_b"].is_object() { Some(World::new(dir_b.clone(), keys, zone_from_json(&c["zone_b"])).expect("twin world")) } else { None };
        if let Some(b) = wb.as_mut() {
            b.set_nsid(nsid);
        }
        let unsigned = unhex(c["unsigned_request"].as_str().unwrap_or(""));
        let key_idx = c["signing_key"].as_u64().unwrap_or(0) as usize;
        let time = c["signed_at"].as_u64().unwrap_or(T0);
        let now = c["server_clock"].as_u64().unwrap_or(T0);
        let req_kind = c["request"].as_str().unwrap_or("update").to_string();
        let class = c["mutation"].as_str().unwrap_or("").to_string();
        if c["kind"] == "client" {
            let bits: Vec<u32> = c["flip_bits"].as_array().map(|a| a.iter().map(|x| x.as_u64().unwrap_or(0) as u32).collect()).unwrap_or_default();
            let t = c["transport"].as_str().unwrap_or("mux").to_string();
            check_client(&mut rep, &mut w, &req_kind, &unsigned, key_idx, time, &bits, &[t.as_str()]);
        } else if c["kind"] == "badvers" {
            badvers_probe(&mut rep, &mut w, &unsigned, key_idx, time);
        } else if c["kind"] == "reply" || class == "genuine" {
            check_reply(&mut rep, &mut cache, &mut w, &unsigned, key_idx, time, now, true);
        } else {
            let bytes = unhex(c["bytes"].as_str().unwrap_or(""));
            let mut ck = Checker { rep: &mut rep };
            let u2 = unsigned.clone();
            let rk = req_kind.clone();
            let has_prereq = Spec::parse(&unsigned).map(|s| s.is_update() && !s.pre.is_empty()).unwrap_or(false);
            let genuine = sign_base(&unsigned, &w.env.keys[key_idx].clone(), time).map(|x| x.0).unwrap_or_default();
            ck.judge_request(&mut w, wb.as_mut(), &Mutant { class, bytes }, &genuine, now, has_prereq, &move |w, wb, b, now, class| case_json(w, wb, "request", &rk, &u2, key_idx, time, b, now, class));
        }
        w.env.cleanup();
        if let Some(b) = &wb {
            b.env.cleanup();
        }
        let _ = std::fs::remove_dir_all(&root);
        rep.replay_finish();
    }

    rep.must("accepted/update", 100);
    rep.must("accepted/axfr", 100);
    rep.must("reply/verified", 200);
    rep.must("reply/forged-rejected", 50000);
    rep.must("outcome/invalid-rejected", 100000);
    for c in ["bitflip", "byteset", "count-edit", "tsig-key-name:unknown", "tsig-algorithm:other-supported", "tsig-time", "tsig-fudge", "tsig-mac:truncated-half", "tsig-mac:extended", "tsig-original-id", "tsig-error", "tsig-other-data", "record-after-tsig", "two-tsigs", "tsig-not-last", "opt-after-tsig", "trailing-bytes", "key:same-name-other-secret", "key:other-name-same-secret", "key:algorithm-field-only", "unsigned", "clock-offset"] {
        rep.must(&format!("mutation/{c}"), 50);
    }
    // base-request shapes (per header-flag class, EDNS, prerequisite form x polarity) ...
    for c in ["rd", "cd", "ad", "tc"] {
        rep.must(&format!("base/flag/{c}"), 150);
        // ... and the reply clause reached for each of them
        rep.must(&format!("reply/verified/{c}"), 400);
    }
    // EDNS shapes of genuine signed requests whose reply verified at the client, per request
    // kind (quick tier: >= 3800 each); base requests that carry options / Z bits / a small
    // payload themselves (quick tier: axfr >= 100 each)
    for k in ["axfr", "update"] {
        for c in basegen::EDNS_CLASSES {
            rep.must(&format!("edns/verified/{k}/{c}"), 600);
        }
        rep.must(&format!("edns/verified/{k}/nsid-asked/server-nsid-in-reply"), 600);
        rep.must(&format!("edns/verified/{k}/nsid-asked/server-without-nsid"), 600);
        rep.must(&format!("base/edns/{k}/opt-with-options"), 100);
        rep.must(&format!("base/edns/{k}/opt-options-several"), 40);
        rep.must(&format!("base/edns/{k}/opt-z"), 15);
        rep.must(&format!("base/edns/{k}/opt-payload-lt512"), 25);
    }
    rep.must("policy/allow-all/signed-axfr-transferred", 600);
    rep.must("policy/deny/signed-axfr-refused", 600);
    rep.must("edns-version/probes", 400);
    rep.must("base/flag/with-opt", 300);
    rep.must("reply/verified/with-opt", 800);
    rep.must("base/flag/with-opt-do", 100);
    rep.must("base/flag/plain", 80);
    rep.must("base/flag/z", 30);
    rep.must("base/axfr/ixfr-style-authority", 150);
    rep.must("base/prereq-rrs/2", 80);
    rep.must("base/update-rrs/3", 80);
    for f in basegen::FORMS {
        for pol in ["satisfied", "unsatisfied"] {
            rep.must(&format!("base/prereq/{f}/{pol}"), 25);
        }
    }
    // signed error replies (prerequisite failures of authentic requests) verified at the client
    for rc in ["NXDOMAIN", "YXDOMAIN", "YXRRSET", "NXRRSET"] {
        rep.must(&format!("reply/verified/rcode-{rc}"), 60);
    }
    // client-side transports (part G3)
    for t in ["mux", "udp"] {
        rep.must(&format!("client/{t}/scenarios"), 500);
        rep.must(&format!("client/{t}/genuine-completed"), 800);
        rep.must(&format!("client/{t}/delivered/byte-edit"), 2500);
        for k in ["unsigned", "other-secret", "other-key-name", "other-request-mac", "no-request-mac", "stale-time", "empty-mac"] {
            rep.must(&format!("client/{t}/delivered/{k}"), 500);
        }
        rep.must(&format!("client/{t}/outcome/err"), 5000);
    }
    // leak clause
    rep.must("leak/invalid_requests_with_prereq_judged", 300_000);
    rep.must("leak/differential_pairs", 300_000);
    rep.must("leak/pairs-distinguished-by-valid-request", 250);

    let mut rng = ctx.rng("base");
    let n_base = ctx.budget(320, 6000);
    for i in 0..n_base {
        let mut r = rng.fork();
        let keys = gen_keys(&mut r);
        let mut zone0 = gen_zone(&mut r);
        zone0.sets.remove(&(apex(), T_SOA));
        zone0.insert(&apex(), T_SOA, rd_soa("ns1.z.", "h.z.", r.range(1, 100_000) as u32, 3600, 600, 86400, 300), 300);
        let req_kind = if (i + ctx.shard) % 2 == 0 { "update" } else { "axfr" };
        let key_idx = r.usize_below(keys.len());
        let key = keys[key_idx].clone();
        let time = T0 + r.range(0, 1_000_000);
        // shape of the base request (own stream: the zone/key/time draws above stay as they were)
        let mut rs = r.fork();
        let base = basegen::gen_base(&mut rs, req_kind, &zone0, i * 16 + ctx.shard, i / 2 + ctx.shard * 3);
        let spec = &base.spec;
        let unsigned = spec.wire();
        let mut w = match World::new(dir.clone(), keys.clone(), zone0) {
            Ok(w) => w,
            Err(e) => {
                rep.inconclusive(&format!("world: {e}"));
                continue;
            }
        };
        let mut wb = match &base.zone_b {
            Some(zb) => match World::new(dir_b.clone(), keys.clone(), zb.clone()) {
                Ok(w) => Some(w),
                Err(e) => {
                    rep.inconclusive(&format!("twin world: {e}"));
                    None
                }
            },
            None => None,
        };
        // server side: every second server answers NSID requests (same configuration on the twin)
        let nsid = if rs.bool() { Some(rs.bytes_between(1, 16)) } else { None };
        rep.count(if nsid.is_some() { "base/server-nsid/configured" } else { "base/server-nsid/none" });
        w.set_nsid(nsid.clone());
        if let Some(b) = wb.as_mut() {
            b.set_nsid(nsid.clone());
        }
        rep.count("base_requests");
        rep.count(&format!("base/{req_kind}"));
        for c in spec.classes() {
            rep.count(&format!("base/flag/{c}"));
        }
        // EDNS shape of the base request itself (these go through every clause, mutants included)
        for c in spec.edns_classes() {
            rep.count(&format!("base/edns/{req_kind}/{c}"));
        }
        if spec.is_update() {
            rep.count(&format!("base/prereq-rrs/{}", spec.pre.len()));
            rep.count(&format!("base/update-rrs/{}", spec.upd.len()));
            for (p, toggled) in &base.prereqs {
                rep.count(&format!("base/{}/{}/{}", if *toggled { "prereq" } else { "prereq-extra" }, p.form, if p.satisfied { "satisfied" } else { "unsatisfied" }));
            }
            rep.count(if prerequisites(&w.zone0, &spec.pre).is_empty() { "base/prereq-section/holds" } else { "base/prereq-section/fails" });
        } else {
            rep.count(if spec.auth.is_empty() { "base/axfr/no-authority" } else { "base/axfr/ixfr-style-authority" });
        }
        let has_prereq = spec.is_update() && !spec.pre.is_empty();

        // genuine request + reply clause (with all reply flips) at offset 0 and +-(fudge-1)
        let rc_a = check_reply(&mut rep, &mut cache, &mut w, &unsigned, key_idx, time, time, true);
        check_reply(&mut rep, &mut cache, &mut w, &unsigned, key_idx, time, time + FUDGE - 1, false);
        check_reply(&mut rep, &mut cache, &mut w, &unsigned, key_idx, time, time - (FUDGE - 1), false);

        // EDNS sweep: the same signed request with every EDNS shape class (reply clause, no flips);
        // a shape that asks for the NSID goes to the server with and without an NSID configured
        // (without the reserved header bit: hickory refuses such requests, see don't-cares)
        let sweep_base = Spec { flags: spec.flags & !F_Z, ..spec.clone() };
        for o in basegen::edns_sweep(&mut rs) {
            let asks_nsid = o.as_ref().map(|o| o.options.iter().any(|(c, _)| *c == 3)).unwrap_or(false);
            let u = sweep_base.with_opt(o).wire();
            rep.count("edns-sweep/probes");
            check_reply(&mut rep, &mut cache, &mut w, &u, key_idx, time, time, false);
            if asks_nsid {
                w.set_nsid(if nsid.is_some() { None } else { Some(rs.bytes_between(1, 16)) });
                rep.count("edns-sweep/probes");
                check_reply(&mut rep, &mut cache, &mut w, &u, key_idx, time, time, false);
                w.set_nsid(nsid.clone());
            }
        }
        // the other transfer policies: the signed AXFR (as generated, without OPT, with options)
        if !spec.is_update() {
            let with_options = basegen::Opt { options: vec![basegen::gen_option(&mut rs, "cookie"), basegen::gen_option(&mut rs, "nsid")], ..basegen::Opt::plain(1232, rs.bool()) };
            for pol in [AxfrPolicy::AllowAll, AxfrPolicy::Deny] {
                if let Err(e) = w.set_policy(pol) {
                    rep.inconclusive(&format!("world: {e}"));
                    continue;
                }
                for u in [sweep_base.wire(), sweep_base.with_opt(None).wire(), sweep_base.with_opt(Some(with_options.clone())).wire()] {
                    rep.count(&format!("policy/{}/probes", w.policy_name()));
                    check_reply(&mut rep, &mut cache, &mut w, &u, key_idx, time, time, false);
                }
            }
            if let Err(e) = w.set_policy(AxfrPolicy::AllowSigned) {
                rep.inconclusive(&format!("world: {e}"));
                continue;
            }
        }
        // EDNS version != 0: separate case (BADVERS path), see `badvers_probe`
        {
            let v = *rs.pick(&[1u8, 2, 255]);
            let o = basegen::Opt { version: v, options: if rs.bool() { vec![basegen::gen_option(&mut rs, "cookie")] } else { vec![] }, ..basegen::Opt::plain(1232, rs.bool()) };
            badvers_probe(&mut rep, &mut w, &sweep_base.with_opt(Some(o)).wire(), key_idx, time);
        }

        // client-side transports with a signer (multiplexer with everything in flight, UDP)
        let bits: Vec<u32> = (0..4).map(|_| rs.next_u32()).collect();
        check_client(&mut rep, &mut w, req_kind, &unsigned, key_idx, time, &bits, &["mux", "udp"]);

        let Ok((signed, _)) = sign_base(&unsigned, &key, time) else { continue };
        // the differential of the leak clause is only meaningful if the AUTHENTIC request tells the
        // two servers apart
        if let Some(b) = wb.as_mut() {
            let ob = observe(b, &signed, time);
            rep.eval();
            if let Some(p) = &ob.panic {
                rep.violation("panic", &format!("{}:genuine", p.site()), case_json(&w, Some(b), "request", req_kind, &unsigned, key_idx, time, &signed, time, "genuine@twin"), json!("no panic"), json!({"message": p.message, "location": p.location}));
            }
            if rc_a.is_some() && ob.rcode.is_some() && rc_a != ob.rcode {
                rep.count("leak/pairs-distinguished-by-valid-request");
            } else if spec.flags & F_Z != 0 {
                rep.count("leak/pairs-not-distinguished/z-request-refused");
            } else {
                rep.count("leak/pairs-not-distinguished");
                let (a, b2) = (rc_a.map(rcode_name), ob.rcode.map(rcode_name));
                let cj = case_json(&w, Some(b), "request", req_kind, &unsigned, key_idx, time, &signed, time, "genuine@twin");
                rep.note(&format!("pair-not-distinguished-{i}"), json!({"rcode_a": a, "rcode_b": b2, "case": cj}));
            }
        }
        let u2 = unsigned.clone();
        let mk = move |w: &World, wb: Option<&World>, b: &[u8], now: u64, class: &str| case_json(w, wb, "request", req_kind, &u2, key_idx, time, b, now, class);
        let mut ck = Checker { rep: &mut rep };
        // clock offsets on the genuine request and on one flipped-MAC variant
        for off in [0i64, 299, -299, 300, -300, 301, -301, 600, -600, 1 << 32, -(1 << 31)] {
            let now = (time as i64 + off).max(0) as u64;
            ck.judge_request(&mut w, wb.as_mut(), &Mutant { class: format!("clock-offset@{off:+}"), bytes: signed.clone() }, &signed, now, has_prereq, &mk);
        }
        // all mutation classes at the signing time
        let ms = mutants(&mut r, &signed, &keys, &key, time, &unsigned, ctx.is_thorough());
        for m in &ms {
            ck.judge_request(&mut w, wb.as_mut(), m, &signed, time, has_prereq, &mk);
        }
        // a sample of mutants at a stale clock: must stay ineffective
        for _ in 0..24 {
            let m = r.pick(&ms).clone();
            ck.judge_request(&mut w, wb.as_mut(), &m, &signed, time + 2 * FUDGE, has_prereq, &mk);
        }
        w.env.cleanup();
        if let Some(b) = &wb {
            b.env.cleanup();
        }
    }
    let _ = std::fs::remove_dir_all(&root);
    std::process::exit(rep.finish().min(0));
}
