//! W6/W7: the generated zones spread over several files joined by `$INCLUDE <file-name>` (RFC 1035
//! section 5.1), on a real directory tree that the harness creates for the case and removes again.
//!
//! The split is made where its meaning is beyond doubt, so that "the records the files denote" is
//! the denoted set of the unsplit text:
//!  * an included file is a run of whole plan items (a parenthesised record is never cut) that
//!    contains no `$ORIGIN` / `$TTL` line (RFC 1035: changes of the origin made inside an included
//!    file do not reach the parent; what a `$TTL` inside one does is not specified - neither is
//!    generated), relative names in it are relative to the including file's current origin (the
//!    `$INCLUDE` line carries no domain name);
//!  * nothing is inherited across a file boundary: the first record of every included file and the
//!    first record after every `$INCLUDE` line state their owner, every record from the first cut
//!    on states its class, and its TTL unless a `$TTL` directive precedes the first cut (whether
//!    "the last stated owner/TTL/class" crosses a file boundary is not specified by the RFC);
//!  * the `$INCLUDE` line is `$INCLUDE <path>[ ; comment]` + line terminator, the path absolute or
//!    relative to the directory of the file the line stands in (hickory's documented resolution).

use std::path::{Path, PathBuf};

use vh::prng::Rng;

use crate::printer::{Item, NameForm, OwnerForm, Plan, Printed};

/// the place holder that stands for the case's root directory inside file contents (absolute
/// include paths); replaced when the tree is written, so that a witness replays anywhere
pub const ROOT: &str = "{ROOT}";

#[derive(Clone, Debug)]
pub struct Cut {
    /// the outer included run of plan items
    pub a: usize,
    pub b: usize,
    /// a run inside it that goes to a second-level file
    pub inner: Option<(usize, usize)>,
}

#[derive(Clone, Debug)]
pub struct Tree {
    /// (path relative to the root directory, content with `{ROOT}` place holders); the first one
    /// is the file handed to the parser
    pub files: Vec<(String, String)>,
    pub shape: String,
}

fn is_directive(i: &Item) -> bool {
    matches!(i, Item::Origin(..) | Item::Ttl(..))
}

fn run_from(rng: &mut Rng, items: &[Item], lo: usize, hi: usize) -> Option<(usize, usize)> {
    // a non-empty run [a, b) inside [lo, hi) without directives
    let cands: Vec<usize> = (lo..hi).filter(|&i| !is_directive(&items[i])).collect();
    if cands.is_empty() {
        return None;
    }
    let a = *rng.pick(&cands);
    let mut b = a + 1;
    let want = rng.urange(1, 6);
    while b < hi && b - a < want && !is_directive(&items[b]) {
        b += 1;
    }
    Some((a, b))
}

pub fn choose_cut(rng: &mut Rng, items: &[Item]) -> Option<Cut> {
    let (a, b) = run_from(rng, items, 0, items.len())?;
    let inner = if b - a >= 2 && rng.chance(1, 2) { run_from(rng, items, a, b) } else { None };
    Some(Cut { a, b, inner })
}

/// adjust the layout wishes so that nothing is inherited across a file boundary (module doc)
pub fn harden_plan(plan: &mut Plan, cut: &Cut) {
    let ttl_before = plan.items[..cut.a].iter().any(|i| matches!(i, Item::Ttl(..)));
    let mut bounds = vec![cut.a, cut.b];
    if let Some((c, d)) = cut.inner {
        bounds.push(c);
        bounds.push(d);
    }
    for &p in &bounds {
        if let Some(Item::Rec(_, w)) = plan.items[p..].iter_mut().find(|i| matches!(i, Item::Rec(..))) {
            if w.owner == OwnerForm::Blank {
                w.owner = OwnerForm::Name(NameForm::Abs);
            }
        }
    }
    for it in plan.items[cut.a..].iter_mut() {
        if let Item::Rec(_, w) = it {
            w.omit_class = false;
            if !ttl_before {
                w.omit_ttl = false;
            }
        }
    }
}

fn include_line(rng: &mut Rng, abs: bool, rel_from_here: &str, rel_from_root: &str, shape: &mut String) -> String {
    let mut l = String::from("$INCLUDE");
    l.push_str(*rng.pick(&[" ", "\t", "  "]));
    if abs {
        l.push_str(ROOT);
        l.push('/');
        l.push_str(rel_from_root);
        shape.push_str("abs");
    } else {
        l.push_str(rel_from_here);
        shape.push_str("rel");
    }
    if rng.chance(1, 3) {
        l.push_str(*rng.pick(&[" ; the rest of the zone", "\t;", " ;$INCLUDE nothing"]));
        shape.push_str("+comment");
    }
    l
}

fn join(lines: &[String], nl: &str, final_newline: bool) -> String {
    let mut t = lines.join(nl);
    if final_newline && !lines.is_empty() {
        t.push_str(nl);
    }
    t
}

/// lay the printed items out over two or three files
pub fn build(rng: &mut Rng, printed: &Printed, cut: &Cut, main_final_newline: bool) -> Tree {
    let l = &printed.item_lines;
    let nl = printed.nl;
    let mut shape = String::new();
    let d1 = *rng.pick(&["", "inc/", "a/b/"]);
    let f1 = format!("{d1}part1.zone");
    let mut main: Vec<String> = l[..cut.a].to_vec();
    let abs1 = rng.chance(1, 3);
    main.push(include_line(rng, abs1, &f1, &f1, &mut shape));
    main.extend_from_slice(&l[cut.b..]);
    let mut files = Vec::new();
    // the line terminator after a trailing `$INCLUDE` line is part of the entry (RFC 1035 5.1:
    // entries are line oriented); a missing final newline is kept for record lines only
    let main_nl = main_final_newline || cut.b == l.len();
    files.push(("main.zone".to_string(), join(&main, nl, main_nl)));
    match cut.inner {
        None => {
            let fin = rng.chance(3, 4);
            if !fin {
                shape.push_str("+no-final-nl");
            }
            files.push((f1, join(&l[cut.a..cut.b], nl, fin)));
        }
        Some((c, d)) => {
            shape.push_str("/nested-");
            // `../up/` only below a first-level directory, so that the tree never leaves the root
            let d2 = if d1.is_empty() { *rng.pick(&["", "sub/"]) } else { *rng.pick(&["", "sub/", "../up/"]) };
            // relative to the directory of part1.zone
            let rel2 = format!("{d2}part2.zone");
            let from_root = normalise(&format!("{d1}{rel2}"));
            let mut p1: Vec<String> = l[cut.a..c].to_vec();
            let abs2 = rng.chance(1, 3);
            p1.push(include_line(rng, abs2, &rel2, &from_root, &mut shape));
            p1.extend_from_slice(&l[d..cut.b]);
            let fin1 = d == cut.b || rng.chance(3, 4);
            files.push((f1, join(&p1, nl, fin1)));
            let fin2 = rng.chance(3, 4);
            if !fin2 {
                shape.push_str("+no-final-nl");
            }
            files.push((from_root, join(&l[c..d], nl, fin2)));
        }
    }
    Tree { files, shape }
}

/// resolve `x/../y` textually (the tree never leaves the root: `../up/` is only used below a
/// first-level directory or at the root, where it is dropped)
fn normalise(p: &str) -> String {
    let mut out: Vec<&str> = Vec::new();
    for seg in p.split('/') {
        match seg {
            "" | "." => {}
            ".." => {
                out.pop();
            }
            s => out.push(s),
        }
    }
    out.join("/")
}

pub struct Scratch {
    pub root: PathBuf,
}

impl Scratch {
    pub fn new(n: u64) -> Scratch {
        // tmpfs when there is one: the trees live for microseconds
        let base = if Path::new("/dev/shm").is_dir() { PathBuf::from("/dev/shm") } else { std::env::temp_dir() };
        let root = base.join(format!("c20-inc-{}-{}", std::process::id(), n));
        Scratch { root }
    }

    /// write the tree; returns the path and the text of the file to hand to the parser
    pub fn write(&self, tree: &Tree) -> std::io::Result<(PathBuf, String)> {
        let _ = std::fs::remove_dir_all(&self.root);
        std::fs::create_dir_all(&self.root)?;
        let root_s = self.root.to_string_lossy().to_string();
        let mut main = None;
        for (i, (rel, content)) in tree.files.iter().enumerate() {
            let p = self.root.join(rel);
            if let Some(dir) = p.parent() {
                std::fs::create_dir_all(dir)?;
            }
            let text = content.replace(ROOT, &root_s);
            std::fs::write(&p, &text)?;
            if i == 0 {
                main = Some((p, text));
            }
        }
        // the hostile `$INCLUDE inc` (a directory) needs it to exist
        let _ = std::fs::create_dir_all(self.root.join("inc"));
        main.ok_or_else(|| std::io::Error::new(std::io::ErrorKind::Other, "empty tree"))
    }
}

impl Drop for Scratch {
    fn drop(&mut self) {
        let _ = std::fs::remove_dir_all(&self.root);
    }
}

/// hostile include structures for the robustness clause: cycles, missing files, directories,
/// malformed `$INCLUDE` entries. Returns the tree and a label.
pub fn hostile(rng: &mut Rng, body: &str) -> (Tree, &'static str) {
    let rec = "www 300 IN A 192.0.2.1\n";
    match rng.below(10) {
        0 => (Tree { files: vec![("main.zone".into(), format!("{body}\n$INCLUDE main.zone\n"))], shape: "self-rel".into() }, "cycle-self"),
        1 => (Tree { files: vec![("main.zone".into(), format!("$INCLUDE {ROOT}/main.zone\n{body}"))], shape: "self-abs".into() }, "cycle-self"),
        2 => (
            Tree {
                files: vec![("main.zone".into(), format!("{rec}$INCLUDE inc/x.zone\n{body}")), ("inc/x.zone".into(), format!("{rec}$INCLUDE ../main.zone\n"))],
                shape: "mutual".into(),
            },
            "cycle-mutual",
        ),
        3 => (Tree { files: vec![("main.zone".into(), format!("{body}\n$INCLUDE nothing-here.zone\n{rec}"))], shape: "missing".into() }, "missing-file"),
        4 => (Tree { files: vec![("main.zone".into(), format!("{rec}$INCLUDE inc\n{body}"))], shape: "directory".into() }, "directory"),
        5 => (Tree { files: vec![("main.zone".into(), format!("{rec}$INCLUDE\n{body}"))], shape: "no-name".into() }, "malformed-entry"),
        6 => (
            Tree { files: vec![("main.zone".into(), format!("{rec}$INCLUDE part1.zone sub.example.com.\n{body}")), ("part1.zone".into(), rec.into())], shape: "domain-name".into() },
            "domain-name",
        ),
        7 => (
            Tree { files: vec![("main.zone".into(), format!("a 300 IN TXT ( \"x\"\n$INCLUDE part1.zone\n )\n{body}")), ("part1.zone".into(), rec.into())], shape: "in-paren".into() },
            "malformed-entry",
        ),
        8 => (
            // a chain of distinct files, deeper than any real zone
            {
                let n = 40;
                let mut files = vec![("main.zone".to_string(), format!("{rec}$INCLUDE c0.zone\n{body}"))];
                for i in 0..n {
                    let next = if i + 1 < n { format!("$INCLUDE c{}.zone\n", i + 1) } else { String::new() };
                    files.push((format!("c{i}.zone"), format!("h{i} 300 IN A 192.0.2.{i}\n{next}")));
                }
                Tree { files, shape: "chain-40".into() }
            },
            "deep-chain",
        ),
        _ => (
            Tree { files: vec![("main.zone".into(), format!("{rec}$INCLUDE part1.zone ; c\n$INCLUDE part1.zone\n{body}")), ("part1.zone".into(), body.into())], shape: "twice".into() },
            "same-file-twice",
        ),
    }
}

pub fn tree_json(t: &Tree) -> serde_json::Value {
    serde_json::json!({"shape": t.shape, "files": t.files.iter().map(|(p, c)| serde_json::json!({"path": p, "content": c})).collect::<Vec<_>>()})
}

pub fn tree_from_json(v: &serde_json::Value) -> Tree {
    Tree {
        shape: v["shape"].as_str().unwrap_or("").to_string(),
        files: v["files"].as_array().map(|a| a.iter().map(|f| (f["path"].as_str().unwrap_or("").to_string(), f["content"].as_str().unwrap_or("").to_string())).collect()).unwrap_or_default(),
    }
}

#[allow(dead_code)]
pub fn root_of(p: &Path) -> &Path {
    p.parent().unwrap_or(p)
}
