//! Scripted upstream `DnsHandle`: honest resolver emulation + tamper layer + exchange log.
#![allow(dead_code)]

use std::pin::Pin;
use std::sync::{Arc, Mutex};

use futures::stream::{self, Stream};
use hickory_net::xfer::DnsHandle;
use hickory_net::NetError;
use hickory_proto::op::{DnsRequest, DnsResponse};

use vh::hk;

use crate::fault::{self, Attacker, Env, Fault};
use crate::refzone::{fold, Name};
use crate::vrt;
use crate::world::{self, Resp, World};

#[derive(Clone, Debug)]
pub struct Exchange {
    pub qname: Name,
    pub qtype: u16,
    pub dnssec: bool,
    pub honest: Resp,
    pub presented: Resp,
    pub decodable: bool,
}

pub struct State {
    pub faults: Vec<Fault>,
    pub log: Vec<Exchange>,
    pub budget_exceeded: bool,
}

pub struct Script {
    pub world: Arc<World>,
    pub attacker: Arc<Attacker>,
    pub state: Mutex<State>,
    pub max_exchanges: usize,
}

#[derive(Clone)]
pub struct Upstream(pub Arc<Script>);

impl Upstream {
    pub fn new(world: Arc<World>, attacker: Arc<Attacker>) -> Upstream {
        Upstream(Arc::new(Script { world, attacker, state: Mutex::new(State { faults: Vec::new(), log: Vec::new(), budget_exceeded: false }), max_exchanges: 4000 }))
    }
    pub fn set_faults(&self, f: Vec<Fault>) {
        let mut s = self.0.state.lock().unwrap();
        s.faults = f;
        s.log.clear();
        s.budget_exceeded = false;
    }
    pub fn take_log(&self) -> (Vec<Exchange>, bool) {
        let mut s = self.0.state.lock().unwrap();
        (std::mem::take(&mut s.log), s.budget_exceeded)
    }

    /// what this upstream presents for one exchange (also used without a validator)
    pub fn exchange(&self, qname: &Name, qtype: u16, dnssec: bool) -> (Resp, Result<DnsResponse, String>) {
        let sc = &self.0;
        let honest = sc.world.honest(qname, qtype, dnssec);
        let mut st = sc.state.lock().unwrap();
        if st.log.len() >= sc.max_exchanges {
            st.budget_exceeded = true;
            return (honest, Err("harness: upstream exchange budget exceeded".into()));
        }
        let h = &sc.world.truth.hier;
        let presented = fault::apply(&st.faults, qname, qtype, &honest, &Env { attacker: &sc.attacker, zones: &sc.world.truth.zones, inception: h.inception, expiration: h.expiration });
        let bytes = world::wire(qname, qtype, &presented, false);
        let parsed = DnsResponse::from_buffer(bytes).map_err(|e| format!("undecodable upstream response: {e}"));
        st.log.push(Exchange { qname: qname.clone(), qtype, dnssec, honest: honest.clone(), presented: presented.clone(), decodable: parsed.is_ok() });
        (presented, parsed)
    }
}

impl DnsHandle for Upstream {
    type Response = Pin<Box<dyn Stream<Item = Result<DnsResponse, NetError>> + Send>>;
    type Runtime = vrt::VRuntime;

    fn send(&self, request: DnsRequest) -> Self::Response {
        let Some(q) = request.queries.first().cloned() else {
            return Box::pin(stream::once(async { Err(NetError::from("no query")) }));
        };
        let qname = fold(&hk::labels_of(&q.name));
        let qtype = u16::from(q.query_type);
        let dnssec = request.edns.as_ref().is_some_and(|e| e.flags().dnssec_ok);
        let (_, parsed) = self.exchange(&qname, qtype, dnssec);
        Box::pin(stream::once(async move { parsed.map_err(NetError::from) }))
    }
}
