//! adequacy — does the NSEC / NSEC3 material a DO=1 response carries actually *prove* what the
//! response claims? (C10: "every negative or wildcard answer carries a denial proof".)
//!
//! Judged by ROLE on the records present in the authority section, independent of how the server
//! lays out its chain:
//!   match(X) = a record whose owner is X (NSEC) / whose owner hash is H(X) under that record's own
//!              salt and iteration count (NSEC3);
//!   cover(X) = a record with owner < X < next in canonical (RFC 4034 §6.1) resp. hash order; the
//!              record that closes the ring (next <= owner) covers X > owner and X < next.
//! Which roles a response needs follows from the REFERENCE outcome (RefAuth on the reference zone:
//! closest encloser ce, next closer name nc = the ancestor-or-self of QNAME one label longer than
//! ce, source of synthesis wc = *.ce):
//!
//!   claim                    NSEC (RFC 4035 §3.1.3, RFC 4592)         NSEC3 (RFC 5155 §7.2)
//!   name error               cover(qname) ∧ cover(wc)        §3.1.3.2  match(ce) ∧ cover(nc) ∧ cover(wc)   §7.2.2
//!   no data, name owns data  match(qname), QTYPE+CNAME clear §3.1.3.1  match(qname), QTYPE+CNAME clear     §7.2.3/4
//!   no data, empty non-term. cover(qname)   (ENTs own no NSEC, §2.3)   match(qname)  (ENTs own an NSEC3)    §7.2.3
//!   no DS, insecure deleg.   –                                         match(qname) — or, when opt-out left
//!     under opt-out                                                    it out: match(a) ∧ cover(next closer
//!                                                                      below a) with Opt-Out set, a any
//!                                                                      ancestor of qname              §7.2.4
//!   wildcard answer / CNAME  cover(qname)                    §3.1.3.3  cover(nc)                          §7.2.6
//!   wildcard no data         cover(qname) ∧ match(wc) clear  §3.1.3.4  match(ce) ∧ cover(nc) ∧ match(wc) clear §7.2.5
//!   wildcard no data, wc is  cover(qname) ∧ cover(wc)                  as above (the ENT owns an NSEC3 with
//!     an empty non-terminal                                            an empty bitmap)
//!
//! Don't-cares (never reported):
//!   * anything the *reference* chain of the reference zone (RFC 4035 §2.3 / RFC 5155 §7.1, maximal
//!     opt-out) cannot prove with these roles either — under opt-out that is the case when a name
//!     that has to be matched exists only because of insecure delegations and so owns no NSEC3 RR.
//!     In a zone without opt-out this cannot happen; if it does the role table is wrong and the run
//!     is made inconclusive by the caller;
//!   * which of several adequate records is sent, extra records, record order, TTLs, the Opt-Out
//!     flag anywhere but on the record covering the next closer name of a DS/opt-out proof;
//!   * type bits other than QTYPE and CNAME in a matching record (C08/C09 compare whole bitmaps);
//!   * NSEC3 records with an unknown hash algorithm or a malformed owner label / RDATA are ignored
//!     (they satisfy no role).
//! Plain types only; SHA-1 comes from ring, base32hex is written out here. Nothing calls hickory.
#![allow(dead_code)]

use std::cell::RefCell;
use std::cmp::Ordering;
use std::collections::{BTreeMap, BTreeSet, HashMap};

use serde_json::{json, Value};

use crate::refzone::{self, canonical_cmp, fold, suffix, ty, wildcard_of, CName, Kind, Name, Outcome, Rr, Zone};

// ---------------------------------------------------------------------------------------------
// hashing (RFC 5155 §5) and base32hex (RFC 4648 §7, no padding)

/// IH(salt, x, 0) = H(x || salt); IH(salt, x, k) = H(IH(salt, x, k-1) || salt); x = the lower-cased
/// uncompressed wire form of the name
pub fn nsec3_hash(name: &[Vec<u8>], salt: &[u8], iterations: u16) -> Vec<u8> {
    let mut data = refzone::wire_name(&fold(name));
    data.extend_from_slice(salt);
    let mut h = ring::digest::digest(&ring::digest::SHA1_FOR_LEGACY_USE_ONLY, &data).as_ref().to_vec();
    for _ in 0..iterations {
        let mut d = h.clone();
        d.extend_from_slice(salt);
        h = ring::digest::digest(&ring::digest::SHA1_FOR_LEGACY_USE_ONLY, &d).as_ref().to_vec();
    }
    h
}

const B32: &[u8; 32] = b"0123456789abcdefghijklmnopqrstuv";

pub fn base32hex(b: &[u8]) -> String {
    let mut out = String::new();
    let mut acc: u32 = 0;
    let mut bits = 0;
    for x in b {
        acc = ((acc << 8) | *x as u32) & 0xffff;
        bits += 8;
        while bits >= 5 {
            out.push(B32[((acc >> (bits - 5)) & 31) as usize] as char);
            bits -= 5;
        }
    }
    if bits > 0 {
        out.push(B32[((acc << (5 - bits)) & 31) as usize] as char);
    }
    out
}

/// either case, no padding; left-over bits (< 8) must be zero
pub fn base32hex_decode(s: &[u8]) -> Option<Vec<u8>> {
    let mut out = Vec::new();
    let mut acc: u32 = 0;
    let mut bits = 0;
    for c in s {
        let c = c.to_ascii_lowercase();
        let v = match c {
            b'0'..=b'9' => c - b'0',
            b'a'..=b'v' => c - b'a' + 10,
            _ => return None,
        };
        acc = ((acc << 5) | v as u32) & 0xfff;
        bits += 5;
        if bits >= 8 {
            out.push(((acc >> (bits - 8)) & 0xff) as u8);
            bits -= 8;
        }
    }
    if acc & ((1 << bits) - 1) != 0 {
        return None;
    }
    Some(out)
}

// ---------------------------------------------------------------------------------------------
// denial records as a validator sees them

#[derive(Clone, Debug, PartialEq, Eq)]
pub struct N3Params {
    pub salt: Vec<u8>,
    pub iterations: u16,
}

/// a point of the ring a record spans: a name (NSEC, canonical order) or a hash (NSEC3)
#[derive(Clone, Debug, PartialEq, Eq)]
pub enum Pos {
    Name(Name),
    Hash(Vec<u8>),
}

impl Pos {
    fn cmp(&self, other: &Pos) -> Ordering {
        match (self, other) {
            (Pos::Name(a), Pos::Name(b)) => canonical_cmp(a, b),
            (Pos::Hash(a), Pos::Hash(b)) => a.as_slice().cmp(b.as_slice()),
            // never compared across kinds (a record hashes X itself)
            (Pos::Name(_), Pos::Hash(_)) => Ordering::Less,
            (Pos::Hash(_), Pos::Name(_)) => Ordering::Greater,
        }
    }
    pub fn show(&self) -> String {
        match self {
            Pos::Name(n) => refzone::show(n),
            Pos::Hash(h) => base32hex(h),
        }
    }
}

#[derive(Clone, Debug, PartialEq, Eq)]
pub struct Rec {
    /// None: NSEC; Some: NSEC3 with these parameters
    pub n3: Option<N3Params>,
    pub owner: Pos,
    pub next: Pos,
    pub types: BTreeSet<u16>,
    /// NSEC3 Opt-Out flag
    pub opt_out: bool,
    /// NSEC3: the owner name without its hash label
    pub zone: Name,
}

fn parse_bitmap(b: &[u8]) -> Result<BTreeSet<u16>, String> {
    let mut t = BTreeSet::new();
    let mut i = 0;
    let mut last: i32 = -1;
    while i < b.len() {
        if i + 2 > b.len() {
            return Err("truncated type bitmap window".into());
        }
        let w = b[i] as i32;
        let l = b[i + 1] as usize;
        if w <= last || l == 0 || l > 32 || i + 2 + l > b.len() {
            return Err("malformed type bitmap window".into());
        }
        last = w;
        for (j, byte) in b[i + 2..i + 2 + l].iter().enumerate() {
            for k in 0..8 {
                if byte & (0x80 >> k) != 0 {
                    t.insert((w as u16) * 256 + (j as u16) * 8 + k as u16);
                }
            }
        }
        i += 2 + l;
    }
    Ok(t)
}

/// `rr`: (owner, NSEC, RDATA with the next name uncompressed) as projected from the wire
pub fn parse_nsec(rr: &Rr) -> Result<Rec, String> {
    let (next, off) = refzone::read_wire_name(&rr.2, 0).ok_or("NSEC next name does not parse")?;
    let types = parse_bitmap(&rr.2[off..])?;
    Ok(Rec { n3: None, owner: Pos::Name(fold(&rr.0)), next: Pos::Name(next), types, opt_out: false, zone: Vec::new() })
}

pub fn parse_nsec3(rr: &Rr) -> Result<Rec, String> {
    let label = rr.0.first().ok_or("NSEC3 at the root")?;
    let hash = base32hex_decode(label).ok_or("NSEC3 owner label is not base32hex")?;
    let rd = &rr.2;
    if rd.len() < 5 {
        return Err("short NSEC3 RDATA".into());
    }
    if rd[0] != 1 {
        return Err(format!("NSEC3 hash algorithm {}", rd[0]));
    }
    let flags = rd[1];
    let iterations = u16::from_be_bytes([rd[2], rd[3]]);
    let sl = rd[4] as usize;
    let salt = rd.get(5..5 + sl).ok_or("NSEC3 salt runs past RDATA")?.to_vec();
    let hl = *rd.get(5 + sl).ok_or("NSEC3 without next hash")? as usize;
    let next = rd.get(6 + sl..6 + sl + hl).ok_or("NSEC3 next hash runs past RDATA")?.to_vec();
    if hash.len() != 20 || next.len() != 20 {
        return Err("NSEC3 hash length is not 20 (SHA-1)".into());
    }
    let types = parse_bitmap(&rd[6 + sl + hl..])?;
    Ok(Rec { n3: Some(N3Params { salt, iterations }), owner: Pos::Hash(hash), next: Pos::Hash(next), types, opt_out: flags & 1 != 0, zone: rr.0[1..].to_vec() })
}

pub fn show_rec(r: &Rec) -> String {
    let types = r.types.iter().map(|t| refzone::type_name(*t)).collect::<Vec<_>>().join(" ");
    match &r.n3 {
        None => format!("{} NSEC {} ({})", r.owner.show(), r.next.show(), types),
        Some(p) => format!(
            "{}.{} NSEC3 1 {} {} {} {} ({})",
            r.owner.show(),
            refzone::show(&r.zone),
            r.opt_out as u8,
            p.iterations,
            if p.salt.is_empty() { "-".to_string() } else { p.salt.iter().map(|b| format!("{b:02x}")).collect() },
            r.next.show(),
            types
        ),
    }
}

/// memo for H(x) per parameter set
#[derive(Default)]
pub struct HashCache(RefCell<HashMap<(Vec<u8>, u16, Name), Vec<u8>>>);

impl HashCache {
    pub fn h(&self, p: &N3Params, n: &[Vec<u8>]) -> Vec<u8> {
        let key = (p.salt.clone(), p.iterations, fold(n));
        if let Some(v) = self.0.borrow().get(&key) {
            return v.clone();
        }
        let v = nsec3_hash(&key.2, &p.salt, p.iterations);
        self.0.borrow_mut().insert(key, v.clone());
        v
    }
}

/// how a record covers a point (evidence: which half of the ring-closing record was needed)
#[derive(Clone, Copy, Debug, PartialEq, Eq)]
pub enum CoverHow {
    Inner,
    /// ring-closing record, X after its owner
    WrapHigh,
    /// ring-closing record, X before its next (X precedes every owner of the chain)
    WrapLow,
}

impl Rec {
    /// where X lies on this record's ring
    fn pos_of(&self, x: &[Vec<u8>], hc: &HashCache) -> Pos {
        match &self.n3 {
            None => Pos::Name(fold(x)),
            Some(p) => Pos::Hash(hc.h(p, x)),
        }
    }
    pub fn matches(&self, x: &[Vec<u8>], apex: &[Vec<u8>], hc: &HashCache) -> bool {
        self.matches_at(&self.pos_of(x, hc), apex)
    }
    pub fn covers(&self, x: &[Vec<u8>], apex: &[Vec<u8>], hc: &HashCache) -> Option<CoverHow> {
        self.covers_at(&self.pos_of(x, hc), apex)
    }
    /// `p` = `self.pos_of(X)` (or that of a record with the same parameters)
    fn matches_at(&self, p: &Pos, apex: &[Vec<u8>]) -> bool {
        if self.n3.is_some() && self.zone.as_slice() != apex {
            return false;
        }
        self.owner.cmp(p) == Ordering::Equal
    }
    fn covers_at(&self, p: &Pos, apex: &[Vec<u8>]) -> Option<CoverHow> {
        if self.n3.is_some() && self.zone.as_slice() != apex {
            return None;
        }
        ring_cover(&self.owner, &self.next, p)
    }
}

/// RFC 4034 §4.1.1 / RFC 5155 §1.3 "cover": p strictly between owner and next; the record that
/// closes the ring (next <= owner; a one-record chain has next == owner) covers everything after
/// its owner and everything before its next.
pub fn ring_cover(owner: &Pos, next: &Pos, p: &Pos) -> Option<CoverHow> {
    let after_owner = owner.cmp(p) == Ordering::Less;
    let before_next = p.cmp(next) == Ordering::Less;
    if owner.cmp(next) == Ordering::Less {
        (after_owner && before_next).then_some(CoverHow::Inner)
    } else if after_owner {
        Some(CoverHow::WrapHigh)
    } else if before_next {
        Some(CoverHow::WrapLow)
    } else {
        None
    }
}

// ---------------------------------------------------------------------------------------------
// required roles

#[derive(Clone, Debug, PartialEq, Eq)]
pub enum How {
    /// a record matching the target whose bitmap has none of `clear`
    Match { clear: Vec<u16> },
    /// a record covering the target (with the Opt-Out flag if `optout`)
    Cover { optout: bool },
}

#[derive(Clone, Debug, PartialEq, Eq)]
pub struct Req {
    /// match-qname | match-ce | match-wc | cover-qname | cover-nc | cover-wc
    pub role: &'static str,
    pub target: Name,
    pub how: How,
}

impl Req {
    /// name under which a failure of this requirement is reported: the role itself when no
    /// record matches / covers, `bits-*` when the matching record has QTYPE or CNAME set,
    /// `optout-*` when the covering record lacks the Opt-Out flag
    fn eval(&self, recs: &[Rec], apex: &[Vec<u8>], hc: &HashCache) -> Result<(usize, Option<CoverHow>), String> {
        let what = self.role.split_once('-').map(|x| x.1).unwrap_or(self.role);
        // position of the target on a record's ring, recomputed only when the parameters change
        // (all records of a response normally share one parameter set)
        let mut memo: Option<(&Option<N3Params>, Pos)> = None;
        match &self.how {
            How::Match { clear } => {
                let mut seen = false;
                for (i, r) in recs.iter().enumerate() {
                    if memo.as_ref().is_none_or(|(k, _)| **k != r.n3) {
                        memo = Some((&r.n3, r.pos_of(&self.target, hc)));
                    }
                    if r.matches_at(&memo.as_ref().unwrap().1, apex) {
                        seen = true;
                        if clear.iter().all(|t| !r.types.contains(t)) {
                            return Ok((i, None));
                        }
                    }
                }
                Err(if seen { format!("bits-{what}") } else { self.role.to_string() })
            }
            How::Cover { optout } => {
                let mut seen = false;
                for (i, r) in recs.iter().enumerate() {
                    if memo.as_ref().is_none_or(|(k, _)| **k != r.n3) {
                        memo = Some((&r.n3, r.pos_of(&self.target, hc)));
                    }
                    if let Some(h) = r.covers_at(&memo.as_ref().unwrap().1, apex) {
                        seen = true;
                        if !*optout || r.opt_out {
                            return Ok((i, Some(h)));
                        }
                    }
                }
                Err(if seen { format!("optout-{what}") } else { self.role.to_string() })
            }
        }
    }
}

#[derive(Clone, Debug)]
pub struct Plan {
    /// claim kind for signatures and counters: RefAuth kind (+ `:ent-source` for a wildcard no
    /// data whose source of synthesis is an empty non-terminal, + `:ds` for a negative answer to
    /// QTYPE DS, which RFC 5155 §7.2.4 and servers special-case, + `@deep`, see the end of `plan`)
    pub claim: String,
    /// alternatives; the first one is the proof reported when none is satisfied
    pub alts: Vec<Vec<Req>>,
    pub ce: Option<Name>,
    pub nc: Option<Name>,
    pub wc: Option<Name>,
}

/// The proof obligations of the response RefAuth prescribes for (qname, qtype) – first step of
/// the lookup only (what happens at the end of a CNAME chase is a don't-care of C10).
/// None: nothing to prove (positive, non-synthesised answer / referral / refused).
/// `refp`: the reference chain; consulted only for the DS/opt-out proof, whose reported
/// alternative names the closest *provable* encloser of that chain (longest strict ancestor of
/// qname owning an NSEC3 RR there).
pub fn plan(z: &Zone, e: &Outcome, nsec3: bool, opt_out: bool, refp: &RefProofs) -> Option<Plan> {
    let q = &e.qname;
    let t = e.qtype;
    let st = e.first_step();
    let mut clear: Vec<u16> = Vec::new();
    if t != ty::ANY {
        clear.push(t);
    }
    if t != ty::CNAME {
        clear.push(ty::CNAME);
    }
    let m = |role: &'static str, target: &Name, clear: &[u16]| Req { role, target: target.clone(), how: How::Match { clear: clear.to_vec() } };
    let c = |role: &'static str, target: &Name| Req { role, target: target.clone(), how: How::Cover { optout: false } };
    let mut p = Plan { claim: e.kind.as_str().to_string(), alts: Vec::new(), ce: None, nc: None, wc: None };
    if e.kind == Kind::WildcardNodata && st.matched.as_ref().is_some_and(|w| z.node(w).is_none()) {
        p.claim.push_str(":ent-source");
    }
    if t == ty::DS && e.kind.is_negative() {
        p.claim.push_str(":ds");
    }
    // names of the closest encloser proof
    if let Some(ce) = &st.closest_encloser {
        p.nc = Some(suffix(q, ce.len() + 1));
        p.wc = Some(wildcard_of(ce));
        p.ce = Some(ce.clone());
    }
    let ce_parts = |p: &Plan| (p.ce.clone().expect("non-existent name has a closest encloser"), p.nc.clone().unwrap(), p.wc.clone().unwrap());
    match e.kind {
        Kind::Nxdomain => {
            let (ce, nc, wc) = ce_parts(&p);
            p.alts.push(if nsec3 { vec![m("match-ce", &ce, &[]), c("cover-nc", &nc), c("cover-wc", &wc)] } else { vec![c("cover-qname", q), c("cover-wc", &wc)] });
        }
        Kind::Nodata => {
            p.alts.push(vec![m("match-qname", q, &clear)]);
            if nsec3 && opt_out && t == ty::DS && z.is_delegation(q) && z.rrset(q, ty::DS).is_none() {
                // RFC 5155 §7.2.4: "If no NSEC3 RR matches QNAME, the server MUST return a closest
                // provable encloser proof for QNAME. The NSEC3 RR that covers the "next closer"
                // name MUST have the Opt-Out bit set". Which ancestors own an NSEC3 RR depends on
                // which delegations the signer chose to opt out: any ancestor will do.
                p.claim = "nodata:ds-optout".into();
                let mut alts = Vec::new();
                let provable = refp.longest_matched_ancestor(z, q);
                let mut k = q.len();
                while k > z.apex.len() {
                    k -= 1;
                    let a = suffix(q, k);
                    let alt = vec![m("match-ce", &a, &[]), Req { role: "cover-nc", target: suffix(q, k + 1), how: How::Cover { optout: true } }];
                    if Some(&a) == provable.as_ref() {
                        p.ce = Some(a.clone());
                        p.nc = Some(suffix(q, k + 1));
                        alts.insert(0, alt);
                    } else {
                        alts.push(alt);
                    }
                }
                // reported proof: the reference one; the matching record stays acceptable
                let direct = p.alts.pop().unwrap();
                p.alts = alts;
                p.alts.push(direct);
            }
        }
        Kind::EntNodata => {
            p.alts.push(if nsec3 { vec![m("match-qname", q, &clear)] } else { vec![c("cover-qname", q)] });
        }
        Kind::WildcardAnswer | Kind::WildcardCname => {
            let (_, nc, _) = ce_parts(&p);
            p.alts.push(if nsec3 { vec![c("cover-nc", &nc)] } else { vec![c("cover-qname", q)] });
        }
        Kind::WildcardNodata => {
            let (ce, nc, wc) = ce_parts(&p);
            let ent_source = z.node(&wc).is_none();
            p.alts.push(if nsec3 {
                vec![m("match-ce", &ce, &[]), c("cover-nc", &nc), m("match-wc", &wc, &clear)]
            } else if ent_source {
                // RFC 4592 §4.9 / RFC 4035 §2.3: an empty non-terminal owns no NSEC; its existence
                // shows in the NSEC that covers it (next name below it)
                vec![c("cover-qname", q), c("cover-wc", &wc)]
            } else {
                vec![c("cover-qname", q), m("match-wc", &wc, &clear)]
            });
        }
        Kind::Answer | Kind::CnameChain | Kind::Referral | Kind::Refused => return None,
    }
    // structural feature of the situation (part of the claim kind in signatures, so that defects
    // with different preconditions keep different signatures):
    //   @deep  the query name lies two or more labels below its closest encloser (next closer name
    //          != query name, the parent of the query name does not exist) – servers that derive
    //          the wildcard or the encloser from the query name's parent go wrong exactly here
    if p.claim != "nodata:ds-optout" && st.closest_encloser.as_ref().is_some_and(|ce| q.len() >= ce.len() + 2) {
        p.claim.push_str("@deep");
    }
    Some(p)
}

/// Outcome of evaluating a plan on a record set.
#[derive(Clone, Debug)]
pub struct Verdict {
    pub ok: bool,
    /// index of the satisfied alternative
    pub alt: Option<usize>,
    /// failures of the first (reported) alternative, sorted
    pub missing: Vec<String>,
    /// per requirement of the reported alternative (the satisfied one if any, else the first):
    /// (role, target, Ok(index of the record, how it covers) | Err(failure name))
    pub table: Vec<(&'static str, Name, Result<(usize, Option<CoverHow>), String>)>,
}

pub fn evaluate(p: &Plan, recs: &[Rec], apex: &[Vec<u8>], hc: &HashCache) -> Verdict {
    let mut first: Option<Verdict> = None;
    for (ai, alt) in p.alts.iter().enumerate() {
        let table: Vec<_> = alt.iter().map(|r| (r.role, r.target.clone(), r.eval(recs, apex, hc))).collect();
        let mut missing: Vec<String> = table.iter().filter_map(|(_, _, r)| r.as_ref().err().cloned()).collect();
        // next closer name and wildcard are defined relative to the closest encloser: when no
        // record matches it, what the response covers instead says nothing more (a validator would
        // settle on another encloser, RFC 5155 §8.3) – `match-ce` stands for the whole proof
        if missing.iter().any(|m| m == "match-ce") {
            missing.retain(|m| !matches!(m.as_str(), "cover-nc" | "cover-wc" | "optout-nc"));
        }
        missing.sort();
        missing.dedup();
        let v = Verdict { ok: missing.is_empty(), alt: missing.is_empty().then_some(ai), missing, table };
        if v.ok {
            return v;
        }
        if first.is_none() {
            first = Some(v);
        }
    }
    first.unwrap_or(Verdict { ok: true, alt: None, missing: Vec::new(), table: Vec::new() })
}

pub fn table_json(p: &Plan, v: &Verdict, recs: &[Rec], hc: &HashCache) -> Value {
    let rows: Vec<Value> = v
        .table
        .iter()
        .map(|(role, target, res)| {
            let hashes: BTreeSet<String> = recs.iter().filter_map(|r| r.n3.as_ref()).map(|p| base32hex(&hc.h(p, target))).collect();
            json!({
                "role": role,
                "target": refzone::show(target),
                "target_hash": hashes.into_iter().collect::<Vec<_>>(),
                "satisfied_by": res.as_ref().ok().map(|(i, _)| show_rec(&recs[*i])),
                "missing": res.as_ref().err(),
            })
        })
        .collect();
    json!({
        "claim": p.claim,
        "closest_encloser": p.ce.as_ref().map(|n| refzone::show(n)),
        "next_closer": p.nc.as_ref().map(|n| refzone::show(n)),
        "wildcard": p.wc.as_ref().map(|n| refzone::show(n)),
        "alternatives": p.alts.len(),
        "roles": rows,
        "adequate": v.ok,
    })
}

// ---------------------------------------------------------------------------------------------
// reference chains (RFC 4035 §2.3, RFC 5155 §7.1) of the reference zone – used only to make sure
// the role table asks for nothing a genuine chain could not deliver

pub enum RefMode {
    None,
    Nsec,
    Nsec3 { salt: Vec<u8>, iterations: u16, opt_out: bool },
}

pub struct RefProofs {
    pub recs: Vec<Rec>,
    pub hc: HashCache,
}

fn nsec_bitmap(z: &Zone, n: &[Vec<u8>]) -> BTreeSet<u16> {
    let mut t: BTreeSet<u16> = BTreeSet::new();
    if let Some(node) = z.node(n) {
        if z.is_delegation(n) {
            // RFC 4035 §2.3: only NS and the RRsets the parent is authoritative for (DS)
            t.extend(node.keys().copied().filter(|k| *k == ty::NS || *k == ty::DS));
        } else {
            t.extend(node.keys().copied());
        }
    }
    t.insert(ty::RRSIG);
    t.insert(ty::NSEC);
    if fold(n) == z.apex {
        t.insert(ty::DNSKEY);
    }
    t
}

fn nsec3_bitmap(z: &Zone, n: &[Vec<u8>]) -> BTreeSet<u16> {
    let mut t: BTreeSet<u16> = BTreeSet::new();
    let Some(node) = z.node(n) else { return t }; // empty non-terminal: empty bitmap (RFC 5155 §7.1)
    if z.is_delegation(n) {
        t.extend(node.keys().copied().filter(|k| *k == ty::NS || *k == ty::DS));
        if t.contains(&ty::DS) {
            t.insert(ty::RRSIG);
        }
    } else {
        t.extend(node.keys().copied());
        t.insert(ty::RRSIG);
    }
    if fold(n) == z.apex {
        t.insert(ty::DNSKEY);
        t.insert(ty::NSEC3PARAM);
    }
    t
}

/// Names that own an NSEC3 RR: every existing name incl. empty non-terminals; with opt-out,
/// insecure delegations are left out and with them the empty non-terminals that exist only
/// because of them (RFC 5155 §7.1).
pub fn nsec3_names(z: &Zone, opt_out: bool) -> Vec<Name> {
    let mut set: BTreeMap<CName, ()> = BTreeMap::new();
    set.insert(CName(z.apex.clone()), ());
    for o in z.owners() {
        if !z.in_zone(o) || z.occluded(o) {
            continue;
        }
        if opt_out && z.is_delegation(o) && z.rrset(o, ty::DS).is_none() {
            continue;
        }
        let mut k = o.len();
        while k > z.apex.len() {
            set.insert(CName(suffix(o, k)), ());
            k -= 1;
        }
    }
    set.into_keys().map(|c| c.0).collect()
}

impl RefProofs {
    pub fn build(z: &Zone, mode: &RefMode) -> RefProofs {
        let hc = HashCache::default();
        let mut recs = Vec::new();
        match mode {
            RefMode::None => {}
            RefMode::Nsec => {
                let owners: Vec<Name> = z.owners().filter(|o| z.in_zone(o) && !z.occluded(o)).cloned().collect();
                for (i, o) in owners.iter().enumerate() {
                    let next = owners[(i + 1) % owners.len()].clone();
                    recs.push(Rec { n3: None, owner: Pos::Name(o.clone()), next: Pos::Name(next), types: nsec_bitmap(z, o), opt_out: false, zone: Vec::new() });
                }
            }
            RefMode::Nsec3 { salt, iterations, opt_out } => {
                let p = N3Params { salt: salt.clone(), iterations: *iterations };
                let mut v: Vec<(Vec<u8>, Name)> = nsec3_names(z, *opt_out).into_iter().map(|n| (hc.h(&p, &n), n)).collect();
                v.sort();
                for i in 0..v.len() {
                    let next = v[(i + 1) % v.len()].0.clone();
                    recs.push(Rec { n3: Some(p.clone()), owner: Pos::Hash(v[i].0.clone()), next: Pos::Hash(next), types: nsec3_bitmap(z, &v[i].1), opt_out: *opt_out, zone: z.apex.clone() });
                }
            }
        }
        RefProofs { recs, hc }
    }

    /// longest strict ancestor of `q` (down to the apex) that a record of the reference chain matches
    pub fn longest_matched_ancestor(&self, z: &Zone, q: &[Vec<u8>]) -> Option<Name> {
        let mut k = q.len();
        while k > z.apex.len() {
            k -= 1;
            let a = suffix(q, k);
            if self.recs.iter().any(|r| r.matches(&a, &z.apex, &self.hc)) {
                return Some(a);
            }
        }
        None
    }
}

// ---------------------------------------------------------------------------------------------
// self test against RFC 5155 Appendix A/B and RFC 4035 Appendix B

/// RFC 5155 Appendix A example zone (= the RFC 4035 Appendix A zone with c.example as the insecure
/// delegation and one extra host)
fn rfc5155_zone() -> Zone {
    use refzone::{name, rd_a, rd_aaaa, rd_ds, rd_mx, rd_name, rd_soa};
    let apex = name("example.");
    let mut z = Zone::new(&apex);
    z.add(&apex, ty::SOA, rd_soa(&name("ns1.example."), &name("bugs.x.w.example."), 1, 3600, 300, 3600000, 3600));
    z.add(&apex, ty::NS, rd_name(&name("ns1.example.")));
    z.add(&apex, ty::NS, rd_name(&name("ns2.example.")));
    z.add(&apex, ty::MX, rd_mx(1, &name("xx.example.")));
    z.add(&name("2t7b4g4vsa5smi47k61mv5bv1a22bojr.example."), ty::A, rd_a(127));
    z.add(&name("a.example."), ty::NS, rd_name(&name("ns1.a.example.")));
    z.add(&name("a.example."), ty::NS, rd_name(&name("ns2.a.example.")));
    z.add(&name("a.example."), ty::DS, rd_ds(58470));
    z.add(&name("ns1.a.example."), ty::A, rd_a(5));
    z.add(&name("ns2.a.example."), ty::A, rd_a(6));
    z.add(&name("ai.example."), ty::A, rd_a(9));
    z.add(&name("ai.example."), ty::AAAA, rd_aaaa(9));
    z.add(&name("c.example."), ty::NS, rd_name(&name("ns1.c.example.")));
    z.add(&name("c.example."), ty::NS, rd_name(&name("ns2.c.example.")));
    z.add(&name("ns1.c.example."), ty::A, rd_a(7));
    z.add(&name("ns2.c.example."), ty::A, rd_a(8));
    z.add(&name("ns1.example."), ty::A, rd_a(1));
    z.add(&name("ns2.example."), ty::A, rd_a(2));
    z.add(&name("*.w.example."), ty::MX, rd_mx(1, &name("ai.example.")));
    z.add(&name("x.w.example."), ty::MX, rd_mx(1, &name("xx.example.")));
    z.add(&name("x.y.w.example."), ty::MX, rd_mx(1, &name("xx.example.")));
    z.add(&name("xx.example."), ty::A, rd_a(10));
    z.add(&name("xx.example."), ty::AAAA, rd_aaaa(10));
    z
}

/// Panics with a description if this module disagrees with the RFCs' own examples.
pub fn selftest() {
    use refzone::{name, ref_auth};
    let salt = vec![0xaa, 0xbb, 0xcc, 0xdd];
    // RFC 5155 Appendix A hashes
    for (n, h) in [
        ("example.", "0p9mhaveqvm6t7vbl5lop2u3t2rp3tom"),
        ("a.example.", "35mthgpgcu1qg68fab165klnsnk3dpvl"),
        ("w.example.", "k8udemvp1j2f7eg6jebps17vp3n8i58h"),
        ("*.w.example.", "r53bq7cc2uvmubfu5ocmm6pers9tk9en"),
        ("X.Y.W.EXAMPLE.", "2vptu5timamqttgl4luu9kg21e0aor3s"),
    ] {
        let hash = nsec3_hash(&name(n), &salt, 12);
        assert_eq!(base32hex(&hash), h, "RFC 5155 App. A hash of {n}");
        assert_eq!(base32hex_decode(h.as_bytes()), Some(hash.clone()), "base32hex decode of {h}");
        assert_eq!(base32hex_decode(h.to_ascii_uppercase().as_bytes()), Some(hash), "base32hex decode, upper case");
    }
    for (i, o) in [("", ""), ("f", "co"), ("fo", "cpng"), ("foo", "cpnmu"), ("foob", "cpnmuog"), ("fooba", "cpnmuoj1"), ("foobar", "cpnmuoj1e8")] {
        assert_eq!(base32hex(i.as_bytes()), o, "base32hex({i})");
        assert_eq!(base32hex_decode(o.as_bytes()), Some(i.as_bytes().to_vec()), "base32hex_decode({o})");
    }
    assert_eq!(base32hex_decode(b"cw"), None);
    // type bitmap: RFC 4034 §4.3 example (A MX RRSIG NSEC TYPE1234)
    let mut bm = vec![0x00u8, 0x06, 0x40, 0x01, 0x00, 0x00, 0x00, 0x03, 0x04, 0x1b];
    bm.extend_from_slice(&[0u8; 26]);
    bm.push(0x20);
    assert_eq!(parse_bitmap(&bm).unwrap(), [1u16, 15, 46, 47, 1234].into_iter().collect::<BTreeSet<u16>>(), "RFC 4034 §4.3 bitmap");

    let z = rfc5155_zone();
    // ---- NSEC3, opt-out (Appendix B)
    let rp = RefProofs::build(&z, &RefMode::Nsec3 { salt: salt.clone(), iterations: 12, opt_out: true });
    let owners: Vec<String> = rp.recs.iter().map(|r| r.owner.show()[..8].to_string()).collect();
    assert_eq!(owners, vec!["0p9mhave", "2t7b4g4v", "2vptu5ti", "35mthgpg", "b4um86eg", "gjeqe526", "ji6neoae", "k8udemvp", "kohar7mb", "q04jkcev", "r53bq7cc", "t644ebqk"], "RFC 5155 App. A chain");
    let pick = |rp: &RefProofs, pre: &[&str]| -> Vec<Rec> { rp.recs.iter().filter(|r| pre.iter().any(|p| r.owner.show().starts_with(p))).cloned().collect() };
    // (query, type, claim, the records Appendix B shows in the response)
    let cases: Vec<(&str, u16, &str, Vec<&str>)> = vec![
        ("a.c.x.w.example.", ty::A, "nxdomain@deep", vec!["0p9mhave", "b4um86eg", "35mthgpg"]),     // B.1
        ("ns1.example.", ty::MX, "nodata", vec!["2t7b4g4v"]),                                  // B.2
        ("y.w.example.", ty::A, "ent-nodata", vec!["ji6neoae"]),                               // B.2.1
        ("c.example.", ty::DS, "nodata:ds-optout", vec!["35mthgpg", "0p9mhave"]),              // B.3 (DS part)
        ("a.z.w.example.", ty::MX, "wildcard-answer@deep", vec!["q04jkcev"]),                       // B.4
        ("a.z.w.example.", ty::AAAA, "wildcard-nodata@deep", vec!["k8udemvp", "q04jkcev", "r53bq7cc"]), // B.5
        ("example.", ty::DS, "nodata:ds", vec!["0p9mhave"]),                                   // B.6
    ];
    for (q, t, claim, pre) in &cases {
        let e = ref_auth(&z, &name(q), *t);
        let p = plan(&z, &e, true, true, &rp).unwrap_or_else(|| panic!("no plan for {q}"));
        assert_eq!(p.claim, *claim, "claim for {q}");
        let full = evaluate(&p, &rp.recs, &z.apex, &rp.hc);
        assert!(full.ok, "RFC 5155 chain cannot prove {q} {claim}: missing {:?}", full.missing);
        let s = pick(&rp, pre);
        assert_eq!(s.len(), pre.len());
        let v = evaluate(&p, &s, &z.apex, &rp.hc);
        assert!(v.ok, "RFC 5155 App. B proof for {q} judged inadequate: missing {:?}", v.missing);
        // every record of the example proof is needed
        for drop in 0..s.len() {
            let mut s2 = s.clone();
            s2.remove(drop);
            let v = evaluate(&p, &s2, &z.apex, &rp.hc);
            assert!(!v.ok && !v.missing.is_empty(), "{q} {claim}: proof without {} still adequate", show_rec(&s[drop]));
        }
    }
    // B.1 in detail: which role each record plays
    let e = ref_auth(&z, &name("a.c.x.w.example."), ty::A);
    let p = plan(&z, &e, true, true, &rp).unwrap();
    assert_eq!((p.ce.clone(), p.nc.clone(), p.wc.clone()), (Some(name("x.w.example.")), Some(name("c.x.w.example.")), Some(name("*.x.w.example."))));
    assert_eq!(evaluate(&p, &pick(&rp, &["0p9mhave", "b4um86eg"]), &z.apex, &rp.hc).missing, vec!["cover-wc".to_string()]);
    assert_eq!(evaluate(&p, &pick(&rp, &["35mthgpg", "b4um86eg"]), &z.apex, &rp.hc).missing, vec!["cover-nc".to_string()]);
    assert_eq!(evaluate(&p, &pick(&rp, &["35mthgpg", "0p9mhave"]), &z.apex, &rp.hc).missing, vec!["match-ce".to_string()]);
    // a matching record with the type set is not a no-data proof
    let e = ref_auth(&z, &name("ns1.example."), ty::MX);
    let p = plan(&z, &e, true, true, &rp).unwrap();
    let mut s = pick(&rp, &["2t7b4g4v"]);
    s[0].types.insert(ty::MX);
    assert_eq!(evaluate(&p, &s, &z.apex, &rp.hc).missing, vec!["bits-qname".to_string()]);
    // B.3 without the Opt-Out flag on the covering record
    let e = ref_auth(&z, &name("c.example."), ty::DS);
    let p = plan(&z, &e, true, true, &rp).unwrap();
    let mut s = pick(&rp, &["35mthgpg", "0p9mhave"]);
    for r in s.iter_mut() {
        r.opt_out = false;
    }
    assert_eq!(evaluate(&p, &s, &z.apex, &rp.hc).missing, vec!["optout-nc".to_string()]);
    // ring closure: t644ebqk -> 0p9mhave covers hashes after t644… and before 0p9m…, nothing else does
    let last = rp.recs.last().unwrap();
    let probe = |r: &Rec, b: u8| ring_cover(&r.owner, &r.next, &Pos::Hash(vec![b; 20]));
    assert_eq!(probe(last, 0xff), Some(CoverHow::WrapHigh));
    assert_eq!(probe(last, 0x00), Some(CoverHow::WrapLow));
    assert_eq!(probe(last, 0x80), None);
    assert_eq!(probe(&rp.recs[0], 0x00), None);
    assert_eq!(probe(&rp.recs[0], 0xff), None);
    // owner and next themselves are not covered; a one-record ring covers everything but its owner
    assert_eq!(ring_cover(&last.owner, &last.next, &last.owner), None);
    assert_eq!(ring_cover(&last.owner, &last.next, &last.next), None);
    assert_eq!(ring_cover(&last.owner, &last.owner, &last.owner), None);
    assert_eq!(ring_cover(&last.owner, &last.owner, &Pos::Hash(vec![0; 20])), Some(CoverHow::WrapLow));
    let nm = |s: &str| Pos::Name(name(s));
    assert_eq!(ring_cover(&nm("a.z."), &nm("b.z."), &nm("q.a.z.")), Some(CoverHow::Inner));
    assert_eq!(ring_cover(&nm("a.z."), &nm("b.z."), &nm("*.z.")), None);
    assert_eq!(ring_cover(&nm("b.z."), &nm("z."), &nm("q.z.")), Some(CoverHow::WrapHigh));
    assert_eq!(ring_cover(&nm("b.z."), &nm("z."), &nm("y.")), Some(CoverHow::WrapLow));

    // ---- the same zone without opt-out: c.example owns an NSEC3, DS absence is a matching record
    let rp2 = RefProofs::build(&z, &RefMode::Nsec3 { salt: salt.clone(), iterations: 12, opt_out: false });
    assert_eq!(rp2.recs.len(), 13);
    let e = ref_auth(&z, &name("c.example."), ty::DS);
    let p = plan(&z, &e, true, false, &rp2).unwrap();
    assert_eq!(p.claim, "nodata:ds");
    assert!(evaluate(&p, &rp2.recs, &z.apex, &rp2.hc).ok);

    // ---- NSEC (RFC 4035 Appendix B on the same names)
    let rn = RefProofs::build(&z, &RefMode::Nsec);
    let pickn = |own: &[&str]| -> Vec<Rec> { rn.recs.iter().filter(|r| own.iter().any(|o| r.owner == Pos::Name(name(o)))).cloned().collect() };
    let casesn: Vec<(&str, u16, &str, Vec<&str>)> = vec![
        ("ml.example.", ty::A, "nxdomain", vec!["c.example.", "example."]),                              // B.2
        ("ns1.example.", ty::MX, "nodata", vec!["ns1.example."]),                                       // B.3
        ("y.w.example.", ty::A, "ent-nodata", vec!["x.w.example."]),
        ("c.example.", ty::DS, "nodata:ds", vec!["c.example."]),                                        // B.5 (DS part)
        ("a.z.w.example.", ty::MX, "wildcard-answer@deep", vec!["x.y.w.example."]),                          // B.6
        ("a.z.w.example.", ty::AAAA, "wildcard-nodata@deep", vec!["x.y.w.example.", "*.w.example."]),        // B.7
    ];
    for (q, t, claim, own) in &casesn {
        let e = ref_auth(&z, &name(q), *t);
        let p = plan(&z, &e, false, false, &rn).unwrap_or_else(|| panic!("no plan for {q}"));
        assert_eq!(p.claim, *claim, "claim for {q}");
        assert!(evaluate(&p, &rn.recs, &z.apex, &rn.hc).ok, "reference NSEC chain cannot prove {q} {claim}");
        let s = pickn(own);
        assert_eq!(s.len(), own.len(), "{q}");
        let v = evaluate(&p, &s, &z.apex, &rn.hc);
        assert!(v.ok, "RFC 4035 App. B proof for {q} judged inadequate: missing {:?}", v.missing);
        for drop in 0..s.len() {
            let mut s2 = s.clone();
            s2.remove(drop);
            assert!(!evaluate(&p, &s2, &z.apex, &rn.hc).ok, "{q} {claim}: proof without {} still adequate", show_rec(&s[drop]));
        }
    }
    // name error two labels below the closest encloser: the NSEC covering the query name's parent
    // is not the one covering the wildcard at the closest encloser
    let mut z2 = Zone::new(&name("z."));
    z2.add(&name("z."), ty::SOA, refzone::rd_soa(&name("ns.y."), &name("h.z."), 1, 2, 3, 4, 5));
    z2.add(&name("z."), ty::NS, refzone::rd_name(&name("ns.y.")));
    z2.add(&name("a.b.z."), ty::A, refzone::rd_a(1));
    let rn2 = RefProofs::build(&z2, &RefMode::Nsec);
    let e = ref_auth(&z2, &name("q.q.b.z."), ty::A);
    let p = plan(&z2, &e, false, false, &rn2).unwrap();
    assert_eq!(p.wc, Some(name("*.b.z.")));
    assert!(evaluate(&p, &rn2.recs, &z2.apex, &rn2.hc).ok);
    let only: Vec<Rec> = rn2.recs.iter().filter(|r| r.owner == Pos::Name(name("a.b.z."))).cloned().collect();
    assert_eq!(evaluate(&p, &only, &z2.apex, &rn2.hc).missing, vec!["cover-wc".to_string()]);
    // wire parsing round trip
    let mut rd = refzone::wire_name(&name("a.b.z."));
    rd.extend_from_slice(&[0, 6, 0x40, 0, 0, 0, 0, 3]);
    let r = parse_nsec(&(name("z."), ty::NSEC, rd)).unwrap();
    assert_eq!((r.owner.clone(), r.next.clone()), (Pos::Name(name("z.")), Pos::Name(name("a.b.z."))));
    assert_eq!(r.types, [1u16, 46, 47].into_iter().collect::<BTreeSet<u16>>());
    let h = nsec3_hash(&name("example."), &salt, 12);
    let mut rd = vec![1, 1, 0, 12, 4, 0xaa, 0xbb, 0xcc, 0xdd, 20];
    rd.extend_from_slice(&nsec3_hash(&name("ns1.example."), &salt, 12));
    rd.extend_from_slice(&[0, 1, 0x22]);
    let owner: Name = vec![base32hex(&h).to_ascii_uppercase().into_bytes(), b"example".to_vec()];
    let r = parse_nsec3(&(owner, ty::NSEC3, rd)).unwrap();
    let hc = HashCache::default();
    assert!(r.opt_out && r.matches(&name("example."), &name("example."), &hc) && !r.matches(&name("example."), &name("other."), &hc));
    assert_eq!(r.next.show(), "2t7b4g4vsa5smi47k61mv5bv1a22bojr");
    assert_eq!(r.types, [2u16, 6].into_iter().collect::<BTreeSet<u16>>());
}
