//! Threaded stress (thorough tier): 8 threads × 3 keys on one `ResponseCache`.
//!
//! Every operation records a call and a return timestamp drawn from one `AtomicU64` that lives
//! outside the code under test. After the threads have joined, the history is checked:
//!  * a `Some` result must be an entry that some thread inserted for that key (unique tags)
//!    [content: mt|unknown_entry], whose insert was called before the get returned
//!    [not_latest: mt|future_read] and which had not been overwritten by an insert that started
//!    after it completed and itself completed before the get was called [not_latest: mt|stale_read]
//!    (i.e. it is the latest completed insert or one concurrent with the get);
//!  * against that insert the single-register model (`refcache`) is evaluated exactly as in the
//!    sequential workload (lifetime, reported TTLs; D7: `now` older than `t0` counts as age 0);
//!  * an error other than NoRecordsFound is never returned.
//! `None` is always admissible here (counted, `mt_none_while_live`).
//! Schedules are not reproducible: `--replay` of a stress witness re-runs rounds with the same
//! parameters until the same signature appears (bounded).

use std::collections::HashMap;
use std::sync::atomic::{AtomicU32, AtomicU64, Ordering::SeqCst};
use std::time::{Duration, Instant};

use serde_json::{json, Value};
use vh::mon::{Ctx, Reporter};
use vh::prng::Rng;

use crate::real::*;
use crate::refcache::{Bounds, Config, Obs, RefCache, Slot, View, NS_PER_S};

const THREADS: usize = 8;
const KEYS: [(usize, u16); 3] = [(0, T_A), (1, T_A), (0, T_TXT)];

enum EvKind {
    Ins { key: usize, view: View, now: u64 },
    Transient,
    Get { key: usize, now: u64, obs: Obs },
}

struct Ev {
    call: u64,
    ret: u64,
    kind: EvKind,
}

fn stress_config(rng: &mut Rng) -> Config {
    let mut c = Config::default();
    match rng.below(4) {
        0 => {}
        1 => c.default = Bounds { pos_min: Some(2), pos_max: Some(4), neg_min: Some(1), neg_max: Some(3) },
        2 => c.by_type.push((T_A, Bounds { pos_min: Some(1), pos_max: Some(3), neg_min: None, neg_max: Some(2) })),
        _ => {
            c.default = Bounds { pos_min: None, pos_max: Some(5), neg_min: None, neg_max: Some(5) };
            c.by_type.push((T_CNAME, Bounds { pos_min: Some(3), pos_max: Some(3), neg_min: None, neg_max: None }));
        }
    }
    c
}

struct RoundResult {
    violations: Vec<(String, String, Value, Value)>,
    gets: u64,
    hits: u64,
    none_live: u64,
    expired_none: u64,
    concurrent_reads: u64,
    inserts: u64,
    stale_reads: u64,
}

fn run_round(cfg: &Config, seed: u64, ops_per_thread: usize) -> Result<RoundResult, String> {
    let base = Instant::now() + Duration::from_secs(3600);
    let real = Real::new(64, cfg, base);
    let queries: Vec<_> = KEYS.iter().map(|(n, t)| mk_query(*n, *t)).collect();
    let clock = AtomicU64::new(1);
    let vnow = AtomicU64::new(0);
    let tags = AtomicU32::new(0);
    let barrier = std::sync::Barrier::new(THREADS);

    let logs: Vec<Result<Vec<Ev>, String>> = std::thread::scope(|sc| {
        let mut hs = vec![];
        for t in 0..THREADS {
            let (real, queries, clock, vnow, tags, barrier) = (&real, &queries, &clock, &vnow, &tags, &barrier);
            let mut rng = Rng::from_parts(seed, "C15/stress-thread", t as u64);
            hs.push(sc.spawn(move || {
                barrier.wait();
                let mut log = Vec::with_capacity(ops_per_thread);
                for _ in 0..ops_per_thread {
                    let key = rng.usize_below(KEYS.len());
                    let q = &queries[key];
                    match rng.weighted(&[50, 24, 8, 8, 10]) {
                        0 => {
                            let now = vnow.load(SeqCst);
                            let at = real.at(now);
                            let call = clock.fetch_add(1, SeqCst);
                            let r = real.cache.get(q, at);
                            let ret = clock.fetch_add(1, SeqCst);
                            log.push(Ev { call, ret, kind: EvKind::Get { key, now, obs: observe(r) } });
                        }
                        k @ (1 | 2) => {
                            let tag = tags.fetch_add(1, SeqCst) + 1;
                            let ttl = rng.range(0, 6) as u32;
                            let view = if k == 1 {
                                let mut slots = vec![];
                                if rng.chance(1, 4) {
                                    slots.push(Slot { slot: "answer", rtype: T_CNAME, ttl: rng.range(0, 6) as u32, tag });
                                }
                                slots.push(Slot { slot: "answer", rtype: KEYS[key].1, ttl, tag });
                                if rng.bool() {
                                    slots.push(Slot { slot: "authority", rtype: T_NS, ttl: rng.range(0, 6) as u32, tag });
                                }
                                View { negative: false, head: tag & 0xffff, slots }
                            } else {
                                View {
                                    negative: true,
                                    head: rng.below(2) as u32,
                                    slots: vec![
                                        Slot { slot: "negative_ttl", rtype: 0, ttl, tag: 0 },
                                        Slot { slot: "soa", rtype: T_SOA, ttl, tag },
                                    ],
                                }
                            };
                            let res = mk_result(q, &view);
                            let now = vnow.load(SeqCst);
                            let at = real.at(now);
                            let call = clock.fetch_add(1, SeqCst);
                            real.cache.insert(q.clone(), res, at);
                            let ret = clock.fetch_add(1, SeqCst);
                            log.push(Ev { call, ret, kind: EvKind::Ins { key, view, now } });
                        }
                        3 => {
                            let kind: &str = *rng.pick(&TRANSIENT_KINDS[..]);
                            let e = mk_transient(kind);
                            let at = real.at(vnow.load(SeqCst));
                            let call = clock.fetch_add(1, SeqCst);
                            real.cache.insert(q.clone(), Err(e), at);
                            let ret = clock.fetch_add(1, SeqCst);
                            log.push(Ev { call, ret, kind: EvKind::Transient });
                        }
                        _ => {
                            let d = match rng.below(10) {
                                0..=4 => rng.range(1, NS_PER_S - 1),
                                5..=7 => rng.range(1, 2) * NS_PER_S,
                                _ => rng.range(3, 6) * NS_PER_S + rng.below(NS_PER_S),
                            };
                            vnow.fetch_add(d, SeqCst);
                        }
                    }
                }
                log
            }));
        }
        hs.into_iter()
            .map(|h| h.join().map_err(|e| {
                e.downcast_ref::<String>().cloned().or_else(|| e.downcast_ref::<&str>().map(|s| s.to_string())).unwrap_or_else(|| "panic".into())
            }))
            .collect()
    });

    let mut evs: Vec<Ev> = vec![];
    for l in logs {
        evs.extend(l?);
    }
    Ok(check_history(cfg, &evs))
}

struct InsRec<'a> {
    call: u64,
    ret: u64,
    now: u64,
    view: &'a View,
}

fn first_tag(v: &View) -> u32 {
    v.slots.iter().map(|s| s.tag).find(|t| *t != 0).unwrap_or(0)
}

fn check_history(cfg: &Config, evs: &[Ev]) -> RoundResult {
    let mut res = RoundResult { violations: vec![], gets: 0, hits: 0, none_live: 0, expired_none: 0, concurrent_reads: 0, inserts: 0, stale_reads: 0 };
    for key in 0..KEYS.len() {
        let qtype = KEYS[key].1;
        let mut ins: Vec<InsRec> = evs
            .iter()
            .filter_map(|e| match &e.kind {
                EvKind::Ins { key: k, view, now } if *k == key => Some(InsRec { call: e.call, ret: e.ret, now: *now, view }),
                _ => None,
            })
            .collect();
        res.inserts += ins.len() as u64;
        // sorted by return time, with prefix maximum of call time
        ins.sort_by_key(|i| i.ret);
        let mut prefix_max_call: Vec<u64> = Vec::with_capacity(ins.len());
        let mut m = 0;
        for i in &ins {
            m = m.max(i.call);
            prefix_max_call.push(m);
        }
        let by_tag: HashMap<u32, usize> = ins.iter().enumerate().map(|(i, r)| (first_tag(r.view), i)).collect();
        for e in evs {
            let EvKind::Get { key: k, now, obs } = &e.kind else { continue };
            if *k != key {
                continue;
            }
            res.gets += 1;
            // latest-started insert among those that completed before the get was called
            let n_before = ins.partition_point(|i| i.ret < e.call);
            let newest_call_before = if n_before > 0 { prefix_max_call[n_before - 1] } else { 0 };
            match obs {
                Obs::None => {
                    // admissible; classify for the record
                    if n_before > 0 {
                        // the unique latest completed insert, if no insert is concurrent with the get
                        let concurrent = ins.iter().any(|i| i.ret >= e.call && i.call <= e.ret);
                        if !concurrent {
                            if let Some(last) = ins[..n_before].iter().find(|i| i.call == newest_call_before) {
                                let overlapped = ins[..n_before].iter().any(|i| i.ret > last.call && i.call != last.call);
                                if !overlapped {
                                    let st = RefCache::make(cfg, qtype, last.view.clone(), last.now);
                                    if *now <= st.soft_deadline() {
                                        res.none_live += 1;
                                    } else if *now > st.hard_deadline() {
                                        res.expired_none += 1;
                                    }
                                }
                            }
                        }
                    }
                }
                Obs::OtherErr(k) => res.violations.push((
                    "transient_visible".into(),
                    format!("mt|{k}"),
                    json!("no error other than NoRecordsFound is ever returned"),
                    obs.to_json(),
                )),
                Obs::Panic(p) => res.violations.push(("panic".into(), format!("mt|{p}"), json!("no panic"), obs.to_json())),
                Obs::Entry(v) => {
                    res.hits += 1;
                    let Some(&ix) = by_tag.get(&first_tag(v)) else {
                        res.violations.push((
                            "content".into(),
                            "mt|unknown_entry".into(),
                            json!("an entry some thread inserted for this key"),
                            obs.to_json(),
                        ));
                        continue;
                    };
                    let i = &ins[ix];
                    if !i.view.same_entry(v) {
                        res.violations.push((
                            "content".into(),
                            "mt|unknown_entry".into(),
                            json!({"inserted_with_this_tag": i.view.to_json()}),
                            obs.to_json(),
                        ));
                        continue;
                    }
                    if i.call > e.ret {
                        res.violations.push((
                            "not_latest".into(),
                            "mt|future_read".into(),
                            json!({"insert_call": i.call, "get_return": e.ret}),
                            obs.to_json(),
                        ));
                        continue;
                    }
                    if i.ret >= e.call {
                        res.concurrent_reads += 1;
                    }
                    // D8 (refcache.rs): the statement does not say that a later result displaces
                    // an entry; a read of a superseded insert is counted and judged on that
                    // insert's own insertion time and L below
                    if newest_call_before > i.ret {
                        res.stale_reads += 1;
                    }
                    let mut m = RefCache::new(cfg.clone(), 1);
                    m.insert_stored(0, qtype, i.view.clone(), i.now);
                    let j = m.judge(0, *now, obs);
                    for f in j.findings {
                        res.violations.push((f.rule.to_string(), format!("mt|{}", f.sig), f.expected, f.observed));
                    }
                }
            }
        }
    }
    res
}

fn case_json(cfg: &Config, seed: u64, ops_per_thread: usize) -> Value {
    json!({"mode": "stress", "config": cfg.to_json(), "round_seed": seed.to_string(), "ops_per_thread": ops_per_thread, "threads": THREADS,
           "note": "schedule is not deterministic; replay re-runs rounds with these parameters"})
}

fn absorb(rep: &mut Reporter, r: RoundResult, cfg: &Config, seed: u64, n: usize) {
    rep.count("mt_rounds");
    rep.evals(r.gets);
    rep.add("mt_gets", r.gets);
    rep.add("mt_hits", r.hits);
    rep.add("mt_inserts", r.inserts);
    rep.add("mt_none_while_live", r.none_live);
    rep.add("mt_expired_none", r.expired_none);
    rep.add("mt_hits_concurrent_with_insert", r.concurrent_reads);
    rep.add("mt_reads_of_superseded_insert", r.stale_reads);
    for (rule, sig, exp, obs) in r.violations {
        rep.violation(&rule, &sig, case_json(cfg, seed, n), exp, obs);
    }
}

pub fn run(ctx: &Ctx, rep: &mut Reporter) {
    let mut rng = ctx.rng("stress");
    let per_thread = 20_000usize;
    let ops = ctx.budget(0, 48_000_000);
    let rounds = (ops / (per_thread * THREADS) as u64).max(1);
    rep.must("mt_hits", 100_000);
    rep.must("mt_hits_concurrent_with_insert", 10);
    for _ in 0..rounds {
        let cfg = stress_config(&mut rng);
        let seed = rng.next_u64();
        match run_round(&cfg, seed, per_thread) {
            Ok(r) => absorb(rep, r, &cfg, seed, per_thread),
            Err(p) => rep.violation("panic", &format!("mt|thread|{}", p.split_whitespace().take(6).collect::<Vec<_>>().join("_")), case_json(&cfg, seed, per_thread), json!("no panic"), json!(p)),
        }
    }
}

pub fn replay(rep: &mut Reporter, c: &Value) {
    let cfg = Config::from_json(&c["config"]);
    let seed: u64 = c["round_seed"].as_str().and_then(|s| s.parse().ok()).unwrap_or(1);
    let n = c["ops_per_thread"].as_u64().unwrap_or(2000) as usize;
    for _ in 0..200 {
        match run_round(&cfg, seed, n) {
            Ok(r) => {
                let hit = !r.violations.is_empty();
                absorb(rep, r, &cfg, seed, n);
                if hit {
                    break;
                }
            }
            Err(p) => {
                rep.violation("panic", &format!("mt|thread|{}", p.split_whitespace().take(6).collect::<Vec<_>>().join("_")), case_json(&cfg, seed, n), json!("no panic"), json!(p));
                break;
            }
        }
    }
}
