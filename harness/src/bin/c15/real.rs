//! Adapter between the plain-typed workload description and the real hickory values:
//! builds `Query` / `Message` / `NetError` / `TtlConfig` from specs, and flattens what
//! `ResponseCache::get` returned back into a plain `View`.

use std::str::FromStr;
use std::sync::Arc;
use std::time::{Duration, Instant};

use hickory_net::{DnsError, ForwardNSData, NetError, NoRecords};
use hickory_proto::op::{DnsResponse, Message, OpCode, Query, ResponseCode};
use hickory_proto::rr::rdata::{A, AAAA, CNAME, MX, NS, PTR, SOA, TXT};
use hickory_proto::rr::{Name, RData, Record, RecordType};
use hickory_proto::ProtoError;
use hickory_resolver::{ResponseCache, TtlConfig};
use serde_json::{json, Value};

use crate::refcache::{Config, Obs, Slot, View};

pub const T_A: u16 = 1;
pub const T_NS: u16 = 2;
pub const T_CNAME: u16 = 5;
pub const T_SOA: u16 = 6;
pub const T_PTR: u16 = 12;
pub const T_MX: u16 = 15;
pub const T_TXT: u16 = 16;
pub const T_AAAA: u16 = 28;

pub const NAMES: [&str; 3] = ["www.example.test.", "api.example.test.", "x.other.test."];

fn tagged_name(tag: u32, kind: &str) -> Name {
    Name::from_ascii(format!("t{tag}.{kind}.test.")).expect("name")
}

fn tag_of_name(n: &Name) -> u32 {
    n.iter()
        .next()
        .and_then(|l| std::str::from_utf8(l).ok())
        .and_then(|s| s.strip_prefix('t'))
        .and_then(|s| s.parse().ok())
        .unwrap_or(u32::MAX)
}

pub fn mk_rdata(rtype: u16, tag: u32) -> RData {
    match rtype {
        T_A => RData::A(A::from(std::net::Ipv4Addr::from(tag))),
        T_AAAA => RData::AAAA(AAAA::from(std::net::Ipv6Addr::from(0x2001_0db8u128 << 96 | tag as u128))),
        T_NS => RData::NS(NS(tagged_name(tag, "ns"))),
        T_CNAME => RData::CNAME(CNAME(tagged_name(tag, "cn"))),
        T_PTR => RData::PTR(PTR(tagged_name(tag, "ptr"))),
        T_MX => RData::MX(MX::new((tag & 0xffff) as u16, tagged_name(tag, "mx"))),
        T_SOA => RData::SOA(mk_soa(tag)),
        _ => RData::TXT(TXT::new(vec![format!("{tag}")])),
    }
}

fn mk_soa(tag: u32) -> SOA {
    SOA::new(
        Name::from_ascii("ns.example.test.").unwrap(),
        Name::from_ascii("hostmaster.example.test.").unwrap(),
        tag,
        7200,
        600,
        86400,
        60,
    )
}

fn tag_of_rdata(d: &RData) -> u32 {
    match d {
        RData::A(a) => u32::from(a.0),
        RData::AAAA(a) => (u128::from(a.0) & 0xffff_ffff) as u32,
        RData::NS(n) => tag_of_name(&n.0),
        RData::CNAME(n) => tag_of_name(&n.0),
        RData::PTR(n) => tag_of_name(&n.0),
        RData::MX(m) => tag_of_name(&m.exchange),
        RData::SOA(s) => s.serial,
        RData::TXT(t) => t
            .txt_data
            .first()
            .and_then(|b| std::str::from_utf8(b).ok())
            .and_then(|s| s.parse().ok())
            .unwrap_or(u32::MAX),
        _ => u32::MAX,
    }
}

pub fn tag_of_record(r: &Record) -> u32 {
    tag_of_rdata(&r.data)
}

pub fn mk_query(name_idx: usize, qtype: u16) -> Query {
    Query::new(Name::from_str(NAMES[name_idx % NAMES.len()]).unwrap(), RecordType::from(qtype))
}

fn mk_record(owner: &Name, s: &Slot) -> Record {
    Record::from_rdata(owner.clone(), s.ttl, mk_rdata(s.rtype, s.tag))
}

pub const TRANSIENT_KINDS: [&str; 9] =
    ["timeout", "io", "busy", "noconn", "message", "msg", "proto", "servfail", "refused"];

pub fn mk_transient(kind: &str) -> NetError {
    match kind {
        "timeout" => NetError::Timeout,
        "io" => NetError::from(std::io::Error::from(std::io::ErrorKind::ConnectionReset)),
        "busy" => NetError::Busy,
        "noconn" => NetError::NoConnections,
        "message" => NetError::Message("c15 transient"),
        "msg" => NetError::Msg("c15 transient".to_string()),
        "proto" => NetError::Proto(ProtoError::from("c15 proto error")),
        "servfail" => NetError::Dns(DnsError::ResponseCode(ResponseCode::ServFail)),
        _ => NetError::Dns(DnsError::ResponseCode(ResponseCode::Refused)),
    }
}

/// Build the `Result<Message, NetError>` that corresponds to a raw `View`.
pub fn mk_result(q: &Query, v: &View) -> Result<Message, NetError> {
    let owner = &q.name;
    if !v.negative {
        let mut m = Message::response(v.head as u16, OpCode::Query);
        m.add_query(q.clone());
        for s in &v.slots {
            let r = mk_record(owner, s);
            match s.slot {
                "answer" => m.add_answer(r),
                "authority" => m.add_authority(r),
                _ => m.add_additional(r),
            };
        }
        Ok(m)
    } else {
        let code = if v.head == 1 { ResponseCode::NXDomain } else { ResponseCode::NoError };
        // The query embedded in the error is not always the query the entry is cached under: an upstream
        // negative response without question section carries `Query::root()` (DnsError::from_response), a
        // CNAME chase ends with the last name asked. The cache key — and the bounds that apply — are those
        // of the query passed to `insert`. Chosen from the view's own content so that a replay agrees.
        let pick = v.slots.iter().map(|s| s.tag as u64 + s.ttl as u64).sum::<u64>() % 4;
        let embedded = match pick {
            0 => Query::root(),
            1 => Query::new(q.name.clone(), if q.query_type == RecordType::TXT { RecordType::A } else { RecordType::TXT }),
            _ => q.clone(),
        };
        let mut nr = NoRecords::new(embedded, code);
        let zone = owner.base_name();
        let mut auth: Vec<Record> = vec![];
        let mut ns: Vec<ForwardNSData> = vec![];
        for s in &v.slots {
            match s.slot {
                "negative_ttl" => nr.negative_ttl = Some(s.ttl),
                "soa" => nr.soa = Some(Box::new(Record::from_rdata(zone.clone(), s.ttl, mk_soa(s.tag)))),
                "neg_authority" => auth.push(mk_record(&zone, s)),
                "ns" => ns.push(ForwardNSData { ns: mk_record(&zone, s), glue: Arc::from(Vec::<Record>::new()) }),
                "glue" => {
                    if let Some(last) = ns.last_mut() {
                        let mut g: Vec<Record> = last.glue.iter().cloned().collect();
                        g.push(mk_record(&tagged_name(s.tag, "ns"), s));
                        last.glue = Arc::from(g);
                    }
                }
                _ => {}
            }
        }
        if !auth.is_empty() {
            nr.authorities = Some(Arc::from(auth));
        }
        if !ns.is_empty() {
            nr.ns = Some(Arc::from(ns));
        }
        Err(NetError::Dns(DnsError::NoRecordsFound(nr)))
    }
}

/// M1 glue: what happens in production between the transport and the cache when an upstream
/// response arrives for `q`, reduced to the calls that decide *what is cached*:
///   transport            `DnsResponse::from_buffer(bytes)`              (udp/tcp/h2/quic client streams)
///   `NameServer::send`   `DnsError::from_response(response)`            (name_server.rs)
///   `NameServerPool`     `Ok(response) if response.truncation` → retried over TCP, finally the
///                        error "received truncated response"            (name_server_pool.rs)
///   recursor `lookup`    `Err(e)` → `cache.insert(q, Err(e), now)`, `Ok(r)` → `cache.insert(q, Ok(message), now)`
///                                                                       (recursor/handle.rs)
/// (`CachingClient` calls `from_response` itself and is observed end to end in m2.rs.)
/// Returns what hickory made of the message (counter name).
pub fn insert_upstream(cache: &ResponseCache, q: &Query, wire: &[u8], now: Instant) -> &'static str {
    let resp = match DnsResponse::from_buffer(wire.to_vec()) {
        Ok(r) => r,
        Err(e) => {
            cache.insert(q.clone(), Err(NetError::from(e)), now);
            return "undecodable";
        }
    };
    match DnsError::from_response(resp) {
        Ok(r) if r.truncation => {
            cache.insert(q.clone(), Err(NetError::from("received truncated response")), now);
            "ok_truncated"
        }
        Ok(r) => {
            cache.insert(q.clone(), Ok(r.into_message()), now);
            "ok_message"
        }
        Err(e) => {
            let kind = match &e {
                DnsError::NoRecordsFound(_) => "no_records_found",
                DnsError::ResponseCode(_) => "response_code",
                _ => "other_dns_error",
            };
            cache.insert(q.clone(), Err(NetError::from(e)), now);
            kind
        }
    }
}

fn slot_of(slot: &'static str, r: &Record) -> Slot {
    Slot { slot, rtype: u16::from(r.record_type()), ttl: r.ttl, tag: tag_of_rdata(&r.data) }
}

/// Flatten what `get` returned.
pub fn observe(r: Option<Result<Message, NetError>>) -> Obs {
    match r {
        None => Obs::None,
        Some(Ok(m)) => {
            let mut slots = vec![];
            for r in &m.answers {
                slots.push(slot_of("answer", r));
            }
            for r in &m.authorities {
                slots.push(slot_of("authority", r));
            }
            for r in &m.additionals {
                slots.push(slot_of("additional", r));
            }
            Obs::Entry(View { negative: false, head: m.metadata.id as u32, slots })
        }
        Some(Err(NetError::Dns(DnsError::NoRecordsFound(nr)))) => {
            let mut slots = vec![];
            if let Some(t) = nr.negative_ttl {
                slots.push(Slot { slot: "negative_ttl", rtype: 0, ttl: t, tag: 0 });
            }
            if let Some(s) = &nr.soa {
                slots.push(Slot { slot: "soa", rtype: T_SOA, ttl: s.ttl, tag: s.data.serial });
            }
            if let Some(a) = &nr.authorities {
                for r in a.iter() {
                    slots.push(slot_of("neg_authority", r));
                }
            }
            if let Some(n) = &nr.ns {
                for f in n.iter() {
                    slots.push(slot_of("ns", &f.ns));
                    for g in f.glue.iter() {
                        slots.push(slot_of("glue", g));
                    }
                }
            }
            let head = match nr.response_code {
                ResponseCode::NXDomain => 1,
                ResponseCode::NoError => 0,
                _ => 99,
            };
            Obs::Entry(View { negative: true, head, slots })
        }
        Some(Err(e)) => Obs::OtherErr(err_kind(&e)),
    }
}

pub fn err_kind(e: &NetError) -> String {
    match e {
        NetError::Timeout => "Timeout".into(),
        NetError::Busy => "Busy".into(),
        NetError::NoConnections => "NoConnections".into(),
        NetError::Io(_) => "Io".into(),
        NetError::Message(_) => "Message".into(),
        NetError::Msg(_) => "Msg".into(),
        NetError::Proto(_) => "Proto".into(),
        NetError::Dns(DnsError::ResponseCode(c)) => format!("ResponseCode({c:?})"),
        NetError::Dns(_) => "Dns(other)".into(),
        _ => "other".into(),
    }
}

/// The real `TtlConfig` for a model `Config`. `TtlBounds` has private fields and no constructor,
/// so it is built the way a user's configuration file builds it: through its `Deserialize` impl
/// (whole seconds).
/// Configurations without per-type overrides are built, for every second one of them (chosen by a
/// hash of the bounds, so a replay makes the same choice), the way an application configures the
/// resolver: `ResolverOpts` fields through `TtlConfig::from_opts`.
pub fn built_via_opts(c: &Config) -> bool {
    c.by_type.is_empty() && vh::prng::fnv64(c.default.to_json().to_string().as_bytes()) % 2 == 0
}

pub fn mk_ttl_config(c: &Config) -> TtlConfig {
    if built_via_opts(c) {
        let mut opts = hickory_resolver::config::ResolverOpts::default();
        opts.positive_min_ttl = c.default.pos_min.map(Duration::from_secs);
        opts.positive_max_ttl = c.default.pos_max.map(Duration::from_secs);
        opts.negative_min_ttl = c.default.neg_min.map(Duration::from_secs);
        opts.negative_max_ttl = c.default.neg_max.map(Duration::from_secs);
        return TtlConfig::from_opts(&opts);
    }
    let b = |b: &crate::refcache::Bounds| {
        let mut m = serde_json::Map::new();
        if let Some(v) = b.pos_min {
            m.insert("positive_min_ttl".into(), json!(v));
        }
        if let Some(v) = b.pos_max {
            m.insert("positive_max_ttl".into(), json!(v));
        }
        if let Some(v) = b.neg_min {
            m.insert("negative_min_ttl".into(), json!(v));
        }
        if let Some(v) = b.neg_max {
            m.insert("negative_max_ttl".into(), json!(v));
        }
        Value::Object(m)
    };
    let mut top = serde_json::Map::new();
    top.insert("default".into(), b(&c.default));
    for (t, bounds) in &c.by_type {
        top.insert(RecordType::from(*t).to_string(), b(bounds));
    }
    serde_json::from_value::<TtlConfig>(Value::Object(top)).expect("TtlConfig from json")
}

/// Self-test of the adapter: the deserialised config must report the bounds the model holds
/// (through the public accessors). Returns a description of the first mismatch.
pub fn config_roundtrip_mismatch(c: &Config, real: &TtlConfig, types: &[u16]) -> Option<String> {
    for &t in types {
        let (mn, mx, _) = c.pos(t);
        let r = real.positive_response_ttl_bounds(RecordType::from(t));
        if *r.start() != Duration::from_secs(mn) || *r.end() != Duration::from_secs(mx) {
            return Some(format!("positive bounds for type {t}: model [{mn},{mx}] real {r:?}"));
        }
        let (mn, mx, _) = c.neg(t);
        let r = real.negative_response_ttl_bounds(RecordType::from(t));
        if *r.start() != Duration::from_secs(mn) || *r.end() != Duration::from_secs(mx) {
            return Some(format!("negative bounds for type {t}: model [{mn},{mx}] real {r:?}"));
        }
    }
    None
}

pub struct Real {
    pub cache: ResponseCache,
    pub base: Instant,
}

impl Real {
    pub fn new(capacity: u64, cfg: &Config, base: Instant) -> Real {
        Real { cache: ResponseCache::new(capacity, mk_ttl_config(cfg)), base }
    }
    pub fn at(&self, off_ns: u64) -> Instant {
        self.base + Duration::from_nanos(off_ns)
    }
}
