//! C16 — only the queried server's matching reply completes a query (UDP); a multiplexed stream
//! routes each response to the pending request with the same id and no other.
//!
//! UDP part. `UdpClientStream::builder(server, SimRuntime)` on tokio's paused clock. Every
//! `bind_udp` yields a scripted socket; on `send_to` the outgoing query is parsed with the
//! independent `refwire` walker (id, 0x20-randomised qname) and the scenario's datagrams for that
//! transmission are built *reactively* from it and delivered at scripted virtual instants. Every
//! datagram carries a unique marker (A rdata) so the completing datagram is identifiable from the
//! raw bytes of the returned response.
//!
//! Oracle, UDP:
//!  * accept   — `Ok(resp)` ⇒ the marker belongs to a datagram that was delivered, whose source ==
//!               the queried addr:port, id == the id of the query sent on that socket, every
//!               question is one that was asked (name compared case-insensitively, type, class)
//!               and, with case randomisation on, with identical letter case; and it was among the
//!               first three datagrams handed out by that socket;
//!  * examined — no socket hands out more than 3 datagrams after its send;
//!  * outcome  — a reference model replays the scripted arrivals in virtual-time order (skip on
//!               source/id/question mismatch, stop with error on the third skip of a transmission
//!               or on a case mismatch, complete on the first matching datagram, time out at the
//!               deadline) and the observed result must agree: Ok with that marker, or Err;
//!  * deadline — the query never outlives its configured timeout (virtual time).
//!
//! Stream part. `DnsMultiplexer::new(ScriptedClientStream, handle)` driven by hand: a seeded
//! interleaving of send_message / poll_next / polling and dropping response streams / virtual
//! time advances, while the script reads the assigned ids from the outbound side and answers in
//! any order, duplicated, with unknown or retired ids, with garbage, never, or closes. A second
//! driver runs the same kind of script through `DnsExchange` with real tasks and wake-ups.
//!
//! Oracle, stream:
//!  * routing  — every response a request receives carries that request's id and a marker that
//!               was issued for that id; a marker surfaces at most once; markers sent to unknown /
//!               retired ids or inside garbage surface nowhere;
//!  * distinct — ids of simultaneously in-flight requests are pairwise distinct;
//!  * delivery — a response sent to the id of a request that is certainly still pending (held, not
//!               timed out) reaches it, in order;
//!  * close    — once the connection has closed (None or Err from the stream) and the multiplexer
//!               has been polled, every still-pending request resolves at once to an error;
//!  * busy     — Busy is returned only when at least max_active requests may still be active, and
//!               is returned whenever at least max_active certainly are.
//!
//! Don't-cares (not judged): datagrams from the right source that do not parse as a DNS response
//! (garbage, short header, QR=0): hickory fails the transmission, skipping would be equally fine —
//! the outcome model stops there and only the accept/examined rules apply; the kind of error
//! returned; a reply with an empty question section is "matching" (⊆ asked); case-flipped names
//! with case randomisation off are matching; number and timing of retransmissions; entropy of ids
//! and ports; IPv4-mapped source addresses; responses beyond 6 unread items per request (channel
//! capacity); a response for an id that was re-used by a later request after the earlier one had
//! finished (counted as id_reuse); timeout error kinds.

#[path = "../c17/simnet.rs"]
mod simnet;

use std::collections::{BTreeMap, BTreeSet, VecDeque};
use std::net::SocketAddr;
use std::pin::Pin;
use std::sync::{Arc, Mutex};
use std::task::{Context, Poll, Waker};
use std::time::Duration;

use futures::stream::{Stream, StreamExt};
use hickory_net::runtime::RuntimeProvider;
use hickory_net::udp::UdpClientStream;
use hickory_net::xfer::{DnsClientStream, DnsExchange, DnsRequestSender, DnsResponseStream, FirstAnswer, StreamReceiver};
use hickory_net::{BufDnsStreamHandle, DnsHandle, DnsMultiplexer, NetError};
use hickory_proto::op::{DnsRequest, DnsRequestOptions, DnsResponse, Query, SerialMessage};
use hickory_proto::rr::{Name, RecordType};
use serde_json::{json, Value};

use simnet::{Delivery, FlagWaker, SendInfo, SimRuntime, SocketLog, UdpNet, VTime};
use vh::mon::{self, Ctx, Reporter};
use vh::prng::{fnv64, Rng};
use vh::refwire::{self, Labels, WHeader};

fn server() -> SocketAddr {
    "192.0.2.1:53".parse().unwrap()
}

fn new_runtime() -> tokio::runtime::Runtime {
    tokio::runtime::Builder::new_current_thread().enable_time().start_paused(true).build().unwrap()
}

fn marker_rdata(m: usize) -> [u8; 4] {
    [10, (m >> 16) as u8, (m >> 8) as u8, m as u8]
}

/// marker of a response, read from its raw bytes with the independent walker
fn marker_of(buf: &[u8]) -> Option<usize> {
    let w = refwire::walk(buf).ok()?;
    let r = w.sections[0].first()?;
    let d = r.rdata(buf);
    if r.rtype == 1 && d.len() == 4 && d[0] == 10 {
        Some(((d[1] as usize) << 16) | ((d[2] as usize) << 8) | d[3] as usize)
    } else {
        None
    }
}

fn err_kind(e: &NetError) -> String {
    let s = format!("{e:?}");
    let end = s.find(|c: char| !(c.is_alphanumeric() || c == '_')).unwrap_or(s.len());
    let k = &s[..end];
    if k == "Msg" || k == "Message" {
        let t = e.to_string();
        if t.contains("attempts exceeded") {
            return "AttemptsExceeded".into();
        }
    }
    if k.is_empty() {
        "Other".into()
    } else {
        k.to_string()
    }
}

// =============================================================================================
// UDP
// =============================================================================================

const KINDS: [&str; 13] = [
    "genuine",
    "wrong-ip",
    "wrong-port",
    "wrong-id",
    "wrong-id-hi",
    "other-qname",
    "other-type",
    "extra-question",
    "extra-question-first",
    "case-flip",
    "zero-questions",
    "garbage",
    "short-header",
];
/// only in the sampled workload
const EXTRA_KINDS: [&str; 5] = ["garbage-wrong-src", "dup-question", "wrong-ip-port", "other-class", "not-a-response"];

#[derive(Clone, Debug)]
struct UdpCase {
    case_rand: bool,
    /// the request is a caller-assembled `Message` handed to `DnsRequest::new` (no
    /// `original_query`, the name goes out exactly as written) instead of `DnsRequest::from_query`
    hand_built: bool,
    qname: String,
    qtype: u16,
    edns: bool,
    max_retries: u8,
    retry_ms: u64,
    timeout_ms: u64,
    /// per transmission (k-th socket that sends): datagrams (kind, gap in ms after the previous one)
    tx: Vec<Vec<(String, u64)>>,
}

impl UdpCase {
    fn to_json(&self) -> Value {
        json!({"mode": "udp", "case_rand": self.case_rand, "hand_built": self.hand_built, "qname": self.qname, "qtype": self.qtype, "edns": self.edns,
               "max_retries": self.max_retries, "retry_ms": self.retry_ms, "timeout_ms": self.timeout_ms,
               "tx": self.tx.iter().map(|t| t.iter().map(|(k, g)| json!([k, g])).collect::<Vec<_>>()).collect::<Vec<_>>()})
    }
    fn from_json(v: &Value) -> UdpCase {
        UdpCase {
            case_rand: v["case_rand"].as_bool().unwrap_or(false),
            hand_built: v["hand_built"].as_bool().unwrap_or(false),
            qname: v["qname"].as_str().unwrap_or("www.example.test.").to_string(),
            qtype: v["qtype"].as_u64().unwrap_or(1) as u16,
            edns: v["edns"].as_bool().unwrap_or(true),
            max_retries: v["max_retries"].as_u64().unwrap_or(1) as u8,
            retry_ms: v["retry_ms"].as_u64().unwrap_or(340),
            timeout_ms: v["timeout_ms"].as_u64().unwrap_or(5000),
            tx: v["tx"]
                .as_array()
                .map(|a| {
                    a.iter()
                        .map(|t| t.as_array().map(|d| d.iter().map(|x| (x[0].as_str().unwrap_or("genuine").to_string(), x[1].as_u64().unwrap_or(0))).collect()).unwrap_or_default())
                        .collect()
                })
                .unwrap_or_default(),
        }
    }
}

type Question = (Labels, u16, u16);

/// what the monitor knows about a datagram it built
#[derive(Clone, Debug)]
struct Dg {
    kind: String,
    socket: usize,
    pos: usize,
    src: SocketAddr,
    parsable: bool,
    id: u16,
    questions: Vec<Question>,
    /// scheduled arrival (virtual, since epoch)
    at: Duration,
}

#[derive(Clone, Debug)]
struct SentQuery {
    id: u16,
    questions: Vec<Question>,
}

fn parse_query(b: &[u8]) -> Option<SentQuery> {
    let w = refwire::walk(b).ok()?;
    Some(SentQuery { id: w.header.id, questions: w.questions.iter().map(|q| (q.name.labels.clone(), q.qtype, q.qclass)).collect() })
}

fn flip_case(l: &Labels) -> Labels {
    // flip the first letter found (and every third letter after it)
    let mut n = 0;
    l.iter()
        .map(|lab| {
            lab.iter()
                .map(|&c| {
                    if c.is_ascii_alphabetic() {
                        n += 1;
                        if n % 3 == 1 {
                            return c ^ 0x20;
                        }
                    }
                    c
                })
                .collect()
        })
        .collect()
}

fn build_response(id: u16, flags: u16, questions: &[Question], owner: &Labels, marker: usize) -> Vec<u8> {
    let mut b = Vec::new();
    refwire::put_header(&mut b, &WHeader { id, flags, qd: questions.len() as u16, an: 1, ns: 0, ar: 0 });
    for (n, t, c) in questions {
        refwire::put_question(&mut b, n, *t, *c);
    }
    refwire::put_record(&mut b, owner, 1, 1, 60, &marker_rdata(marker));
    b
}

/// Build the datagram of `kind` in reaction to `sent`. Returns (bytes, src, monitor record).
fn build_dg(kind: &str, sent: &SentQuery, target: SocketAddr, marker: usize) -> (Vec<u8>, Dg) {
    let asked = sent.questions.first().cloned().unwrap_or((vec![b"x".to_vec()], 1, 1));
    let evil: Question = (refwire::labels_of("evil.example."), asked.1, asked.2);
    let other_ip: SocketAddr = SocketAddr::new("203.0.113.9".parse().unwrap(), target.port());
    let other_port: SocketAddr = SocketAddr::new(target.ip(), 5353);
    let mut src = target;
    let mut id = sent.id;
    let mut flags = 0x8180u16;
    let mut qs: Vec<Question> = vec![asked.clone()];
    let mut raw: Option<Vec<u8>> = None;
    match kind {
        "genuine" => {}
        "wrong-ip" => src = other_ip,
        "wrong-port" => src = other_port,
        "wrong-ip-port" => src = "203.0.113.9:5353".parse().unwrap(),
        "wrong-id" => id = sent.id.wrapping_add(1),
        "wrong-id-hi" => id = sent.id ^ 0x0100,
        "other-qname" => qs = vec![evil.clone()],
        "other-type" => qs = vec![(asked.0.clone(), if asked.1 == 28 { 1 } else { 28 }, asked.2)],
        "other-class" => qs = vec![(asked.0.clone(), asked.1, 3)],
        "extra-question" => qs = vec![asked.clone(), evil.clone()],
        "extra-question-first" => qs = vec![evil.clone(), asked.clone()],
        "dup-question" => qs = vec![asked.clone(), asked.clone()],
        "case-flip" => qs = vec![(flip_case(&asked.0), asked.1, asked.2)],
        "zero-questions" => qs = vec![],
        "not-a-response" => flags = 0x0100,
        "garbage" | "garbage-wrong-src" => {
            // right id in front, then bytes that cannot be a message
            let mut g = sent.id.to_be_bytes().to_vec();
            g.extend_from_slice(&[0x81, 0x80, 0xff, 0xff, 0xff, 0xff, 0xff, 0xff, 0xff, 0xff, 0xc0, 0xff, 0x40, 0x41]);
            g.extend_from_slice(&marker_rdata(marker));
            raw = Some(g);
            if kind == "garbage-wrong-src" {
                src = other_ip;
            }
        }
        "short-header" => {
            let mut g = sent.id.to_be_bytes().to_vec();
            g.extend_from_slice(&[0x81, 0x80, 0, 1, 0]);
            raw = Some(g);
        }
        _ => {}
    }
    let parsable = raw.is_none() && flags & 0x8000 != 0;
    let bytes = raw.unwrap_or_else(|| build_response(id, flags, &qs, &asked.0, marker));
    (bytes, Dg { kind: kind.to_string(), socket: 0, pos: 0, src, parsable, id, questions: qs, at: Duration::ZERO })
}

#[derive(Clone, Copy, Debug, PartialEq, Eq)]
enum Class {
    Skip,
    Accept,
    CaseErr,
    DontCare,
}

/// The statement's matching predicate, evaluated on what the monitor built and what it saw sent.
fn classify(d: &Dg, sent: &SentQuery, target: SocketAddr, case_rand: bool) -> Class {
    if d.src != target {
        return Class::Skip;
    }
    if !d.parsable {
        return Class::DontCare;
    }
    if d.id != sent.id {
        return Class::Skip;
    }
    let ci = |q: &Question| sent.questions.iter().any(|a| refwire::fold(&a.0) == refwire::fold(&q.0) && a.1 == q.1 && a.2 == q.2);
    let exact = |q: &Question| sent.questions.iter().any(|a| a.0 == q.0 && a.1 == q.1 && a.2 == q.2);
    if !d.questions.iter().all(ci) {
        return Class::Skip;
    }
    if case_rand && !d.questions.iter().all(exact) {
        return Class::CaseErr;
    }
    Class::Accept
}

struct UdpMon {
    case: UdpCase,
    dgs: Vec<Dg>,
    sent: Vec<Option<SentQuery>>,
    sends_seen: usize,
}

struct UdpObs {
    result: Result<(Option<usize>, u16, Vec<u8>), String>,
    elapsed: Duration,
    sockets: Vec<SocketLog>,
    dgs: Vec<Dg>,
    sent: Vec<Option<SentQuery>>,
    panic: Option<mon::PanicRecord>,
}

fn run_udp(c: &UdpCase) -> UdpObs {
    let rt = new_runtime();
    let monitor = Arc::new(Mutex::new(UdpMon { case: c.clone(), dgs: Vec::new(), sent: Vec::new(), sends_seen: 0 }));
    let m2 = monitor.clone();
    let out = mon::catch(|| {
        rt.block_on(async move {
            let responder = Box::new(move |info: &SendInfo<'_>| -> Vec<Delivery> {
                let mut m = m2.lock().unwrap();
                let k = m.sends_seen;
                m.sends_seen += 1;
                while m.sent.len() <= info.socket_index {
                    m.sent.push(None);
                }
                let sent = parse_query(info.bytes);
                m.sent[info.socket_index] = sent.clone();
                let Some(sent) = sent else { return vec![] };
                let plan = m.case.tx.get(k).cloned().unwrap_or_default();
                let mut out = Vec::new();
                // arrivals of transmission k are ≡ k+1 (mod 10) ms so that instants never coincide
                // across sockets nor with retry instants / the deadline (all multiples of 10 ms)
                let mut after = Duration::from_millis(1 + (k as u64 % 9));
                for (pos, (kind, gap)) in plan.iter().enumerate() {
                    after += Duration::from_millis(*gap);
                    let tag = m.dgs.len();
                    let (bytes, mut d) = build_dg(kind, &sent, info.target, tag);
                    d.socket = info.socket_index;
                    d.pos = pos;
                    d.at = info.now + after;
                    out.push(Delivery { after, src: d.src, bytes, tag });
                    m.dgs.push(d);
                }
                out
            });
            let net = UdpNet::new(responder);
            let provider = SimRuntime::new(net.clone());
            let mut stream = UdpClientStream::builder(server(), provider)
                .with_timeout(Some(Duration::from_millis(c.timeout_ms)))
                .with_max_retries(c.max_retries)
                .with_retry_interval_floor(c.retry_ms)
                .build();
            let mut opts = DnsRequestOptions::default();
            opts.case_randomization = c.case_rand;
            opts.use_edns = c.edns;
            opts.retry_interval = Duration::from_millis(c.retry_ms);
            let name = Name::from_ascii(&c.qname).unwrap();
            let req = if c.hand_built {
                let mut m = hickory_proto::op::Message::query();
                m.queries.push(Query::new(name, RecordType::from(c.qtype)));
                m.metadata.recursion_desired = true;
                DnsRequest::new(m, opts)
            } else {
                DnsRequest::from_query(Query::new(name, RecordType::from(c.qtype)), opts)
            };
            let t0 = tokio::time::Instant::now();
            let r = stream.send_message(req).first_answer().await;
            let elapsed = t0.elapsed();
            let result = match r {
                Ok(resp) => Ok((marker_of(resp.as_buffer()), resp.id, resp.as_buffer().to_vec())),
                Err(e) => Err(err_kind(&e)),
            };
            drop(stream);
            let sockets = net.0.lock().unwrap().sockets.clone();
            (result, elapsed, sockets)
        })
    });
    let m = monitor.lock().unwrap();
    match out {
        Ok((result, elapsed, sockets)) => UdpObs { result, elapsed, sockets, dgs: m.dgs.clone(), sent: m.sent.clone(), panic: None },
        Err(p) => UdpObs { result: Err("panic".into()), elapsed: Duration::ZERO, sockets: vec![], dgs: m.dgs.clone(), sent: m.sent.clone(), panic: Some(p) },
    }
}

#[derive(Debug, PartialEq)]
enum Expect {
    Ok(usize),
    Err(&'static str),
    Unknown,
}

/// reference model of the outcome: scripted arrivals in virtual-time order
fn udp_model(c: &UdpCase, o: &UdpObs) -> (Expect, Vec<String>) {
    let mut ev: Vec<&Dg> = o.dgs.iter().collect();
    ev.sort_by_key(|d| (d.at, d.socket, d.pos));
    let deadline = Duration::from_millis(c.timeout_ms);
    let mut examined: BTreeMap<usize, Vec<String>> = BTreeMap::new();
    let mut done: BTreeSet<usize> = BTreeSet::new();
    for d in ev {
        if d.at >= deadline {
            break;
        }
        if done.contains(&d.socket) {
            continue;
        }
        let Some(Some(sent)) = o.sent.get(d.socket) else { continue };
        let cl = classify(d, sent, server(), c.case_rand);
        let seen = examined.entry(d.socket).or_default();
        seen.push(d.kind.clone());
        match cl {
            Class::Accept => return (Expect::Ok(o.dgs.iter().position(|x| std::ptr::eq(x, d)).unwrap()), seen.clone()),
            Class::CaseErr => return (Expect::Err("case-mismatch"), seen.clone()),
            Class::DontCare => return (Expect::Unknown, seen.clone()),
            Class::Skip => {
                if seen.len() == 3 {
                    return (Expect::Err("three-skipped"), seen.clone());
                }
            }
        }
    }
    (Expect::Err("timeout"), vec![])
}

fn check_udp(rep: &mut Reporter, c: &UdpCase) {
    let o = run_udp(c);
    rep.eval();
    let case = c.to_json();
    if let Some(p) = &o.panic {
        rep.violation("panic", &format!("udp|{}", p.site()), case, json!("no panic"), json!({"panic": p.message, "at": p.location}));
        return;
    }
    let n_forged = c.tx.iter().flatten().filter(|(k, _)| k != "genuine").count();
    if n_forged >= 1 {
        rep.nontrivial(fnv64(case.to_string().as_bytes()));
        rep.count("udp_nontrivial");
        if c.hand_built {
            rep.count(if c.case_rand { "udp_nontrivial_hand_built/case-rand-on" } else { "udp_nontrivial_hand_built/case-rand-off" });
        }
    }
    rep.add("udp_sockets", o.sockets.len() as u64);
    rep.max("udp_max_transmissions", o.sockets.len() as f64);

    // ---- examined: ≤ 3 datagrams per transmission
    for (i, s) in o.sockets.iter().enumerate() {
        rep.max("udp_max_recv_per_socket", s.recvs.len() as f64);
        rep.count(&format!("udp_recv_per_socket/{}", s.recvs.len()));
        if s.recvs.len() > 3 {
            let kinds: Vec<&str> = s.recvs.iter().map(|(_, t)| o.dgs[*t].kind.as_str()).collect();
            rep.violation("examined", &format!("recv>{}", 3), case.clone(), json!("≤ 3 datagrams handed out per transmission"), json!({"socket": i, "received": kinds}));
        }
        for (n, (_, tag)) in s.recvs.iter().enumerate() {
            if n < 3 {
                rep.count(&format!("udp_examined/{}@{}", o.dgs[*tag].kind, n + 1));
            }
        }
    }

    // ---- accept
    let mut accepted: Option<usize> = None;
    match &o.result {
        Ok((marker, id, _buf)) => {
            rep.count("udp_ok");
            match marker.and_then(|m| o.dgs.get(m).map(|d| (m, d))) {
                None => {
                    rep.violation("accept", "unknown-marker", case.clone(), json!("the response is one of the delivered datagrams"), json!({"marker": marker, "id": id}));
                }
                Some((m, d)) => {
                    accepted = Some(m);
                    let sock = &o.sockets[d.socket];
                    let order = sock.recvs.iter().position(|(_, t)| *t == m);
                    let sent = o.sent.get(d.socket).cloned().flatten();
                    let cl = sent.as_ref().map(|s| classify(d, s, server(), c.case_rand));
                    rep.count(&format!("udp_accepted/{}", d.kind));
                    if let Some(p) = order {
                        rep.count(&format!("udp_accepted_at/{}", p + 1));
                    }
                    if cl != Some(Class::Accept) {
                        let why = match cl {
                            Some(Class::CaseErr) => "case",
                            _ if d.src != server() => "source",
                            _ if Some(d.id) != sent.as_ref().map(|s| s.id) => "id",
                            _ if !d.parsable => "unparsable",
                            _ => "question",
                        };
                        rep.violation(
                            "accept",
                            &format!("{}@{}|{}", d.kind, order.map(|p| p + 1).unwrap_or(0), why),
                            case.clone(),
                            json!("Ok only with a datagram from the queried addr:port, with the query id and only asked questions (same case under 0x20)"),
                            json!({"accepted_kind": d.kind, "src": d.src.to_string(), "id": d.id, "query_id": sent.as_ref().map(|s| s.id), "position_on_socket": order}),
                        );
                    } else if order.map(|p| p >= 3).unwrap_or(true) {
                        rep.violation(
                            "accept",
                            &format!("{}@{}|beyond-three", d.kind, order.map(|p| p + 1).unwrap_or(0)),
                            case.clone(),
                            json!("a transmission ends in an error after three non-matching datagrams"),
                            json!({"accepted_kind": d.kind, "position_on_socket": order}),
                        );
                    }
                    if Some(*id) != sent.as_ref().map(|s| s.id) {
                        rep.violation("accept", "response-id", case.clone(), json!("response id == query id"), json!({"id": id}));
                    }
                }
            }
        }
        Err(k) => {
            rep.count(&format!("udp_err/{k}"));
        }
    }

    // ---- outcome model
    let (exp, seen) = udp_model(c, &o);
    let obs_s = match (&o.result, accepted) {
        (Ok(_), Some(m)) => format!("ok:{}", o.dgs[m].kind),
        (Ok(_), None) => "ok:?".to_string(),
        (Err(k), _) => format!("err:{k}"),
    };
    match exp {
        Expect::Unknown => rep.count("udp_model_dontcare"),
        Expect::Ok(m) => {
            rep.count("udp_model_ok");
            if accepted != Some(m) {
                // signature: expected → observed (with the kind accepted instead), and for a lost
                // reply the kind of the datagram that should have been skipped just before it
                let before = if o.result.is_err() { seen.iter().rev().nth(1).map(|s| s.as_str()).unwrap_or("first") } else { "-" };
                let obs_sig = if o.result.is_err() { "err" } else { obs_s.as_str() };
                rep.violation(
                    "outcome",
                    &format!("ok:{}->{}|after:{}", o.dgs[m].kind, obs_sig, before),
                    case.clone(),
                    json!({"ok_with": o.dgs[m].kind, "examined_before": seen}),
                    json!(obs_s),
                );
            }
        }
        Expect::Err(why) => {
            rep.count(&format!("udp_model_err/{why}"));
            if o.result.is_ok() {
                rep.violation("outcome", &format!("err:{why}->{obs_s}"), case.clone(), json!({"err": why, "examined": seen}), json!(obs_s));
            }
            if why == "timeout" && o.result.is_err() {
                rep.count("udp_timeouts");
                if o.elapsed != Duration::from_millis(c.timeout_ms) {
                    rep.count("udp_timeout_not_at_deadline");
                }
            }
        }
    }

    // ---- deadline
    if o.elapsed > Duration::from_millis(c.timeout_ms + 1) {
        rep.violation("deadline", "udp", case.clone(), json!({"timeout_ms": c.timeout_ms}), json!({"elapsed_ms": o.elapsed.as_millis() as u64}));
    }
    rep.sample(|| json!({"case": case, "result": obs_s, "elapsed_ms": o.elapsed.as_millis() as u64, "transmissions": o.sockets.len()}));
}

fn udp_workloads(ctx: &Ctx, rep: &mut Reporter) {
    // ---- U1: every arrival order of ≤ 4 datagrams over the 13 kinds, case randomisation on/off
    {
        let mut r = ctx.rng("u1");
        let k = KINDS.len() as u64;
        let mut idx = 0u64;
        let reps = if ctx.is_thorough() { 6 } else { 1 };
        for len in 0..=4u32 {
            for code in 0..k.pow(len) {
                for case_rand in [false, true] {
                    idx += 1;
                    if !ctx.mine(idx) {
                        continue;
                    }
                  for _ in 0..reps {
                    let mut cc = code;
                    let mut seq = Vec::new();
                    for _ in 0..len {
                        let gap = *r.pick(&[0u64, 0, 10, 50]);
                        seq.push((KINDS[(cc % k) as usize].to_string(), gap));
                        cc /= k;
                    }
                    let c = UdpCase {
                        case_rand,
                        hand_built: false,
                        qname: r.pick(&["www.example.test.", "a.b.", "MiXed.Case.Example.", "x1.y2.z3.test."]).to_string(),
                        qtype: *r.pick(&[1u16, 28, 16]),
                        edns: r.bool(),
                        max_retries: 1,
                        retry_ms: 340,
                        timeout_ms: 1000,
                        tx: vec![seq],
                    };
                    check_udp(rep, &c);
                    rep.count("u1_cases");
                    if idx % 3 == 0 {
                        // the same schedule once more with a caller-assembled request
                        let mut h = c.clone();
                        h.hand_built = true;
                        check_udp(rep, &h);
                        rep.count("u1_cases_hand_built");
                    }
                  }
                }
            }
        }
    }
    // ---- U2: sampled: longer scripts, retransmissions, larger gaps, extra kinds
    {
        let mut r = ctx.rng("u2");
        let all: Vec<&str> = KINDS.iter().chain(EXTRA_KINDS.iter()).copied().collect();
        for _ in 0..ctx.budget(400_000, 6_000_000) {
            let max_retries = *r.pick(&[1u8, 2, 3, 3]);
            let retry_ms = *r.pick(&[340u64, 500]);
            let timeout_ms = *r.pick(&[700u64, 1200, 5000]);
            let ntx = r.urange(1, max_retries as usize);
            let mut tx = Vec::new();
            for _ in 0..ntx {
                let n = r.weighted(&[2, 3, 3, 3, 2, 1, 1, 1]);
                let forged_only = r.chance(1, 3);
                let mut seq = Vec::new();
                for _ in 0..n {
                    let kind = if !forged_only && r.chance(1, 4) { "genuine" } else { *r.pick(&all[1..]) };
                    let gap = *r.pick(&[0u64, 0, 10, 50, 200, 400, 1000]);
                    seq.push((kind.to_string(), gap));
                }
                tx.push(seq);
            }
            let c = UdpCase {
                case_rand: r.bool(),
                hand_built: r.chance(1, 4),
                qname: r.pick(&["www.example.test.", "a.b.", "MiXed.Case.Example.", "x1.y2.z3.test.", "a-rather-long-label-to-randomise.sub.domain.example.org."]).to_string(),
                qtype: *r.pick(&[1u16, 28, 16, 255]),
                edns: r.bool(),
                max_retries,
                retry_ms,
                timeout_ms,
                tx,
            };
            check_udp(rep, &c);
            rep.count("u2_cases");
        }
    }
}

// =============================================================================================
// stream / multiplexer
// =============================================================================================

enum InEv {
    Msg(Vec<u8>),
    Close,
    Fail,
}

struct ConnState {
    rx: StreamReceiver,
    outbound: Vec<Vec<u8>>,
    inbound: VecDeque<InEv>,
    waker: Option<Waker>,
    closed: bool,
    delivered_msgs: usize,
    /// messages handed out since the stream last returned Pending, and the longest such run
    run_len: usize,
    max_run: usize,
}

impl ConnState {
    fn drain_outbound(&mut self) {
        let w = futures::task::noop_waker();
        let mut cx = Context::from_waker(&w);
        while let Poll::Ready(Some(m)) = self.rx.poll_next_unpin(&mut cx) {
            self.outbound.push(m.into_parts().0);
        }
    }
    fn push(&mut self, ev: InEv) {
        self.inbound.push_back(ev);
        if let Some(w) = self.waker.take() {
            w.wake();
        }
    }
}

struct ScriptedClientStream(Arc<Mutex<ConnState>>);

impl Stream for ScriptedClientStream {
    type Item = Result<SerialMessage, NetError>;
    fn poll_next(self: Pin<&mut Self>, cx: &mut Context<'_>) -> Poll<Option<Self::Item>> {
        let mut s = self.0.lock().unwrap();
        s.drain_outbound();
        if s.closed {
            return Poll::Ready(None);
        }
        match s.inbound.pop_front() {
            Some(InEv::Msg(b)) => {
                s.delivered_msgs += 1;
                s.run_len += 1;
                s.max_run = s.max_run.max(s.run_len);
                Poll::Ready(Some(Ok(SerialMessage::new(b, server()))))
            }
            Some(InEv::Close) => {
                s.closed = true;
                Poll::Ready(None)
            }
            Some(InEv::Fail) => {
                s.closed = true;
                Poll::Ready(Some(Err(NetError::from(std::io::Error::new(std::io::ErrorKind::ConnectionReset, "simnet: reset")))))
            }
            None => {
                s.run_len = 0;
                s.waker = Some(cx.waker().clone());
                Poll::Pending
            }
        }
    }
}

impl DnsClientStream for ScriptedClientStream {
    type Time = VTime;
    fn name_server_addr(&self) -> SocketAddr {
        server()
    }
}

fn req_labels(idx: usize) -> Labels {
    vec![format!("r{idx}").into_bytes(), b"c16".to_vec(), b"test".to_vec()]
}

fn make_request(idx: usize) -> DnsRequest {
    let name = Name::from_ascii(format!("r{idx}.c16.test.")).unwrap();
    let mut o = DnsRequestOptions::default();
    o.use_edns = idx % 2 == 0;
    DnsRequest::from_query(Query::new(name, RecordType::A), o)
}

fn stream_response(id: u16, idx: usize, marker: usize) -> Vec<u8> {
    let q: Question = (req_labels(idx), 1, 1);
    build_response(id, 0x8180, &[q.clone()], &q.0, marker)
}

/// hand-driven schedule. Ops (JSON arrays): ["send"], ["answer", j], ["unknown", salt], ["retired", j],
/// ["garbage"], ["pollmux"], ["pollreq", j], ["drop", j], ["advance", ms], ["close"], ["fail"]
#[derive(Clone, Debug)]
struct MuxCase {
    max_active: usize,
    timeout_ms: u64,
    ops: Vec<Value>,
}

impl MuxCase {
    fn to_json(&self) -> Value {
        json!({"mode": "mux", "max_active": self.max_active, "timeout_ms": self.timeout_ms, "ops": self.ops})
    }
    fn from_json(v: &Value) -> MuxCase {
        MuxCase { max_active: v["max_active"].as_u64().unwrap_or(32) as usize, timeout_ms: v["timeout_ms"].as_u64().unwrap_or(5000), ops: v["ops"].as_array().cloned().unwrap_or_default() }
    }
}

struct Req {
    id: Option<u16>,
    accepted: bool,
    stream: Option<DnsResponseStream>,
    sent_at: Duration,
    /// first poll of the multiplexer after the send: hickory creates the request's timeout future
    /// lazily, so its timer starts no earlier than `sent_at` and no later than `armed_at`
    armed_at: Option<Duration>,
    /// Ok markers / errors received, in order
    got_ok: Vec<usize>,
    got_err: Vec<String>,
    ended: bool,
    dropped: bool,
    /// markers that must arrive (sent while certainly pending) / may arrive
    must: Vec<usize>,
    may: Vec<usize>,
    /// a PollMux happened after this request was dropped or had timed out
    certainly_removed: bool,
    unresolved_at_close: bool,
}

impl Req {
    fn resolved(&self) -> bool {
        !self.got_ok.is_empty() || !self.got_err.is_empty() || self.ended
    }
}

#[derive(Clone, Debug)]
struct MarkerInfo {
    /// id it was sent to
    id: u16,
    /// request it was meant for (None: unknown / retired / garbage)
    target: Option<usize>,
    kind: &'static str,
}

struct Viol {
    rule: &'static str,
    sig: String,
    expected: Value,
    observed: Value,
}

struct MuxRun {
    viols: Vec<Viol>,
    counts: BTreeMap<String, u64>,
    max_in_flight: usize,
}

fn poll_req(rq: &mut Req, j: usize, markers: &[MarkerInfo], surfaced: &mut BTreeMap<usize, usize>, run: &mut MuxRun, cx: &mut Context<'_>) -> bool {
    // returns true if the poll was Ready
    let Some(s) = rq.stream.as_mut() else { return true };
    match s.poll_next_unpin(cx) {
        Poll::Pending => false,
        Poll::Ready(None) => {
            rq.ended = true;
            true
        }
        Poll::Ready(Some(Err(e))) => {
            rq.got_err.push(err_kind(&e));
            true
        }
        Poll::Ready(Some(Ok(resp))) => {
            judge_response(rq, j, &resp, markers, surfaced, run);
            true
        }
    }
}

fn judge_response(rq: &mut Req, j: usize, resp: &DnsResponse, markers: &[MarkerInfo], surfaced: &mut BTreeMap<usize, usize>, run: &mut MuxRun) {
    let m = marker_of(resp.as_buffer());
    let wire_id = refwire::read_header(resp.as_buffer()).map(|h| h.id).ok();
    *run.counts.entry("mux_responses_received".into()).or_default() += 1;
    let Some(m) = m.filter(|m| *m < markers.len()) else {
        run.viols.push(Viol { rule: "routing", sig: "unknown-marker".into(), expected: json!("a response that the script sent"), observed: json!({"request": j, "id": wire_id}) });
        return;
    };
    let info = &markers[m];
    if let Some(prev) = surfaced.insert(m, j) {
        run.viols.push(Viol { rule: "routing", sig: format!("duplicated|{}", info.kind), expected: json!("each response surfaces at most once"), observed: json!({"marker": m, "first_request": prev, "again_request": j}) });
    }
    if Some(info.id) != rq.id || wire_id != rq.id || resp.id != info.id {
        let sig = if rq.id.map(|x| x & 0xff) == Some(info.id & 0xff) { "wrong-id|low-byte-equal" } else if rq.id.map(|x| x >> 8) == Some(info.id >> 8) { "wrong-id|high-byte-equal" } else { "wrong-id|other" };
        run.viols.push(Viol {
            rule: "routing",
            sig: format!("{sig}|{}", info.kind),
            expected: json!({"request": j, "request_id": rq.id}),
            observed: json!({"response_id": info.id, "marker": m, "meant_for": info.target, "kind": info.kind}),
        });
        return;
    }
    match info.target {
        Some(t) if t == j => rq.got_ok.push(m),
        _ => {
            // Same id, but the response was not written for this request: the id was re-used over
            // time (an earlier request had it), or a later request happened to be assigned the id
            // an "unknown" response had been given before that request existed (unknown ids are
            // chosen outside every id assigned so far). Routing by id is what the statement
            // promises, so this is correct behaviour; it is counted and the marker is optional.
            *run.counts.entry(format!("mux_id_coincidence/{}", info.kind)).or_default() += 1;
            rq.got_ok.push(m);
            rq.may.push(m);
        }
    }
}

fn run_mux(c: &MuxCase) -> Result<MuxRun, mon::PanicRecord> {
    let rt = new_runtime();
    let timeout = Duration::from_millis(c.timeout_ms);
    mon::catch(|| {
        rt.block_on(async {
            let mut run = MuxRun { viols: Vec::new(), counts: BTreeMap::new(), max_in_flight: 0 };
            let epoch = tokio::time::Instant::now();
            let (handle, rx) = BufDnsStreamHandle::new(server());
            let conn = Arc::new(Mutex::new(ConnState { rx, outbound: Vec::new(), inbound: VecDeque::new(), waker: None, closed: false, delivered_msgs: 0, run_len: 0, max_run: 0 }));
            let mut mux = DnsMultiplexer::new(ScriptedClientStream(conn.clone()), handle).with_timeout(timeout).with_max_active_requests(c.max_active);
            let (_flag, waker) = FlagWaker::new();
            let mut cx = Context::from_waker(&waker);
            let mut reqs: Vec<Req> = Vec::new();
            let mut markers: Vec<MarkerInfo> = Vec::new();
            let mut surfaced: BTreeMap<usize, usize> = BTreeMap::new();
            let mut ever_ids: BTreeSet<u16> = BTreeSet::new();
            let mut outbound_seen = 0usize;
            let mut closed = false;
            // responses queued on the connection and not yet read by the multiplexer: (marker)
            let mut queued: VecDeque<Option<usize>> = VecDeque::new();
            let mut bump = |run: &mut MuxRun, k: &str| *run.counts.entry(k.to_string()).or_default() += 1;

            for op in &c.ops {
                let now = tokio::time::Instant::now() - epoch;
                let name = op[0].as_str().unwrap_or("");
                let j = op[1].as_u64().map(|x| x as usize);
                match name {
                    "send" if !closed => {
                        let idx = reqs.len();
                        // bounds on the multiplexer's active count, from the driver's own actions
                        let upper = reqs.iter().filter(|r| r.accepted && !r.certainly_removed).count();
                        let lower = reqs.iter().filter(|r| r.accepted && !r.dropped && !r.certainly_removed && now < r.sent_at + timeout).count();
                        let in_flight: Vec<u16> = reqs.iter().filter(|r| r.accepted && !r.dropped && !r.resolved() && now < r.sent_at + timeout).filter_map(|r| r.id).collect();
                        let stream = mux.send_message(make_request(idx));
                        let mut rq = Req { id: None, accepted: false, stream: Some(stream), sent_at: now, armed_at: None, got_ok: vec![], got_err: vec![], ended: false, dropped: false, must: vec![], may: vec![], certainly_removed: false, unresolved_at_close: false };
                        let mut cs = conn.lock().unwrap();
                        cs.drain_outbound();
                        if cs.outbound.len() > outbound_seen {
                            let b = cs.outbound[outbound_seen].clone();
                            outbound_seen += 1;
                            drop(cs);
                            match parse_query(&b) {
                                Some(q) if q.questions.first().map(|x| &x.0) == Some(&req_labels(idx)) => {
                                    rq.id = Some(q.id);
                                    rq.accepted = true;
                                    bump(&mut run, "mux_requests_accepted");
                                    if in_flight.contains(&q.id) {
                                        run.viols.push(Viol { rule: "distinct", sig: "id-collision".into(), expected: json!("ids of in-flight requests pairwise distinct"), observed: json!({"id": q.id, "in_flight": in_flight.len()}) });
                                    }
                                    ever_ids.insert(q.id);
                                    run.max_in_flight = run.max_in_flight.max(in_flight.len() + 1);
                                    if in_flight.len() + 1 >= 2 {
                                        bump(&mut run, "mux_sends_with_2plus_in_flight");
                                    }
                                    if lower >= c.max_active {
                                        run.viols.push(Viol { rule: "busy", sig: "accepted-at-max".into(), expected: json!("Busy when max_active requests are certainly active"), observed: json!({"certainly_active": lower, "max_active": c.max_active}) });
                                    }
                                }
                                _ => run.viols.push(Viol { rule: "routing", sig: "outbound-mismatch".into(), expected: json!("the request just sent appears on the outbound side"), observed: json!(mon::hex(&b)) }),
                            }
                        } else {
                            drop(cs);
                            // not sent: the stream must hold an immediate error
                            let _ = poll_req(&mut rq, idx, &markers, &mut surfaced, &mut run, &mut cx);
                            let k = rq.got_err.first().cloned().unwrap_or_else(|| "none".into());
                            bump(&mut run, &format!("mux_send_refused/{k}"));
                            if k == "Busy" && upper < c.max_active {
                                run.viols.push(Viol { rule: "busy", sig: "busy-below-max".into(), expected: json!("Busy only when max_active requests may be active"), observed: json!({"possibly_active": upper, "max_active": c.max_active}) });
                            }
                        }
                        reqs.push(rq);
                    }
                    "answer" | "retired" if !closed => {
                        let Some(j) = j.filter(|j| *j < reqs.len()) else { continue };
                        let Some(id) = reqs[j].id else { continue };
                        let want_retired = name == "retired";
                        if want_retired != reqs[j].certainly_removed {
                            continue;
                        }
                        // a later live request re-using the id makes this an ordinary answer to it
                        let m = markers.len();
                        markers.push(MarkerInfo { id, target: Some(j), kind: if want_retired { "retired" } else { "answer" } });
                        conn.lock().unwrap().push(InEv::Msg(stream_response(id, j, m)));
                        queued.push_back(Some(m));
                        bump(&mut run, if want_retired { "mux_sent_retired" } else { "mux_sent_answer" });
                    }
                    "unknown" if !closed => {
                        let mut id = (op[1].as_u64().unwrap_or(7) as u16).wrapping_mul(40503).wrapping_add(17);
                        while ever_ids.contains(&id) {
                            id = id.wrapping_add(1);
                        }
                        // variants that share the low / high byte with a live id
                        if let Some(live) = reqs.iter().rev().find(|r| r.accepted && !r.dropped && !r.resolved()).and_then(|r| r.id) {
                            let cand = match op[1].as_u64().unwrap_or(0) % 3 {
                                0 => (id & 0xff00) | (live & 0x00ff),
                                1 => (live & 0xff00) | (id & 0x00ff),
                                _ => id,
                            };
                            if !ever_ids.contains(&cand) {
                                id = cand;
                            }
                        }
                        let m = markers.len();
                        markers.push(MarkerInfo { id, target: None, kind: "unknown" });
                        conn.lock().unwrap().push(InEv::Msg(stream_response(id, 9999, m)));
                        queued.push_back(None);
                        bump(&mut run, "mux_sent_unknown");
                    }
                    "garbage" if !closed => {
                        let m = markers.len();
                        markers.push(MarkerInfo { id: 0, target: None, kind: "garbage" });
                        let mut g = reqs.iter().rev().find_map(|r| r.id).unwrap_or(1).to_be_bytes().to_vec();
                        g.extend_from_slice(&[0x81, 0x80, 0xff, 0xff, 0xff, 0xff, 0xff, 0xff, 0xff, 0xff, 0xc0, 0xff]);
                        g.extend_from_slice(&marker_rdata(m));
                        conn.lock().unwrap().push(InEv::Msg(g));
                        queued.push_back(None);
                        bump(&mut run, "mux_sent_garbage");
                    }
                    "pollmux" => {
                        // what is certainly / possibly pending when the queued responses are read
                        for &q in queued.iter() {
                            let Some(m) = q else { continue };
                            let t = markers[m].target.unwrap();
                            let r = &mut reqs[t];
                            if r.dropped || r.certainly_removed || closed {
                                continue;
                            }
                            if now < r.sent_at + timeout {
                                if r.must.len() + r.may.len() - r.got_ok.len().min(r.must.len() + r.may.len()) < 6 {
                                    r.must.push(m);
                                } else {
                                    r.may.push(m);
                                }
                            } else {
                                r.may.push(m);
                            }
                        }
                        queued.clear();
                        let was_closed = closed;
                        let res = mux.poll_next_unpin(&mut cx);
                        bump(&mut run, "mux_polls");
                        for r in reqs.iter_mut() {
                            if !r.accepted {
                                continue;
                            }
                            let armed = *r.armed_at.get_or_insert(now);
                            if r.dropped || now >= armed + timeout {
                                r.certainly_removed = true;
                            }
                        }
                        let cs_closed = conn.lock().unwrap().closed;
                        if cs_closed && !was_closed {
                            closed = true;
                            bump(&mut run, "mux_closes");
                            if !matches!(res, Poll::Ready(None)) {
                                run.viols.push(Viol { rule: "close", sig: "mux-not-ended".into(), expected: json!("multiplexer ends when the connection closed"), observed: json!(format!("{res:?}")) });
                            }
                            // every still-pending request must now resolve at once
                            let mut pending = 0;
                            for (j, r) in reqs.iter_mut().enumerate() {
                                if !r.accepted || r.dropped || r.stream.is_none() {
                                    continue;
                                }
                                // drain what is buffered
                                let had = r.resolved();
                                let mut ready = true;
                                for _ in 0..16 {
                                    ready = poll_req(r, j, &markers, &mut surfaced, &mut run, &mut cx);
                                    if !ready || r.ended || !r.got_err.is_empty() {
                                        break;
                                    }
                                }
                                if !had {
                                    pending += 1;
                                }
                                if !ready && r.got_err.is_empty() && !r.ended {
                                    if r.got_ok.is_empty() {
                                        r.unresolved_at_close = true;
                                        run.viols.push(Viol { rule: "close", sig: "pending-after-close".into(), expected: json!("every pending request fails when the connection closes"), observed: json!({"request": j, "state": "still pending"}) });
                                    }
                                } else if r.got_ok.is_empty() && r.got_err.is_empty() && r.ended {
                                    // None without an item = NetError::Timeout through first_answer(): an error
                                    bump(&mut run, "mux_close_resolved_by_end");
                                }
                            }
                            if pending > 0 {
                                bump(&mut run, "mux_close_with_pending");
                            }
                            *run.counts.entry("mux_pending_at_close".into()).or_default() += pending;
                        } else if !closed && !matches!(res, Poll::Pending) {
                            run.viols.push(Viol { rule: "routing", sig: "mux-ended-early".into(), expected: json!("Pending while the connection is open"), observed: json!(format!("{res:?}")) });
                        }
                    }
                    "pollreq" => {
                        let Some(j) = j.filter(|j| *j < reqs.len()) else { continue };
                        let r = &mut reqs[j];
                        if r.stream.is_some() && !r.ended && r.got_err.is_empty() {
                            poll_req(r, j, &markers, &mut surfaced, &mut run, &mut cx);
                        }
                    }
                    "drop" => {
                        let Some(j) = j.filter(|j| *j < reqs.len()) else { continue };
                        let r = &mut reqs[j];
                        if r.stream.take().is_some() {
                            r.dropped = true;
                            bump(&mut run, "mux_dropped_requests");
                        }
                    }
                    "advance" => {
                        tokio::time::advance(Duration::from_millis(op[1].as_u64().unwrap_or(100))).await;
                    }
                    "close" | "fail" if !closed => {
                        let mut cs = conn.lock().unwrap();
                        if !cs.inbound.iter().any(|e| matches!(e, InEv::Close | InEv::Fail)) {
                            cs.push(if name == "close" { InEv::Close } else { InEv::Fail });
                        }
                    }
                    _ => {}
                }
            }

            // ---- quiescence: read everything that is buffered, then judge delivery
            for (j, r) in reqs.iter_mut().enumerate() {
                if r.stream.is_none() {
                    continue;
                }
                for _ in 0..24 {
                    if r.ended || !r.got_err.is_empty() {
                        break;
                    }
                    if !poll_req(r, j, &markers, &mut surfaced, &mut run, &mut cx) {
                        break;
                    }
                }
            }
            for (j, r) in reqs.iter().enumerate() {
                if !r.accepted || r.dropped {
                    continue;
                }
                // every `must` marker arrives, in order; anything else received is in `may`
                let mut mi = 0;
                let mut bad_extra = None;
                for g in &r.got_ok {
                    if mi < r.must.len() && r.must[mi] == *g {
                        mi += 1;
                    } else if !r.may.contains(g) {
                        bad_extra = Some(*g);
                    }
                }
                // responses still queued (never read because no pollmux followed) are not owed
                if mi < r.must.len() && !r.unresolved_at_close {
                    run.viols.push(Viol {
                        rule: "delivery",
                        sig: format!("missing|{}", if r.got_ok.is_empty() { "none-arrived" } else { "some-arrived" }),
                        expected: json!({"request": j, "markers": r.must}),
                        observed: json!({"received": r.got_ok, "errors": r.got_err, "ended": r.ended}),
                    });
                }
                if let Some(g) = bad_extra {
                    run.viols.push(Viol { rule: "delivery", sig: "unexpected|order-or-stale".into(), expected: json!({"request": j, "must": r.must, "may": r.may}), observed: json!({"received": r.got_ok, "offending": g}) });
                }
                if !r.got_ok.is_empty() {
                    bump(&mut run, "mux_requests_answered");
                }
                if r.got_ok.len() >= 2 {
                    bump(&mut run, "mux_requests_with_duplicates");
                }
                if r.got_ok.is_empty() && (r.ended || !r.got_err.is_empty()) {
                    bump(&mut run, &format!("mux_failed/{}", r.got_err.first().map(|s| s.as_str()).unwrap_or("End")));
                }
            }
            drop(mux);
            run
        })
    })
}

fn check_mux(rep: &mut Reporter, c: &MuxCase) {
    rep.eval();
    let case = c.to_json();
    match run_mux(c) {
        Err(p) => rep.violation("panic", &format!("mux|{}", p.site()), case, json!("no panic"), json!({"panic": p.message, "at": p.location})),
        Ok(run) => {
            for (k, v) in &run.counts {
                rep.add(k, *v);
            }
            rep.max("mux_max_in_flight", run.max_in_flight as f64);
            if run.max_in_flight >= 2 {
                rep.nontrivial(fnv64(case.to_string().as_bytes()));
                rep.count("mux_nontrivial");
            }
            for v in run.viols {
                rep.violation(v.rule, &v.sig, case.clone(), v.expected, v.observed);
            }
            rep.sample(|| json!({"case": {"mode": "mux", "max_active": c.max_active, "ops": c.ops.len()}, "max_in_flight": run.max_in_flight}));
        }
    }
}

fn gen_mux_case(r: &mut Rng) -> MuxCase {
    let max_active = *r.pick(&[1usize, 2, 4, 8, 32, 32, 32]);
    let timeout_ms = *r.pick(&[1000u64, 5000]);
    let k = r.urange(1, 40);
    let nops = r.urange(10, 160);
    let mut ops: Vec<Value> = Vec::new();
    let mut sent = 0usize;
    // opening burst so that many requests are in flight together
    let burst = r.urange(1, k.min(34));
    for _ in 0..burst {
        ops.push(json!(["send"]));
        sent += 1;
    }
    let close_at = if r.chance(2, 3) { Some(r.urange(nops / 2, nops)) } else { None };
    for i in 0..nops {
        if Some(i) == close_at {
            // answer a few, then close with the rest pending
            ops.push(json!([if r.chance(1, 4) { "fail" } else { "close" }]));
            ops.push(json!(["pollmux"]));
            continue;
        }
        let pick = r.weighted(&[10, 22, 5, 4, 3, 18, 18, 4, 4]);
        let j = if sent > 0 { r.usize_below(sent) } else { 0 };
        match pick {
            0 => {
                if sent < k {
                    ops.push(json!(["send"]));
                    sent += 1;
                }
            }
            1 => {
                ops.push(json!(["answer", j]));
                if r.chance(1, 4) {
                    ops.push(json!(["answer", j]));
                }
            }
            2 => ops.push(json!(["unknown", r.below(60000)])),
            3 => ops.push(json!(["retired", j])),
            4 => ops.push(json!(["garbage"])),
            5 => ops.push(json!(["pollmux"])),
            6 => ops.push(json!(["pollreq", j])),
            7 => ops.push(json!(["drop", j])),
            _ => ops.push(json!(["advance", *r.pick(&[100u64, 100, 400, 900, 2500])])),
        }
    }
    ops.push(json!(["pollmux"]));
    MuxCase { max_active, timeout_ms, ops }
}

// ---------------------------------------------------------------------------------------------
// through DnsExchange, with real tasks and wake-ups

#[derive(Clone, Debug)]
struct ExCase {
    k: usize,
    /// per step: ["answer", j] | ["dup", j] | ["unknown", salt] | ["garbage"] | ["sleep", ms] |
    /// ["burst", n, mode, j] (n back-to-back responses: mode 0 unknown ids, mode 1 duplicates for j)
    script: Vec<Value>,
    /// "close" | "fail" | "never"
    end: String,
    timeout_ms: u64,
}

impl ExCase {
    fn to_json(&self) -> Value {
        json!({"mode": "exchange", "k": self.k, "script": self.script, "end": self.end, "timeout_ms": self.timeout_ms})
    }
    fn from_json(v: &Value) -> ExCase {
        ExCase { k: v["k"].as_u64().unwrap_or(2) as usize, script: v["script"].as_array().cloned().unwrap_or_default(), end: v["end"].as_str().unwrap_or("close").to_string(), timeout_ms: v["timeout_ms"].as_u64().unwrap_or(5000) }
    }
}

fn check_exchange(rep: &mut Reporter, c: &ExCase) {
    rep.eval();
    let case = c.to_json();
    let rt = new_runtime();
    let cc = c.clone();
    let out = mon::catch(|| {
        rt.block_on(async move {
            let c = cc;
            let (handle, rx) = BufDnsStreamHandle::new(server());
            let conn = Arc::new(Mutex::new(ConnState { rx, outbound: Vec::new(), inbound: VecDeque::new(), waker: None, closed: false, delivered_msgs: 0, run_len: 0, max_run: 0 }));
            let mux = DnsMultiplexer::new(ScriptedClientStream(conn.clone()), handle).with_timeout(Duration::from_millis(c.timeout_ms)).with_max_active_requests(64);
            let net = UdpNet::new(Box::new(|_| vec![]));
            let provider = SimRuntime::new(net);
            let (exchange, bg) = DnsExchange::<SimRuntime>::from_stream(mux);
            let bg_task = tokio::spawn(bg);
            let _ = provider.create_handle();
            // issue k requests concurrently
            let mut tasks = Vec::new();
            for idx in 0..c.k {
                let ex = exchange.clone();
                tasks.push(tokio::spawn(async move {
                    let mut s = ex.send(make_request(idx));
                    let mut got: Vec<Result<(Option<usize>, u16, Option<u16>), String>> = Vec::new();
                    // collect until the stream ends or errs (responses may be duplicated)
                    while let Some(item) = s.next().await {
                        match item {
                            Ok(resp) => got.push(Ok((marker_of(resp.as_buffer()), resp.id, refwire::read_header(resp.as_buffer()).ok().map(|h| h.id)))),
                            Err(e) => {
                                got.push(Err(err_kind(&e)));
                                break;
                            }
                        }
                    }
                    got
                }));
            }
            drop(exchange);
            // let the requests reach the wire
            for _ in 0..8 {
                tokio::task::yield_now().await;
            }
            tokio::time::sleep(Duration::from_millis(1)).await;
            let ids: BTreeMap<usize, u16> = {
                let mut cs = conn.lock().unwrap();
                cs.drain_outbound();
                cs.outbound
                    .iter()
                    .filter_map(|b| parse_query(b))
                    .filter_map(|q| {
                        let l = q.questions.first()?.0.first()?.clone();
                        let idx: usize = std::str::from_utf8(&l).ok()?.strip_prefix('r')?.parse().ok()?;
                        Some((idx, q.id))
                    })
                    .collect()
            };
            let mut markers: Vec<MarkerInfo> = Vec::new();
            let mut owed: BTreeMap<usize, Vec<usize>> = BTreeMap::new();
            let ever: BTreeSet<u16> = ids.values().copied().collect();
            for step in &c.script {
                let name = step[0].as_str().unwrap_or("");
                match name {
                    "answer" | "dup" => {
                        let j = step[1].as_u64().unwrap_or(0) as usize;
                        if let Some(&id) = ids.get(&j) {
                            let reps = if name == "dup" { 2 } else { 1 };
                            for _ in 0..reps {
                                let m = markers.len();
                                markers.push(MarkerInfo { id, target: Some(j), kind: "answer" });
                                owed.entry(j).or_default().push(m);
                                conn.lock().unwrap().push(InEv::Msg(stream_response(id, j, m)));
                            }
                        }
                    }
                    "unknown" => {
                        let mut id = (step[1].as_u64().unwrap_or(3) as u16).wrapping_mul(40503).wrapping_add(1);
                        while ever.contains(&id) {
                            id = id.wrapping_add(1);
                        }
                        if let Some(&live) = ids.values().next() {
                            let cand = if step[1].as_u64().unwrap_or(0) % 2 == 0 { (id & 0xff00) | (live & 0xff) } else { (live & 0xff00) | (id & 0xff) };
                            if !ever.contains(&cand) {
                                id = cand;
                            }
                        }
                        let m = markers.len();
                        markers.push(MarkerInfo { id, target: None, kind: "unknown" });
                        conn.lock().unwrap().push(InEv::Msg(stream_response(id, 9999, m)));
                    }
                    "garbage" => {
                        let m = markers.len();
                        markers.push(MarkerInfo { id: 0, target: None, kind: "garbage" });
                        let mut g = vec![0x12, 0x34, 0x81, 0x80, 0xff, 0xff, 0xff, 0xff, 0xff, 0xff, 0xff, 0xff, 0xc0, 0xff];
                        g.extend_from_slice(&marker_rdata(m));
                        conn.lock().unwrap().push(InEv::Msg(g));
                    }
                    "burst" => {
                        // n responses back to back: to unknown ids (mode 0) or duplicates for request j (mode 1)
                        let n = step[1].as_u64().unwrap_or(100) as usize;
                        let dup_for = if step[2].as_u64().unwrap_or(0) == 1 { step[3].as_u64().map(|x| x as usize).filter(|j| ids.contains_key(j)) } else { None };
                        let mut uid = 0x5000u16;
                        for _ in 0..n {
                            let m = markers.len();
                            match dup_for {
                                Some(j) => {
                                    let id = ids[&j];
                                    markers.push(MarkerInfo { id, target: Some(j), kind: "answer" });
                                    owed.entry(j).or_default().push(m);
                                    conn.lock().unwrap().push(InEv::Msg(stream_response(id, j, m)));
                                }
                                None => {
                                    while ever.contains(&uid) {
                                        uid = uid.wrapping_add(1);
                                    }
                                    markers.push(MarkerInfo { id: uid, target: None, kind: "unknown" });
                                    conn.lock().unwrap().push(InEv::Msg(stream_response(uid, 9999, m)));
                                    uid = uid.wrapping_add(1);
                                }
                            }
                        }
                    }
                    "sleep" => tokio::time::sleep(Duration::from_millis(step[1].as_u64().unwrap_or(1))).await,
                    _ => {}
                }
            }
            tokio::time::sleep(Duration::from_millis(1)).await;
            match c.end.as_str() {
                "close" => conn.lock().unwrap().push(InEv::Close),
                "fail" => conn.lock().unwrap().push(InEv::Fail),
                _ => {}
            }
            let t_end = tokio::time::Instant::now();
            let mut results = Vec::new();
            for t in tasks {
                results.push(t.await.map_err(|e| e.to_string()));
            }
            let waited = t_end.elapsed();
            bg_task.abort();
            let max_run = conn.lock().unwrap().max_run;
            (ids, markers, owed, results, waited, max_run)
        })
    });
    let (ids, markers, owed, results, waited, max_run) = match out {
        Ok(x) => x,
        Err(p) => {
            rep.violation("panic", &format!("exchange|{}", p.site()), case, json!("no panic"), json!({"panic": p.message, "at": p.location}));
            return;
        }
    };
    rep.add("ex_requests", c.k as u64);
    if ids.len() != c.k {
        rep.count("ex_requests_not_all_on_wire");
    }
    let vals: Vec<u16> = ids.values().copied().collect();
    let set: BTreeSet<u16> = vals.iter().copied().collect();
    if set.len() != vals.len() {
        rep.violation("distinct", "id-collision", case.clone(), json!("ids of in-flight requests pairwise distinct"), json!({"ids": vals}));
    }
    if c.k >= 2 {
        rep.nontrivial(fnv64(case.to_string().as_bytes()));
        rep.count("ex_nontrivial");
    }
    // The multiplexer read ≥ 100 messages in a row without the connection ever reporting Pending:
    // symptoms of that situation are reported under one signature of their own.
    let qos_run = max_run >= 100;
    rep.max("ex_max_messages_without_pending", max_run as f64);
    if qos_run {
        rep.count("ex_cases_with_100_message_run");
    }
    let mut stall_symptoms: Vec<String> = Vec::new();
    let mut surfaced: BTreeSet<usize> = BTreeSet::new();
    for (j, res) in results.iter().enumerate() {
        let got = match res {
            Ok(g) => g,
            Err(e) => {
                rep.violation("panic", "exchange|request-task", case.clone(), json!("no panic"), json!(e));
                continue;
            }
        };
        let my_id = ids.get(&j).copied();
        let mut oks = Vec::new();
        for item in got {
            match item {
                Ok((m, rid, wid)) => {
                    rep.count("ex_responses_received");
                    let Some(m) = m.filter(|m| *m < markers.len()) else {
                        rep.violation("routing", "unknown-marker", case.clone(), json!("a response the script sent"), json!({"request": j}));
                        continue;
                    };
                    let info = &markers[m];
                    if !surfaced.insert(m) {
                        rep.violation("routing", &format!("duplicated|{}", info.kind), case.clone(), json!("each response surfaces at most once"), json!({"marker": m}));
                    }
                    if Some(info.id) != my_id || Some(*rid) != my_id || *wid != my_id {
                        let sig = if my_id.map(|x| x & 0xff) == Some(info.id & 0xff) { "wrong-id|low-byte-equal" } else if my_id.map(|x| x >> 8) == Some(info.id >> 8) { "wrong-id|high-byte-equal" } else { "wrong-id|other" };
                        rep.violation("routing", &format!("{sig}|{}", info.kind), case.clone(), json!({"request": j, "request_id": my_id}), json!({"response_id": info.id, "kind": info.kind, "meant_for": info.target}));
                    } else if info.target != Some(j) {
                        rep.violation("routing", &format!("surfaced|{}", info.kind), case.clone(), json!("dropped"), json!({"request": j, "marker": m}));
                    } else {
                        oks.push(m);
                    }
                }
                Err(k) => rep.count(&format!("ex_err/{k}")),
            }
        }
        let want = owed.get(&j).cloned().unwrap_or_default();
        // at most 6 unread responses per request are owed (channel capacity is a don't-care)
        let want_cap: Vec<usize> = want.iter().copied().take(6).collect();
        if (oks.len() < want_cap.len() || oks[..want_cap.len()] != want_cap[..]) && qos_run {
            stall_symptoms.push(format!("request {j}: owed {:?}, received {:?}, items {:?}", want_cap, oks, got));
        } else if oks.len() < want_cap.len() || oks[..want_cap.len()] != want_cap[..] {
            rep.violation(
                "delivery",
                &format!("missing|{}", if oks.is_empty() { "none-arrived" } else { "some-arrived" }),
                case.clone(),
                json!({"request": j, "markers": want_cap}),
                json!({"received": oks, "all": format!("{got:?}")}),
            );
        }
        if want.is_empty() {
            rep.count("ex_requests_never_answered");
            // closed connection ⇒ the request ended (error or end of stream = Timeout); "never" ⇒ it
            // ended at its own timeout
            match got.last() {
                Some(Err(_)) => rep.count("ex_pending_failed_with_error"),
                None => rep.count("ex_pending_ended"),
                _ => {}
            }
        } else {
            rep.count("ex_requests_answered");
        }
    }
    match c.end.as_str() {
        "close" | "fail" => {
            rep.count("ex_closes");
            // all request tasks must finish at the close instant, not at their timeouts
            if waited > Duration::from_millis(2) && qos_run {
                stall_symptoms.push(format!("connection closed, requests still pending {} ms later", waited.as_millis()));
            } else if waited > Duration::from_millis(2) {
                rep.violation("close", "pending-after-close", case.clone(), json!("every pending request fails when the connection closes"), json!({"waited_ms": waited.as_millis() as u64, "timeout_ms": c.timeout_ms}));
            }
        }
        _ => {
            rep.count("ex_never_closed");
        }
    }
    if !stall_symptoms.is_empty() {
        rep.violation(
            "delivery",
            "stalled|after-run-of-100-messages",
            case.clone(),
            json!("responses that arrived reach their pending requests; a closed connection fails pending requests at once"),
            json!({"messages_read_without_pending": max_run, "symptoms": stall_symptoms.iter().take(4).collect::<Vec<_>>()}),
        );
    }
    rep.sample(|| json!({"case": {"mode": "exchange", "k": c.k, "steps": c.script.len(), "end": c.end}}));
}

fn gen_ex_case(r: &mut Rng) -> ExCase {
    let k = r.urange(1, 32);
    let n = r.urange(0, 2 * k + 4);
    let mut script = Vec::new();
    for _ in 0..n {
        let j = r.usize_below(k);
        script.push(match r.weighted(&[12, 3, 3, 2, 3]) {
            0 => json!(["answer", j]),
            1 => json!(["dup", j]),
            2 => json!(["unknown", r.below(60000)]),
            3 => json!(["garbage"]),
            _ => json!(["sleep", *r.pick(&[1u64, 5, 50])]),
        });
    }
    if r.chance(1, 25) {
        // a long run of back-to-back responses somewhere in the script, then one more answer
        let n = *r.pick(&[40u64, 98, 99, 100, 101, 130]);
        let at = r.usize_below(script.len() + 1);
        let j = r.usize_below(k);
        script.insert(at, json!(["burst", n, r.below(2), j]));
        script.insert(at + 1, json!(["answer", r.usize_below(k)]));
    }
    ExCase { k, script, end: r.pick(&["close", "close", "fail", "never"]).to_string(), timeout_ms: *r.pick(&[1000u64, 5000]) }
}

// =============================================================================================

fn main() {
    let ctx = Ctx::from_args("C16");
    mon::install_panic_monitor();
    let mut rep = Reporter::new(&ctx);

    if let Some(w) = ctx.replay_case() {
        let c = &w["case"];
        match c["mode"].as_str().unwrap_or("udp") {
            "mux" => check_mux(&mut rep, &MuxCase::from_json(c)),
            "exchange" => check_exchange(&mut rep, &ExCase::from_json(c)),
            _ => check_udp(&mut rep, &UdpCase::from_json(c)),
        }
        rep.replay_finish();
    }

    for k in KINDS.iter().skip(1) {
        for p in 1..=3 {
            rep.must(&format!("udp_examined/{k}@{p}"), 50);
        }
    }
    for p in 1..=3 {
        rep.must(&format!("udp_accepted_at/{p}"), 100);
    }
    rep.must("udp_model_err/three-skipped", 1000);
    rep.must("udp_model_err/case-mismatch", 500);
    rep.must("udp_model_err/timeout", 500);
    rep.must("udp_model_ok", 5000);
    rep.must("udp_nontrivial_hand_built/case-rand-on", 1000);
    rep.must("udp_nontrivial_hand_built/case-rand-off", 1000);
    rep.must("udp_recv_per_socket/3", 1000);
    rep.must("mux_sends_with_2plus_in_flight", 5000);
    rep.must("mux_close_with_pending", 300);
    rep.must("mux_pending_at_close", 1000);
    rep.must("mux_sent_unknown", 1000);
    rep.must("mux_sent_retired", 50);
    rep.must("mux_requests_with_duplicates", 1000);
    rep.must("mux_send_refused/Busy", 100);
    rep.must("ex_closes", 200);
    rep.must("ex_requests_answered", 1000);

    udp_workloads(&ctx, &mut rep);

    {
        let mut r = ctx.rng("mux");
        for _ in 0..ctx.budget(160_000, 3_000_000) {
            let c = gen_mux_case(&mut r);
            check_mux(&mut rep, &c);
            rep.count("mux_cases");
        }
    }
    {
        let mut r = ctx.rng("exchange");
        for _ in 0..ctx.budget(40_000, 600_000) {
            let c = gen_ex_case(&mut r);
            check_exchange(&mut rep, &c);
            rep.count("ex_cases");
        }
    }

    std::process::exit(rep.finish().min(0));
}
