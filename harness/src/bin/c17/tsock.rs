//! The scripted socket of `simnet` behind TOKIO's `AsyncRead + AsyncWrite`, to be wrapped in
//! `hickory_net::runtime::iocompat::AsyncIoTokioAsStd` — the adapter through which every tokio /
//! rustls stream reaches `TcpStream` in production.
//!
//! * `SimTokioPlain` — `is_write_vectored() == false`, `poll_write_vectored` NOT overridden (tokio's
//!   provided method: first non-empty buffer through `poll_write`). Every socket-level write is a
//!   plain `poll_write`: first the rest of the length prefix, then the body; each may accept k
//!   bytes or would-block.
//! * `SimTokioVec`  — `is_write_vectored() == true` and a gathering `poll_write_vectored`.
//!
//! Both share `TcpState` (same availability-boundary read script, acceptance-boundary write
//! script, flush script, call bound) with the futures-io front end `SimTcp`.
#![allow(dead_code)]

use std::io;
use std::pin::Pin;
use std::sync::{Arc, Mutex};
use std::task::{Context, Poll};

use tokio::io::{AsyncRead, AsyncWrite, ReadBuf};

use crate::simnet::TcpState;

fn tokio_read(st: &Arc<Mutex<TcpState>>, cx: &mut Context<'_>, buf: &mut ReadBuf<'_>) -> Poll<io::Result<()>> {
    let mut s = st.lock().unwrap();
    let odd = s.calls & 1 == 1;
    let n = match s.do_read(cx, buf.initialize_unfilled()) {
        Poll::Ready(Ok(n)) => n,
        Poll::Ready(Err(e)) => return Poll::Ready(Err(e)),
        Poll::Pending => return Poll::Pending,
    };
    // two legal ways of handing the bytes over: advance over what was written in place, or
    // `put_slice` (same bytes, same place)
    if odd && n > 0 {
        let tmp = buf.initialize_unfilled()[..n].to_vec();
        buf.put_slice(&tmp);
    } else {
        buf.advance(n);
    }
    Poll::Ready(Ok(()))
}

#[derive(Clone)]
pub struct SimTokioPlain(pub Arc<Mutex<TcpState>>);

impl AsyncRead for SimTokioPlain {
    fn poll_read(self: Pin<&mut Self>, cx: &mut Context<'_>, buf: &mut ReadBuf<'_>) -> Poll<io::Result<()>> {
        tokio_read(&self.0, cx, buf)
    }
}

impl AsyncWrite for SimTokioPlain {
    fn poll_write(self: Pin<&mut Self>, cx: &mut Context<'_>, buf: &[u8]) -> Poll<io::Result<usize>> {
        self.0.lock().unwrap().do_write(cx, &[buf], false)
    }
    fn poll_flush(self: Pin<&mut Self>, cx: &mut Context<'_>) -> Poll<io::Result<()>> {
        self.0.lock().unwrap().do_flush(cx)
    }
    fn poll_shutdown(self: Pin<&mut Self>, _cx: &mut Context<'_>) -> Poll<io::Result<()>> {
        self.0.lock().unwrap().closes += 1;
        Poll::Ready(Ok(()))
    }
    // poll_write_vectored / is_write_vectored: tokio's provided methods
}

#[derive(Clone)]
pub struct SimTokioVec(pub Arc<Mutex<TcpState>>);

impl AsyncRead for SimTokioVec {
    fn poll_read(self: Pin<&mut Self>, cx: &mut Context<'_>, buf: &mut ReadBuf<'_>) -> Poll<io::Result<()>> {
        tokio_read(&self.0, cx, buf)
    }
}

impl AsyncWrite for SimTokioVec {
    fn poll_write(self: Pin<&mut Self>, cx: &mut Context<'_>, buf: &[u8]) -> Poll<io::Result<usize>> {
        self.0.lock().unwrap().do_write(cx, &[buf], false)
    }
    fn poll_write_vectored(self: Pin<&mut Self>, cx: &mut Context<'_>, bufs: &[io::IoSlice<'_>]) -> Poll<io::Result<usize>> {
        let v: Vec<&[u8]> = bufs.iter().map(|b| &**b).collect();
        self.0.lock().unwrap().do_write(cx, &v, true)
    }
    fn is_write_vectored(&self) -> bool {
        true
    }
    fn poll_flush(self: Pin<&mut Self>, cx: &mut Context<'_>) -> Poll<io::Result<()>> {
        self.0.lock().unwrap().do_flush(cx)
    }
    fn poll_shutdown(self: Pin<&mut Self>, _cx: &mut Context<'_>) -> Poll<io::Result<()>> {
        self.0.lock().unwrap().closes += 1;
        Poll::Ready(Ok(()))
    }
}
