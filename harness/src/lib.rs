//! Shared harness library for the runtime monitors of the hickory-dns properties C01–C20.
#![allow(clippy::all)]
pub mod gen;
pub mod hk;
pub mod mon;
pub mod prng;
pub mod refwire;
