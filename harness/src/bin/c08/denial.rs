//! Genuine NSEC / NSEC3 chains of a reference zone, the *claims* a negative or wildcard-expanded
//! response makes (DESIGN App. A.4) and the counter-model search (App. A.5). Plain types only;
//! built on `refzone`.
#![allow(dead_code)]

use std::collections::{BTreeMap, BTreeSet};

use crate::refzone::{self, child, fold, is_strict_subdomain, is_subdomain, suffix, ty, wildcard_of, CName, Name, Zone};

pub const T_RRSIG: u16 = 46;
pub const T_NSEC: u16 = 47;
pub const T_NSEC3: u16 = 50;

// ---------------------------------------------------------------------------------------------
// NSEC chain (App. A.3)

#[derive(Clone, Debug, PartialEq, Eq, PartialOrd, Ord)]
pub struct Nsec {
    pub owner: Name,
    pub next: Name,
    pub types: BTreeSet<u16>,
}

/// types shown in the denial bitmap at `n` (n owns visible data)
fn bitmap_types(z: &Zone, n: &[Vec<u8>], self_type: u16) -> BTreeSet<u16> {
    let mut t: BTreeSet<u16> = BTreeSet::new();
    if let Some(node) = z.node(n) {
        if z.is_delegation(n) {
            // parent side of a cut: NS and DS only (glue address records at the cut are occluded data)
            for k in node.keys() {
                if *k == ty::NS || *k == ty::DS {
                    t.insert(*k);
                }
            }
        } else {
            t.extend(node.keys().copied());
        }
    }
    t.insert(T_RRSIG);
    if self_type == T_NSEC {
        t.insert(T_NSEC);
    }
    t
}

pub fn nsec_chain(z: &Zone) -> Vec<Nsec> {
    let owners: Vec<Name> = z.owners().filter(|o| z.in_zone(o) && !z.occluded(o)).cloned().collect();
    let mut out = Vec::new();
    for (i, o) in owners.iter().enumerate() {
        let next = owners[(i + 1) % owners.len()].clone();
        out.push(Nsec { owner: o.clone(), next, types: bitmap_types(z, o, T_NSEC) });
    }
    out
}

// ---------------------------------------------------------------------------------------------
// NSEC3 chain (App. A.3)

#[derive(Clone, Debug, PartialEq, Eq, PartialOrd, Ord)]
pub struct Nsec3Params {
    pub salt: Vec<u8>,
    pub iterations: u16,
    pub opt_out: bool,
}

#[derive(Clone, Debug, PartialEq, Eq, PartialOrd, Ord)]
pub struct Nsec3 {
    /// hash of the owner (20 bytes)
    pub hash: Vec<u8>,
    pub next: Vec<u8>,
    pub types: BTreeSet<u16>,
    pub opt_out: bool,
    /// the original owner name (not part of the record; for witnesses)
    pub of: Name,
}

/// RFC 5155 §5: IH(salt, x, 0) = H(x || salt); IH(salt, x, k) = H(IH(salt, x, k-1) || salt)
pub fn nsec3_hash(name: &[Vec<u8>], salt: &[u8], iterations: u16) -> Vec<u8> {
    let mut data = refzone::wire_name(&fold(name));
    data.extend_from_slice(salt);
    let mut h = ring::digest::digest(&ring::digest::SHA1_FOR_LEGACY_USE_ONLY, &data).as_ref().to_vec();
    for _ in 0..iterations {
        let mut d = h.clone();
        d.extend_from_slice(salt);
        h = ring::digest::digest(&ring::digest::SHA1_FOR_LEGACY_USE_ONLY, &d).as_ref().to_vec();
    }
    h
}

pub fn base32hex(b: &[u8]) -> Vec<u8> {
    const A: &[u8; 32] = b"0123456789abcdefghijklmnopqrstuv";
    let mut out = Vec::new();
    let mut acc: u32 = 0;
    let mut bits = 0;
    for x in b {
        acc = (acc << 8) | *x as u32;
        bits += 8;
        while bits >= 5 {
            out.push(A[((acc >> (bits - 5)) & 31) as usize]);
            bits -= 5;
        }
    }
    if bits > 0 {
        out.push(A[((acc << (5 - bits)) & 31) as usize]);
    }
    out
}

/// names that get an NSEC3 record: every existing name incl. ENTs; under opt-out, insecure
/// delegations (cut without DS) are omitted — and so are ENTs that exist only because of them.
pub fn nsec3_names(z: &Zone, opt_out: bool) -> Vec<Name> {
    let mut set: BTreeMap<CName, ()> = BTreeMap::new();
    set.insert(CName(z.apex.clone()), ());
    for o in z.owners() {
        if !z.in_zone(o) || z.occluded(o) {
            continue;
        }
        if opt_out && z.is_delegation(o) && z.rrset(o, ty::DS).is_none() {
            continue;
        }
        let mut k = o.len();
        while k > z.apex.len() {
            set.insert(CName(suffix(o, k)), ());
            k -= 1;
        }
    }
    set.into_keys().map(|c| c.0).collect()
}

pub fn nsec3_chain(z: &Zone, p: &Nsec3Params) -> Vec<Nsec3> {
    let mut v: Vec<(Vec<u8>, Name)> = nsec3_names(z, p.opt_out).into_iter().map(|n| (nsec3_hash(&n, &p.salt, p.iterations), n)).collect();
    v.sort();
    let mut out = Vec::new();
    for i in 0..v.len() {
        let (h, n) = &v[i];
        let next = v[(i + 1) % v.len()].0.clone();
        let types = if z.node(n).is_some() { bitmap_types(z, n, T_NSEC3) } else { BTreeSet::new() };
        // RFC 5155 §7.1: the RRSIG bit is only set when an authoritative RRset exists at the name
        let mut types = types;
        if z.node(n).is_none() || (z.is_delegation(n) && z.rrset(n, ty::DS).is_none()) {
            types.remove(&T_RRSIG);
        }
        if *n == z.apex {
            types.insert(51); // NSEC3PARAM at the apex
        }
        out.push(Nsec3 { hash: h.clone(), next, types, opt_out: p.opt_out, of: n.clone() });
    }
    out
}

// ---------------------------------------------------------------------------------------------
// claims (App. A.4)

#[derive(Clone, Debug, PartialEq, Eq)]
pub enum Claim {
    /// rcode NXDOMAIN, no answer
    NxDomain,
    /// rcode NOERROR, no answer
    NoData,
    /// rcode NOERROR, answer synthesised from `*.`(rightmost `labels` labels of qname)
    Expansion { labels: usize },
}

impl Claim {
    pub fn as_str(&self) -> &'static str {
        match self {
            Claim::NxDomain => "nxdomain",
            Claim::NoData => "nodata",
            Claim::Expansion { .. } => "expansion",
        }
    }
}

#[derive(Clone, Debug, PartialEq, Eq)]
pub enum Truth {
    True,
    /// unambiguously false, with the reason
    False(&'static str),
    /// at or below a zone cut (qtype != DS at the cut): parent records cannot entail it
    NotEntailable(&'static str),
    /// false only in an "ambiguous" way (e.g. NODATA claimed where NXDOMAIN is the truth)
    Ambiguous(&'static str),
}

/// Is the claim true of zone `z`? (q is expected inside the zone)
pub fn claim_truth(z: &Zone, q: &[Vec<u8>], t: u16, claim: &Claim) -> Truth {
    if !z.in_zone(q) {
        return Truth::NotEntailable("qname outside the zone");
    }
    if z.occluded(q) {
        return Truth::NotEntailable("qname below a zone cut");
    }
    if z.is_delegation(q) && !(t == ty::DS && *claim == Claim::NoData) {
        return Truth::NotEntailable("qname at a zone cut and the claim is not DS-NODATA");
    }
    match claim {
        Claim::NxDomain => {
            if z.exists(q) {
                return Truth::False("qname exists");
            }
            let w = z.source_of_synthesis(q);
            if z.exists(&w) {
                return Truth::False("a wildcard at the closest encloser would match");
            }
            Truth::True
        }
        Claim::NoData => {
            let node = if z.exists(q) {
                fold(q)
            } else {
                let w = z.source_of_synthesis(q);
                if !z.exists(&w) {
                    return Truth::Ambiguous("neither qname nor a matching wildcard exists (NXDOMAIN is the truth)");
                }
                w
            };
            if z.is_delegation(&node) && t != ty::DS {
                return Truth::NotEntailable("matched node is a zone cut");
            }
            let auth = z.authoritative_types(&node);
            if auth.contains(&t) {
                return Truth::False("the type is present at the matched node");
            }
            if auth.contains(&ty::CNAME) && t != ty::CNAME {
                return Truth::False("a CNAME is present at the matched node");
            }
            Truth::True
        }
        Claim::Expansion { labels } => {
            if z.exists(q) {
                return Truth::False("qname exists");
            }
            let ce = z.closest_encloser(q);
            if ce.len() > *labels {
                return Truth::False("a closer encloser than the expanded wildcard exists");
            }
            if ce.len() < *labels {
                // the claimed wildcard's parent does not even exist: the RRSIG could not be genuine
                return Truth::Ambiguous("claimed wildcard is not at the closest encloser (its parent does not exist)");
            }
            Truth::True
        }
    }
}

// ---------------------------------------------------------------------------------------------
// counter-model search (App. A.5)

/// names whose content the search toggles
pub fn relevant_names(z: &Zone, q: &[Vec<u8>]) -> Vec<Name> {
    let mut v: Vec<Name> = Vec::new();
    let q = fold(q);
    let mut k = q.len();
    while k > z.apex.len() {
        let a = suffix(&q, k);
        v.push(a.clone());
        if k < q.len() || true {
            v.push(wildcard_of(&suffix(&q, k - 1)));
        }
        k -= 1;
    }
    v.push(wildcard_of(&z.apex));
    v.push(child(b"c", &q));
    v.sort();
    v.dedup();
    v.retain(|n| z.in_zone(n) && *n != z.apex);
    v
}

#[derive(Clone, Debug)]
pub enum Edit {
    Remove(Name),
    /// make the node hold exactly this type (A-like data), replacing what is there
    SetOnly(Name, u16),
    /// add the type to the node
    AddType(Name, u16),
}

fn apply(z: &Zone, e: &Edit) -> Option<Zone> {
    let mut z2 = z.clone();
    match e {
        Edit::Remove(n) => {
            if !z2.remove_name(n) {
                return None;
            }
        }
        Edit::SetOnly(n, t) => {
            z2.remove_name(n);
            z2.add(n, *t, filler_rdata(*t, &z.apex));
        }
        Edit::AddType(n, t) => {
            if !z2.can_add(n, *t) || !z2.add(n, *t, filler_rdata(*t, &z.apex)) {
                return None;
            }
        }
    }
    Some(z2)
}

fn filler_rdata(t: u16, apex: &[Vec<u8>]) -> Vec<u8> {
    match t {
        x if x == ty::A => refzone::rd_a(200),
        x if x == ty::AAAA => refzone::rd_aaaa(200),
        x if x == ty::MX => refzone::rd_mx(5, apex),
        x if x == ty::CNAME || x == ty::NS => refzone::rd_name(apex),
        x if x == ty::DS => refzone::rd_ds(77),
        _ => refzone::rd_txt("counter-model"),
    }
}

pub fn single_edits(z: &Zone, q: &[Vec<u8>], t: u16) -> Vec<Edit> {
    let other = if t == ty::TXT { ty::A } else { ty::TXT };
    let mut v = Vec::new();
    for n in relevant_names(z, q) {
        v.push(Edit::Remove(n.clone()));
        v.push(Edit::SetOnly(n.clone(), t));
        v.push(Edit::SetOnly(n.clone(), other));
        v.push(Edit::AddType(n.clone(), t));
        if t != ty::CNAME {
            v.push(Edit::SetOnly(n.clone(), ty::CNAME));
        }
    }
    v
}

/// Search zones within two edits of `z` in which every record of the supplied proof is genuine
/// (`contains(z')`) and the claim is unambiguously false. Returns the first counter-model.
pub fn counter_model(z: &Zone, q: &[Vec<u8>], t: u16, claim: &Claim, contains: &dyn Fn(&Zone) -> bool, max_double: usize) -> Option<(Zone, Vec<Edit>)> {
    let singles = single_edits(z, q, t);
    let mut firsts: Vec<(Zone, Edit)> = Vec::new();
    for e in &singles {
        let Some(z1) = apply(z, e) else { continue };
        if z1.rrset(&z1.apex.clone(), ty::SOA).is_none() {
            continue;
        }
        if matches!(claim_truth(&z1, q, t, claim), Truth::False(_)) && contains(&z1) {
            return Some((z1, vec![e.clone()]));
        }
        firsts.push((z1, e.clone()));
    }
    let mut tried = 0usize;
    for (z1, e1) in &firsts {
        for e2 in &singles {
            if tried >= max_double {
                return None;
            }
            tried += 1;
            let Some(z2) = apply(z1, e2) else { continue };
            if matches!(claim_truth(&z2, q, t, claim), Truth::False(_)) && contains(&z2) {
                return Some((z2, vec![e1.clone(), e2.clone()]));
            }
        }
    }
    None
}

pub fn nsec_subset_of_chain(s: &[Nsec], z: &Zone) -> bool {
    let chain = nsec_chain(z);
    s.iter().all(|r| chain.contains(r))
}

pub fn nsec3_subset_of_chain(s: &[Nsec3], z: &Zone, p: &Nsec3Params) -> bool {
    let chain = nsec3_chain(z, p);
    s.iter().all(|r| chain.iter().any(|c| c.hash == r.hash && c.next == r.next && c.types == r.types && c.opt_out == r.opt_out))
}

pub fn show_edit(e: &Edit) -> String {
    match e {
        Edit::Remove(n) => format!("remove {}", refzone::show(n)),
        Edit::SetOnly(n, t) => format!("set {} to only {}", refzone::show(n), refzone::type_name(*t)),
        Edit::AddType(n, t) => format!("add {} at {}", refzone::type_name(*t), refzone::show(n)),
    }
}

pub fn is_sub(n: &[Vec<u8>], a: &[Vec<u8>]) -> bool {
    is_subdomain(n, a)
}
pub fn is_strict_sub(n: &[Vec<u8>], a: &[Vec<u8>]) -> bool {
    is_strict_subdomain(n, a)
}
