//! Generators: base names and *families* of related names (random unrelated pairs almost never
//! reach the interesting comparisons: equal-up-to-case, prefix labels, moved label boundaries,
//! NUL suffixes, wildcard siblings, ancestors).

use vh::gen::{self, NameStyle};
use vh::prng::Rng;

use crate::refname::RName;

/// octets that sit next to the fold range or the high-bit range, plus presentation-special ones
pub const TRICKY: &[u8] = &[
    0x00, 0x01, 0x20, 0x29, 0x2A, 0x2B, 0x2D, 0x2E, 0x2F, 0x30, 0x39, 0x3A, 0x40, 0x41, 0x5A, 0x5B, 0x5C, 0x5F, 0x60, 0x61, 0x7A, 0x7B, 0x7F, 0x80, 0xC1, 0xC8, 0xE1, 0xFF,
];

pub fn base_name(rng: &mut Rng) -> RName {
    let labels = match rng.below(20) {
        0 => {
            let t = rng.urange(250, 255);
            gen::name_of_wire_len(rng, t)
        }
        1 => {
            // many short labels (up to the 127-label maximum)
            let n = rng.urange(100, 127);
            (0..n).map(|_| vec![*rng.pick(b"abAB\x00\xff*z")]).collect()
        }
        2..=6 => gen::name(rng, NameStyle::Binary),
        7..=11 => gen::name(rng, NameStyle::Host),
        12..=13 => {
            // letters only, so that case variants are plentiful
            let n = rng.urange(2, 5);
            (0..n).map(|_| (0..rng.urange(1, 9)).map(|_| *rng.pick(b"abcdefgxyzABCDEFGXYZ")).collect()).collect()
        }
        _ => gen::name(rng, NameStyle::Small),
    };
    let mut n = RName::new(labels, !rng.chance(1, 7));
    if n.labels.len() < 2 && rng.chance(3, 4) {
        // most bases should be non-trivial (≥ 2 labels)
        n.labels.push(b"example".to_vec());
        n.labels.push(b"COM".to_vec());
    }
    n
}

fn flip_case_random(rng: &mut Rng, n: &RName) -> RName {
    let mut m = n.clone();
    for l in m.labels.iter_mut() {
        for c in l.iter_mut() {
            if c.is_ascii_alphabetic() && rng.bool() {
                *c ^= 0x20;
            }
        }
    }
    m
}

fn map_octets(n: &RName, f: impl Fn(u8) -> u8) -> RName {
    RName::new(n.labels.iter().map(|l| l.iter().map(|&c| f(c)).collect()).collect(), n.fqdn)
}

/// derive one relative of `n`; None if the derivation does not apply / leaves the legal space
pub fn derive(rng: &mut Rng, n: &RName) -> Option<RName> {
    let mut m = n.clone();
    let nl = m.labels.len();
    let which = rng.below(26);
    match which {
        0 | 1 => m = flip_case_random(rng, n),
        2 => m = map_octets(n, |c| c.to_ascii_uppercase()),
        3 => m = map_octets(n, |c| c.to_ascii_lowercase()),
        4 => m.fqdn = !m.fqdn,
        5..=8 => {
            // one-octet difference at a random position
            if nl == 0 {
                return None;
            }
            let i = rng.usize_below(nl);
            let j = rng.usize_below(m.labels[i].len());
            let c = m.labels[i][j];
            m.labels[i][j] = match rng.below(8) {
                0 => c.wrapping_add(1),
                1 => c.wrapping_sub(1),
                2 => c ^ 0x20, // the case bit: a case pair for letters, a *different* octet otherwise
                3 => c ^ 0x80,
                4 => 0x00,
                5 => 0xFF,
                6 => *rng.pick(TRICKY),
                _ => rng.u8(),
            };
        }
        9 => {
            // shorter label: proper prefix
            if nl == 0 {
                return None;
            }
            let i = rng.usize_below(nl);
            if m.labels[i].len() < 2 {
                return None;
            }
            let keep = if rng.bool() { m.labels[i].len() - 1 } else { rng.urange(1, m.labels[i].len() - 1) };
            m.labels[i].truncate(keep);
        }
        10 | 11 => {
            // longer label: original is a proper prefix (NUL suffix is the classic trap)
            if nl == 0 {
                return None;
            }
            let i = rng.usize_below(nl);
            let add = *rng.pick(&[0x00u8, 0x00, 0x01, b'a', b'A', 0xFF, b'.', b'-']);
            m.labels[i].push(add);
            if rng.chance(1, 4) {
                m.labels[i].push(0x00);
            }
        }
        12 => {
            // merge two adjacent labels: ab.c -> abc
            if nl < 2 {
                return None;
            }
            let i = rng.usize_below(nl - 1);
            let tail = m.labels.remove(i + 1);
            m.labels[i].extend_from_slice(&tail);
        }
        13 => {
            // merge with a literal dot octet: a.b -> a\.b (same text once unescaped, different name)
            if nl < 2 {
                return None;
            }
            let i = rng.usize_below(nl - 1);
            let tail = m.labels.remove(i + 1);
            m.labels[i].push(b'.');
            m.labels[i].extend_from_slice(&tail);
        }
        14 => {
            // split a label: abc -> a.bc
            if nl == 0 {
                return None;
            }
            let i = rng.usize_below(nl);
            if m.labels[i].len() < 2 {
                return None;
            }
            let at = rng.urange(1, m.labels[i].len() - 1);
            let tail = m.labels[i].split_off(at);
            m.labels.insert(i + 1, tail);
        }
        15 => {
            // move a label boundary: ab.c <-> a.bc
            if nl < 2 {
                return None;
            }
            let i = rng.usize_below(nl - 1);
            if rng.bool() {
                if m.labels[i].len() < 2 {
                    return None;
                }
                let c = m.labels[i].pop().unwrap();
                m.labels[i + 1].insert(0, c);
            } else {
                if m.labels[i + 1].len() < 2 {
                    return None;
                }
                let c = m.labels[i + 1].remove(0);
                m.labels[i].push(c);
            }
        }
        16 => {
            // parent / ancestor
            if nl == 0 {
                return None;
            }
            let drop = if rng.bool() { 1 } else { rng.urange(1, nl) };
            m.labels.drain(..drop);
        }
        17 => {
            // drop the rightmost label (different TLD side)
            if nl == 0 {
                return None;
            }
            m.labels.pop();
        }
        18 | 19 => {
            // child: new leftmost label
            let l: Vec<u8> = match rng.below(8) {
                0 => b"*".to_vec(),
                1 => vec![0x01],
                2 => vec![0xC8],
                3 => vec![0x00],
                4 => vec![*rng.pick(TRICKY)],
                5 => b"www".to_vec(),
                _ => gen::label(rng, NameStyle::Binary, 12),
            };
            m.labels.insert(0, l);
        }
        20 => {
            // new rightmost label
            let l = gen::label(rng, NameStyle::Small, 12);
            m.labels.push(l);
        }
        21 | 22 => {
            // sibling: replace the leftmost label (wildcard vs \001 vs \200 vs neighbours of '*')
            if nl == 0 {
                return None;
            }
            m.labels[0] = match rng.below(7) {
                0 => b"*".to_vec(),
                1 => vec![0x01],
                2 => vec![0xC8],
                3 => vec![0x29],
                4 => vec![0x2B],
                5 => b"*a".to_vec(),
                _ => vec![*rng.pick(TRICKY)],
            };
        }
        23 => {
            // swap two labels
            if nl < 2 {
                return None;
            }
            let i = rng.usize_below(nl);
            let j = rng.usize_below(nl);
            m.labels.swap(i, j);
        }
        24 => {} // identical copy
        _ => m = base_name(rng),
    }
    if m.valid() {
        Some(m)
    } else {
        None
    }
}

pub fn family(rng: &mut Rng) -> Vec<RName> {
    let base = base_name(rng);
    let want = rng.urange(6, 16);
    let mut v = vec![base];
    let mut tries = 0;
    while v.len() < want && tries < 80 {
        tries += 1;
        // mostly derive from the base, sometimes from a relative (second-order relatives)
        let from = if rng.chance(2, 3) { 0 } else { rng.usize_below(v.len()) };
        let src = v[from].clone();
        if let Some(m) = derive(rng, &src) {
            v.push(m);
        }
    }
    rng.shuffle(&mut v);
    v
}

/// hand-written families that must always be covered (index → family)
pub fn pinned_families() -> Vec<Vec<RName>> {
    let n = |ls: &[&[u8]], fqdn: bool| RName::new(ls.iter().map(|l| l.to_vec()).collect(), fqdn);
    let mut out = vec![crate::refname::rfc4034_examples()];
    out.push(vec![n(&[b"ab", b"c"], true), n(&[b"a", b"bc"], true), n(&[b"abc"], true), n(&[b"a", b"b", b"c"], true), n(&[b"a.b", b"c"], true), n(&[b"a.b.c"], true), n(&[b"AB", b"C"], true)]);
    out.push(vec![n(&[b"a"], true), n(&[b"a\x00"], true), n(&[b"A\x00"], true), n(&[b"a\x00\x00"], true), n(&[b"b"], true), n(&[b"\x00", b"a"], true), n(&[b"a", b"a"], true), n(&[], true)]);
    out.push(vec![n(&[b"@"], true), n(&[b"`"], true), n(&[b"["], true), n(&[b"{"], true), n(&[b"Z"], true), n(&[b"z"], true), n(&[b"A"], true), n(&[b"a"], true), n(&[b"\xc1"], true), n(&[b"\xe1"], true), n(&[b"\x5e"], true), n(&[b"\x7e"], true)]);
    out.push(vec![n(&[], true), n(&[], false), n(&[b"a"], true), n(&[b"a"], false), n(&[b"A"], false), n(&[b"a", b"b"], false), n(&[b"a", b"b"], true), n(&[b"b"], false)]);
    out.push(vec![n(&[b"*", b"z"], true), n(&[b"\x01", b"z"], true), n(&[b"\xc8", b"z"], true), n(&[b")", b"z"], true), n(&[b"+", b"z"], true), n(&[b"*", b"Z"], true), n(&[b"**", b"z"], true), n(&[b"z"], true), n(&[b"a", b"*", b"z"], true)]);
    // maximal shapes
    let l63 = |c: u8, last: u8| {
        let mut v = vec![c; 63];
        v[62] = last;
        v
    };
    let big = |last: u8| RName::new(vec![l63(b'x', last), l63(b'y', b'y'), l63(b'z', b'z'), vec![b'w'; 61]], true);
    out.push(vec![big(b'x'), big(b'X'), big(b'y'), big(0), RName::new(vec![vec![b'a']; 127], true), RName::new(vec![vec![b'A']; 127], true), RName::new(vec![vec![b'a']; 126], true)]);
    out
}

/// a name whose wire length is exactly `total` (1..=255 legal; above that illegal on purpose),
/// built from labels of at most `maxlabel` octets (64 makes an illegal label on purpose)
pub fn name_with_wire_len(rng: &mut Rng, total: usize, maxlabel: usize, host: bool) -> Vec<Vec<u8>> {
    let mut out: Vec<Vec<u8>> = Vec::new();
    let mut left = total.saturating_sub(1);
    while left >= 2 {
        let mut l = (left - 1).min(maxlabel);
        if left - 1 - l == 1 {
            // would leave a single octet (no room for a label): shorten this one
            l -= 1;
        }
        if l == 0 {
            break;
        }
        let lab: Vec<u8> = (0..l).map(|k| if host { if k == 0 { *rng.pick(b"abcXYZ09_") } else { *rng.pick(b"abcXYZ09_-") } } else { *rng.pick(b"abXY\x00\xff.\\ *") }).collect();
        out.push(lab);
        left -= l + 1;
    }
    if rng.bool() {
        out.reverse();
    }
    out
}
