//! Thorough tier only: the same scripted provider under a multi-thread runtime on the real clock.
//! 64 callers × 4 keys hammer one pool from spawned tasks. Only order-independent clauses are
//! judged: (ii) every Ok/NXDOMAIN carries the marker of an exchange that really happened for that
//! query on a slot scripted for that reply, and (v-outcome) after a first wave of callers has
//! completely finished (so every creator of a shared lookup has dropped its cleanup guard), no
//! caller of a second wave receives a result whose reply was logged before the second wave began
//! (monotonic clock; a reply is logged before it is handed to the pool).

use std::sync::Arc;
use std::time::Duration;

use serde_json::json;
use vh::mon::{self, Reporter};
use vh::prng::Rng;

use crate::scn::{Beh, Caller, Scenario, Server, Strat};
use crate::sim::{self, Kind, Outcome};

const CALLERS: usize = 64;
const KEYS: u8 = 4;

fn gen(rng: &mut Rng) -> Scenario {
    let n = rng.urange(2, 4);
    let mut servers = Vec::new();
    for i in 0..n {
        let b = if i == 0 {
            Beh::Answer { d: rng.range(1, 4) }
        } else {
            match rng.weighted(&[40, 20, 20, 20]) {
                0 => Beh::Answer { d: rng.range(0, 4) },
                1 => Beh::IoErr { d: rng.range(0, 2), reset: rng.bool() },
                2 => Beh::Busy { k: rng.range(1, 3) as u32, d: rng.range(0, 3) },
                _ => Beh::Nx { d: rng.range(0, 2) },
            }
        };
        servers.push(Server { udp: Some(b), tcp: None, trust_nx: false });
    }
    rng.shuffle(&mut servers);
    Scenario {
        servers,
        strat: *rng.pick(&Strat::ALL),
        conc: *rng.pick(&[1usize, 2, 4]),
        timeout: 5000,
        warm: Vec::new(),
        callers: (0..CALLERS).map(|_| Caller { q: rng.below(KEYS as u64) as u8, at: rng.range(0, 6), cancel: None }).collect(),
        later: false,
    }
}

pub fn round(rep: &mut Reporter, rng: &mut Rng) {
    let scn = gen(rng);
    let scn2 = scn.clone();
    let res = mon::catch(move || {
        let rt = tokio::runtime::Builder::new_multi_thread().worker_threads(4).enable_time().build().expect("runtime");
        rt.block_on(async move {
            let (prov, pool) = sim::setup(&scn2);
            let origin = prov.origin();
            let pool = Arc::new(pool);
            let mut calls = Vec::new();
            let mut wave2_start = 0u64;
            for wave in 0..2usize {
                if wave == 1 {
                    wave2_start = tokio::time::Instant::now().saturating_duration_since(origin).as_micros() as u64;
                }
                let mut hs = Vec::new();
                for (i, c) in scn2.callers.iter().cloned().enumerate() {
                    let pool = pool.clone();
                    hs.push(tokio::spawn(async move { sim::one_lookup(&pool, origin, wave * CALLERS + i, &c).await }));
                }
                for h in hs {
                    match tokio::time::timeout(Duration::from_secs(60), h).await {
                        Ok(Ok(c)) => calls.push(c),
                        Ok(Err(e)) if e.is_panic() => return Some(Err("task-panicked")),
                        _ => return Some(Err("timeout")),
                    }
                }
            }
            let (log, runaway) = prov.snapshot();
            Some(Ok((calls, log, runaway, wave2_start)))
        })
    });
    rep.count("stress_rounds");
    let (calls, log, _runaway, wave2_start) = match res {
        Ok(Some(Ok(x))) => x,
        Ok(Some(Err("task-panicked"))) => {
            rep.eval();
            rep.violation("panic", "stress|task-panicked", scn.to_json(), json!("no panic"), json!("a spawned caller task panicked"));
            return;
        }
        Ok(_) => {
            rep.inconclusive("stress: a spawned caller did not finish within 60 s of real time");
            return;
        }
        Err(p) => {
            rep.eval();
            rep.violation("panic", &format!("stress|{}", p.site()), scn.to_json(), json!("no panic"), json!({"message": p.message, "location": p.location}));
            return;
        }
    };
    let answers = log.iter().filter(|e| e.kind == Kind::ReplyAnswer).count();
    rep.add("stress_callers", calls.len() as u64);
    rep.add("stress_answer_exchanges", answers as u64);
    let oks = calls.iter().filter(|c| matches!(c.outcome, Outcome::Ok { .. })).count();
    if oks > answers {
        rep.add("stress_shared_results", (oks - answers) as u64);
    }
    for c in &calls {
        rep.eval();
        let (seq, want_kind) = match &c.outcome {
            Outcome::Ok { seq, .. } => (*seq, Kind::ReplyAnswer),
            Outcome::Nx { seq } => (*seq, Kind::ReplyNx),
            _ => continue,
        };
        let ev = log.iter().find(|e| e.seq == seq && e.kind == want_kind);
        let legit = match (&c.outcome, ev) {
            (Outcome::Ok { server, proto, q, tc, marker, .. }, Some(e)) => {
                *marker && !*tc && *q == c.q && e.q == c.q as i32 && e.server == *server as usize && e.proto == *proto
                    && matches!(scn.servers.get(e.server).and_then(|s| s.slot(e.proto)), Some(Beh::Answer { .. }) | Some(Beh::Busy { .. }))
            }
            (Outcome::Nx { .. }, Some(e)) => e.q == c.q as i32 && matches!(scn.servers.get(e.server).and_then(|s| s.slot(e.proto)), Some(Beh::Nx { .. })),
            _ => false,
        };
        let observed = json!({"caller": c.idx, "q": c.q, "start_us": c.start, "end_us": c.end, "outcome": c.outcome.text(),
            "reply": ev.map(|e| json!({"t_us": e.t, "server": e.server, "q": e.q, "seq": e.seq}))});
        if !legit {
            rep.violation("wrong-answer", "stress|marker-not-legitimate", scn.to_json(), json!("result stems from an exchange scripted to give it for this query"), observed);
        } else if c.idx >= CALLERS && ev.map(|e| e.t < wave2_start).unwrap_or(false) {
            rep.violation("sharing", "stress|stale-result", scn.to_json(), json!("second-wave results stem from exchanges made after the first wave had completely finished"), observed);
        }
    }
}
