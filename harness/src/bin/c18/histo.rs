//! Oracle of the C18 full-stack HISTORY part (`hist.rs`): sequential lookups on one pool whose
//! pooled connections are killed by the scripted peers between (or during) lookups.
//!
//! Rule ids
//!   fs-reuse-availability   for every lookup of the history: when the timing model says that a
//!                           server scripted to answer THIS lookup on a fresh connection is reached
//!                           within 80 % of the timeout, the lookup returns a genuine answer.
//!                           A violating history is MINIMIZED first (`minimize`: cut after the
//!                           lookup; greedily drop events, earlier lookups, replace a server by one
//!                           that refuses connections, drop the UDP port of a UDP+TCP server, drop
//!                           the other server, plainest strategy / concurrency — as long as some
//!                           lookup still violates the clause with the same outcome kind) and
//!                           reported on the minimized case. Signature
//!                           `<event class>|<transport>|<outcome>`: OBSERVED class(es) of the dead
//!                           connection(s) that matter for the lookup (`observed_classes`:
//!                           idle-closed | write-fails | no-reply | partial |
//!                           closed-with-request-outstanding | udp-send-reset | udp-send-other,
//!                           joined by `+`; `none`), flavour of the server that should have answered
//!                           (tcp / udp-tc-tcp / ...), what came back instead (err-Timeout,
//!                           err-Message, err-Busy, nx-untrusted, ...).
//!   fs-dead-connection-reused   a TCP stream whose script already TOLD hickory that it is dead (a
//!                           read returned EOF / ConnectionReset, a write returned an error) is not
//!                           written to again during the lookup in which that happened.
//!   fs-deadline / fs-wrong-answer / fs-nx-untrusted / fs-connect-timeout   as in `fullo.rs`, per
//!                           lookup of the history
//!
//! Timing model = the model of `fullo.rs` (`exact` for UserProvidedOrder + num_concurrent_reqs ≤ 1,
//! `sum_bound` otherwise, 20 % margin) applied to a DERIVED one-lookup scenario: a dead pooled
//! connection costs what its script says (the failed attempt: 0 for a close / reset / failing
//! write, g for "no reply, FIN after g", the reply latency for "half a reply, then FIN") plus one
//! reconnect (c) plus SLACK_MS; that allowance is added to the reply latency of every server on
//! which a TCP event was scripted at or before the lookup (also when the event hit no connection or
//! was consumed by an earlier lookup: upper bound). A server whose one-shot UDP send failure is
//! still armed counts as failing at once for this lookup (hickory moves on to the next server after
//! an io error; whether it "reconnects" a UDP pseudo-connection first is not demanded).
//!
//! Don't-cares
//!   * everything `fullo.rs` lists (T beyond the margin, silent server / trusted NXDOMAIN on the
//!     way, which healthy server wins, what error is reported when nothing answers);
//!   * how a dead pooled connection is replaced (at once, or after the pool's busy back-off — the
//!     SLACK_MS allowance covers the whole back-off schedule 20+40+80+160 ms);
//!   * a write on a dead stream in a LATER lookup than the one in which hickory was told (counted).
//!     NB: in the unchanged connection stack the connection task (`DnsExchangeBackground`) exits on
//!     the first stream error / EOF, so no second write can reach the socket at all — the clause is a
//!     guard for a changed stack; defects of the reconnect-once logic surface as
//!     fs-reuse-availability (the retry on the dead handle reports `Busy`, the server is deferred
//!     behind the others and a silent one eats the budget);
//!   * QueryStatistics with ≥ 2 servers is not generated (SRTTs are measured on the real clock).

use std::collections::BTreeSet;

use serde_json::json;
use vh::mon::{self, Reporter};
use vh::prng::fnv64;

use crate::full::{Conn, FCaller, FEv, FRun, FScn, FServer, Inject, Reply, TcpBeh, UdpBeh};
use crate::fullo::{self, Pred, J};
use crate::hist::{self, HRun, HScn};
use crate::scn::Strat;
use crate::sim::Outcome;

/// allowance for the pool's busy back-off when a dead connection is reported as `Busy`
pub const SLACK_MS: u64 = 300;

/// the one-lookup scenario the timing model is evaluated on for lookup `k`
pub fn derived(h: &HScn, k: usize, udp_armed: &[usize]) -> FScn {
    let mut d = h.base.clone();
    d.callers = vec![FCaller { q: h.lookups[k].q, at: 0 }];
    for (s, srv) in d.servers.iter_mut().enumerate() {
        let base_l = match srv.tcp.as_ref().map(|t| &t.reply) {
            Some(Reply::Answer { l }) | Some(Reply::Nx { l }) | Some(Reply::Close { l }) | Some(Reply::Reset { l }) => *l,
            _ => 0,
        };
        let mut cost: Option<u64> = None;
        for e in h.lookups[..=k].iter().flat_map(|l| l.events.iter()).filter(|e| e.server == s) {
            let c = match &e.what {
                Inject::Fin { .. } | Inject::Rst | Inject::WriteFails { .. } | Inject::FinAfterAnswer { .. } => 0,
                Inject::NoReply { g, .. } => *g,
                Inject::Partial { .. } => base_l,
                Inject::UdpSendFails { .. } => continue,
            };
            cost = Some(cost.map_or(c, |x: u64| x.max(c)));
        }
        if let (Some(cost), Some(tcp)) = (cost, srv.tcp.as_mut()) {
            if let Conn::Ok { c } = tcp.conn {
                let extra = cost + c + SLACK_MS;
                match &mut tcp.reply {
                    Reply::Answer { l } | Reply::Nx { l } | Reply::Close { l } | Reply::Reset { l } => *l += extra,
                    Reply::Silent => {}
                }
            }
        }
        if udp_armed.contains(&s) && srv.udp.is_some() {
            srv.udp = Some(UdpBeh::SendErr);
        }
    }
    d
}

fn flavour(h: &HScn, s: usize) -> &'static str {
    match h.base.servers.get(s) {
        Some(srv) => match (&srv.udp, &srv.tcp) {
            (Some(UdpBeh::Trunc { .. }), Some(_)) => "udp-tc-tcp",
            (Some(_), Some(_)) => "udp+tcp",
            (None, Some(_)) => "tcp",
            _ => "udp",
        },
        None => "?",
    }
}

fn in_win(e: &FEv, start: u64, end: u64) -> bool {
    e.t >= start && e.t <= end
}

const TOLD: [&str; 3] = ["tcp-eof", "tcp-reset", "tcp-write-error"];

/// Run and judge one history.
pub fn judge(rep: &mut Reporter, h: &HScn) {
    let case = h.to_json();
    if h.n_events() >= 1 {
        rep.nontrivial(fnv64(h.canonical().as_bytes()));
    }
    rep.count("fs_hist_cases");
    rep.count(&format!("fs_hist_family_{}", h.base.family));
    rep.count(&format!("fs_hist_servers_{}", h.base.servers.len()));
    let out: HRun = match mon::catch(|| hist::run_hist(h)) {
        Ok(o) => o,
        Err(p) => {
            rep.eval();
            rep.violation("fs-panic", &p.site(), case, json!("no panic"), json!({"message": p.message, "location": p.location}));
            return;
        }
    };
    let frun = FRun {
        calls: out.calls.clone(),
        later: None,
        log: out.log.clone(),
        attempts: out.attempts.clone(),
        max_outstanding: Vec::new(),
        runaway: out.runaway,
        stuck: out.stuck,
    };
    let scn = &h.base;
    let mut j = J { rep, scn, case };
    if out.stuck {
        j.rep.eval();
        j.viol(
            "fs-stuck",
            "history|no-completion-within-100x-timeout",
            json!("every lookup completes"),
            json!({"socket_log": fullo::log_json(&out.log)}),
        );
        return;
    }
    if out.runaway {
        j.rep.eval();
        j.viol(
            "fs-runaway",
            "history|send-budget-exhausted",
            json!("a history needs far fewer datagrams / TCP queries"),
            json!({"socket_log": fullo::log_json(&out.log)}),
        );
        return;
    }
    let to_us = scn.timeout * 1000;
    let ct_us = scn.connect_timeout * 1000;
    let log = &out.log;

    // ---- what was scripted / what hit an established connection
    for e in h.lookups.iter().flat_map(|l| l.events.iter()) {
        j.rep.count(&format!("fs_hist_scripted_{}", hist::inject_class(&e.what)));
    }
    for e in log.iter().filter(|e| e.kind == "tcp-inject") {
        j.rep.count(&format!("fs_hist_hit_{}", e.what));
        j.rep.count("fs_hist_hits");
    }
    for e in log.iter().filter(|e| e.kind == "udp-send-error" && e.what.starts_with("injected")) {
        j.rep.count(&format!("fs_hist_hit_udp-send-{}", if e.what.ends_with("reset") { "reset" } else { "other" }));
        j.rep.count("fs_hist_hits");
    }
    {
        let mut seen: BTreeSet<String> = BTreeSet::new();
        for e in log {
            seen.insert(if e.what.is_empty() { e.kind.to_string() } else { format!("{}-{}", e.kind, e.what) });
        }
        for k in seen {
            j.rep.count(&format!("fs_hist_obs_{k}"));
        }
    }
    j.rep.count(&format!("fs_hist_strat_{}", scn.strat.name()));
    j.rep.count(&format!("fs_hist_conc_{}", scn.conc));
    j.rep
        .sample(|| json!({"case": h.to_json(), "results": out.calls.iter().map(fullo::call_json).collect::<Vec<_>>(), "socket_events": log.len()}));

    // ---- connect_timeout honoured at the socket boundary
    for e in log.iter().filter(|e| e.kind == "tcp-connect") {
        j.rep.eval();
        if e.arg != ct_us as i64 {
            let sig = if e.arg < 0 {
                "wait_for-none"
            } else if e.arg == to_us as i64 {
                "wait_for-is-request-timeout"
            } else {
                "wait_for-other"
            };
            j.viol(
                "fs-connect-timeout",
                sig,
                json!({"connect_tcp wait_for_us": ct_us}),
                json!({"connect": e.json(), "socket_log": fullo::log_json(log)}),
            );
            break;
        }
    }

    // ---- deadline, per pool lookup
    for a in &out.attempts {
        j.rep.eval();
        let Some(end) = a.end else {
            continue;
        };
        let el = end - a.start;
        j.rep.max("fs_hist_max_elapsed_over_timeout", el as f64 / to_us as f64);
        if el > to_us + 1000 {
            let dl = a.start + to_us;
            let connecting = log
                .iter()
                .any(|e| e.kind == "tcp-connect" && e.t <= dl && !log.iter().any(|d| d.id == e.id && fullo::CONNECT_DONE.contains(&d.kind) && d.t <= dl));
            let class = if connecting { "tcp-connect-in-flight-at-deadline" } else { "other-at-deadline" };
            let over = if el <= 2 * to_us { "overrun-le-1x-timeout" } else { "overrun-gt-1x-timeout" };
            let c = out.calls.iter().find(|c| c.idx as i32 == a.caller).cloned();
            j.viol(
                "fs-deadline",
                &format!("history|{class}|{over}"),
                json!(format!("every NameServerPool lookup completes within timeout {} ms (+1 ms) of virtual time", scn.timeout)),
                json!({"elapsed_us": el, "lookup": {"caller": a.caller, "start_us": a.start, "end_us": end}, "detail": c.map(|c| fullo::observed(&frun, &c))}),
            );
        }
    }

    // ---- per lookup
    let budget = scn.timeout * 8 / 10;
    let exact_ok = scn.strat == Strat::User && scn.conc <= 1;
    let connected_at = |id: u32| log.iter().find(|e| e.kind == "tcp-connected" && e.id == id).map(|e| e.t);
    let mut seen_q: BTreeSet<u8> = BTreeSet::new();
    for c in &out.calls {
        let k = c.idx;
        let (ws, we) = (c.start, c.end);
        j.rep.count("fs_hist_lookups");
        if !seen_q.insert(c.q) {
            j.rep.count("fs_hist_repeated_name_lookups");
        }
        let kind = fullo::okind(scn, &frun, &c.outcome);
        j.rep.count(&format!("fs_hist_outcome_{kind}"));
        j.result_clauses(&frun, c, &kind);

        // evidence: connects caused, reuse, reconnects after a dead pooled connection
        let connects = log.iter().filter(|e| e.kind == "tcp-connect" && in_win(e, ws, we)).count();
        j.rep.count(match connects {
            0 => "fs_hist_lookup_connects_0",
            1 => "fs_hist_lookup_connects_1",
            _ => "fs_hist_lookup_connects_2plus",
        });
        j.rep.add("fs_hist_tcp_connects", connects as u64);
        if let Outcome::Ok { proto: 2, seq, tc: false, .. } = &c.outcome {
            if let Some(d) = log.iter().find(|e| e.kind == "tcp-deliver" && e.seq == *seq) {
                match connected_at(d.id) {
                    Some(t) if t < ws => j.rep.count("fs_hist_answered_on_reused_connection"),
                    _ => j.rep.count("fs_hist_answered_on_fresh_connection"),
                }
            }
        }
        // per server: the latest TCP event that hit one of its connections before this lookup and
        // was not yet followed by a new connect
        let mut pending: Vec<Option<&'static str>> = vec![None; scn.servers.len()];
        for (s, p) in pending.iter_mut().enumerate() {
            if let Some(inj) = log.iter().filter(|e| e.kind == "tcp-inject" && e.server == s && e.t < ws).last() {
                if !log.iter().any(|e| e.kind == "tcp-connect" && e.server == s && e.t > inj.t && e.t < ws) {
                    *p = Some(inj.what);
                }
            }
        }
        for (s, p) in pending.iter().enumerate() {
            let Some(class) = p else {
                continue;
            };
            j.rep.count(&format!("fs_hist_lookup_with_dead_pooled_connection_{class}"));
            let reconnected = log.iter().any(|e| e.kind == "tcp-connect" && e.server == s && in_win(e, ws, we));
            let answered_by_s = matches!(&c.outcome, Outcome::Ok { server, tc: false, .. } if *server as usize == s);
            if reconnected && answered_by_s {
                j.rep.count("fs_hist_reconnected_after_dead_connection");
                j.rep.count(&format!("fs_hist_reconnected_after_{class}"));
            }
        }
        if log.iter().any(|e| e.kind == "udp-send-error" && e.what.starts_with("injected") && in_win(e, ws, we)) {
            let s = log
                .iter()
                .find(|e| e.kind == "udp-send-error" && e.what.starts_with("injected") && in_win(e, ws, we))
                .map(|e| e.server)
                .unwrap_or(0);
            let again = log.iter().filter(|e| e.kind == "udp-send" && e.server == s && in_win(e, ws, we)).count() >= 2;
            if again {
                j.rep.count("fs_hist_udp_resent_after_injected_send_error");
            }
        }

        // ---- fs-reuse-availability
        let armed = out.udp_armed.get(k).cloned().unwrap_or_default();
        let d = derived(h, k, &armed);
        // class of the latest scripted event on a server (counters only; signatures are formed
        // on the minimized history, see `report_avail`)
        let class_of = |s: Option<usize>| -> &'static str {
            let udp_now = log
                .iter()
                .filter(|e| e.kind == "udp-send-error" && e.what.starts_with("injected") && in_win(e, ws, we) && s.map_or(true, |x| x == e.server))
                .last();
            if let Some(u) = udp_now {
                return if u.what.ends_with("reset") { "udp-send-reset" } else { "udp-send-other" };
            }
            log.iter()
                .filter(|e| e.kind == "tcp-inject" && e.t <= we && s.map_or(true, |x| x == e.server))
                .last()
                .map(|e| e.what)
                .unwrap_or("none")
        };
        let good = kind == "ok";
        j.rep.eval();
        let verdict = model(&d, exact_ok, budget);
        match &verdict {
            Model::Demand { server, exact, .. } => {
                let class = class_of(*server);
                j.rep.count("fs_hist_avail_applicable");
                j.rep.count(if *exact { "fs_hist_avail_exact" } else { "fs_hist_avail_sum" });
                j.rep.count(&format!("fs_hist_avail_class_{class}"));
                if k > 0 {
                    j.rep.count("fs_hist_avail_later_lookup");
                }
                if pending.iter().any(|p| p.is_some()) {
                    j.rep.count("fs_hist_avail_with_dead_pooled_connection");
                }
                // the situations in which only an immediate reconnect saves the lookup
                if pending.iter().flatten().any(|c| matches!(*c, "write-fails" | "no-reply" | "partial")) {
                    j.rep.count("fs_hist_avail_death_surfaces_in_lookup");
                }
                if let (true, Some(s)) = (*exact, *server) {
                    if pending[s].is_some() && matches!(scn.family.as_str(), "history-silent-other" | "history-expensive-other") {
                        j.rep.count("fs_hist_avail_exact_dead_pooled_then_trap_server");
                    }
                }
                if !good {
                    report_avail(&mut j, h, k, &kind);
                }
            }
            Model::DontCare(why) => j.rep.count(&format!("fs_hist_dc_{why}")),
        }

        // ---- fs-dead-connection-reused
        j.rep.eval();
        for w in log.iter().filter(|e| e.kind == "tcp-write-after-dead" && in_win(e, ws, we)) {
            let told = log.iter().find(|e| e.id == w.id && TOLD.contains(&e.kind)).map(|e| e.t);
            match told {
                Some(t) if t >= ws => {
                    let class = log.iter().filter(|e| e.kind == "tcp-inject" && e.id == w.id).last().map(|e| e.what).unwrap_or("scripted-close");
                    j.viol(
                        "fs-dead-connection-reused",
                        &format!("{class}|second-request-on-dead-stream"),
                        json!("a TCP stream that reported EOF / reset / a write error to hickory is not written to again during that lookup"),
                        json!({"lookup": k, "write": w.json(), "told_dead_at_us": t, "detail": fullo::observed(&frun, c)}),
                    );
                    break;
                }
                _ => j.rep.count("fs_hist_dc_write_on_dead_stream_in_later_lookup"),
            }
        }
    }
}

/// what the timing model demands for the (single) lookup of a derived scenario
enum Model {
    /// a genuine answer is demanded; `server`: the one the exact model expects to answer
    Demand {
        server: Option<usize>,
        exact: bool,
        t: u64,
        trace: Vec<String>,
    },
    DontCare(String),
}

fn model(d: &FScn, exact_ok: bool, budget: u64) -> Model {
    if exact_ok {
        let (pred, trace) = fullo::exact(d);
        match pred {
            Pred::Answer { t, server, .. } if t <= budget => Model::Demand {
                server: Some(server),
                exact: true,
                t,
                trace,
            },
            Pred::Answer { .. } => Model::DontCare("T_beyond_margin".into()),
            Pred::TrustedNx { .. } => Model::DontCare("trusted_nx".into()),
            Pred::Nothing { why } => Model::DontCare(why.to_string()),
        }
    } else {
        match fullo::sum_bound(d) {
            Some(t) if t <= budget => Model::Demand {
                server: None,
                exact: false,
                t,
                trace: Vec::new(),
            },
            Some(_) => Model::DontCare("T_beyond_margin".into()),
            None => Model::DontCare("sum_not_applicable".into()),
        }
    }
}

/// First lookup of `h` that violates fs-reuse-availability with outcome kind `kind`.
fn probe(h: &HScn, kind: &str) -> Option<usize> {
    let out = mon::catch(|| hist::run_hist(h)).ok()?;
    if out.stuck || out.runaway {
        return None;
    }
    let frun = FRun {
        calls: out.calls.clone(),
        later: None,
        log: out.log.clone(),
        attempts: out.attempts.clone(),
        max_outstanding: Vec::new(),
        runaway: false,
        stuck: false,
    };
    let exact_ok = h.base.strat == Strat::User && h.base.conc <= 1;
    for c in &out.calls {
        let k = c.idx;
        if fullo::okind(&h.base, &frun, &c.outcome) != kind {
            continue;
        }
        let d = derived(h, k, out.udp_armed.get(k).map(|v| v.as_slice()).unwrap_or(&[]));
        if let Model::Demand { .. } = model(&d, exact_ok, h.base.timeout * 8 / 10) {
            return Some(k);
        }
    }
    None
}

/// Reduce a history whose lookup `k` violates fs-reuse-availability with outcome `kind`: cut
/// after lookup k, then greedily drop events, earlier lookups and the other server as long as
/// the last lookup still violates the clause with the same outcome kind. Deterministic.
fn minimize(h: &HScn, k: usize, kind: &str) -> HScn {
    let mut cur = HScn {
        base: h.base.clone(),
        lookups: h.lookups[..=k].to_vec(),
    };
    if kind == "ok" || probe(&cur, kind).is_none() {
        // does not reproduce on its own (should not happen: runs are deterministic)
        return cur;
    }
    // a candidate is accepted when one of its lookups still violates the clause with the same
    // outcome kind; it is cut after the first such lookup
    let same = |c: &mut HScn| match probe(c, kind) {
        Some(i) => {
            c.lookups.truncate(i + 1);
            true
        }
        None => false,
    };
    {
        let mut c0 = cur.clone();
        if same(&mut c0) {
            cur = c0;
        }
    }
    for _round in 0..3 {
        let before = cur.clone();
        // events
        let mut li = 0;
        while li < cur.lookups.len() {
            let mut ei = 0;
            while li < cur.lookups.len() && ei < cur.lookups[li].events.len() {
                let mut cand = cur.clone();
                cand.lookups[li].events.remove(ei);
                if same(&mut cand) {
                    cur = cand;
                } else {
                    ei += 1;
                }
            }
            li += 1;
        }
        // earlier lookups (the events of a dropped lookup move into the gap of the next one)
        let mut li = 0;
        while li + 1 < cur.lookups.len() {
            let mut cand = cur.clone();
            let gone = cand.lookups.remove(li);
            if li > 0 || gone.events.iter().all(|e| matches!(e.what, Inject::FinAfterAnswer { .. } | Inject::UdpSendFails { .. })) {
                let next = &mut cand.lookups[li];
                let mut evs = gone.events.clone();
                for e in evs.iter_mut() {
                    e.at = e.at.min(next.gap);
                }
                evs.extend(next.events.iter().cloned());
                evs.sort_by_key(|e| e.at);
                next.events = evs;
            }
            if li == 0 {
                cand.lookups[0].gap = 0;
                for e in cand.lookups[0].events.iter_mut() {
                    e.at = 0;
                }
            }
            if same(&mut cand) {
                cur = cand;
            } else {
                li += 1;
            }
        }
        // a server that only has to be out of the way: one that refuses TCP connections at once
        if cur.base.servers.len() == 2 {
            for s in 0..2 {
                let refused = FServer {
                    udp: None,
                    tcp: Some(TcpBeh {
                        conn: Conn::Refused { c: 0 },
                        reply: Reply::Silent,
                    }),
                    trust_nx: false,
                };
                if cur.base.servers[s] == refused {
                    continue;
                }
                let mut cand = cur.clone();
                cand.base.servers[s] = refused;
                for l in cand.lookups.iter_mut() {
                    l.events.retain(|e| e.server != s);
                }
                if same(&mut cand) {
                    cur = cand;
                }
            }
        }
        // the UDP (TC=1) port of a pooling server
        for s in 0..cur.base.servers.len() {
            if cur.base.servers[s].udp.is_some() && cur.base.servers[s].tcp.is_some() {
                let mut cand = cur.clone();
                cand.base.servers[s].udp = None;
                for l in cand.lookups.iter_mut() {
                    l.events.retain(|e| !(e.server == s && matches!(e.what, Inject::UdpSendFails { .. })));
                }
                if same(&mut cand) {
                    cur = cand;
                }
            }
        }
        // the other server
        if cur.base.servers.len() == 2 {
            for gone in 0..2 {
                let mut cand = cur.clone();
                cand.base.servers.remove(gone);
                for l in cand.lookups.iter_mut() {
                    l.events.retain(|e| e.server != gone);
                    for e in l.events.iter_mut() {
                        e.server = 0;
                    }
                }
                if same(&mut cand) {
                    cur = cand;
                    break;
                }
            }
        }
        // one caller at a time is all a history has: try the plainest options
        for (strat, conc) in [(Strat::User, 1usize), (cur.base.strat, 1), (Strat::User, cur.base.conc)] {
            if cur.base.strat == strat && cur.base.conc == conc {
                continue;
            }
            let mut cand = cur.clone();
            cand.base.strat = strat;
            cand.base.conc = conc;
            if same(&mut cand) {
                cur = cand;
                break;
            }
        }
        if cur == before {
            break;
        }
    }
    cur
}

/// OBSERVED class of every scripted connection death that matters for the lookup whose socket
/// events are `log[i0..i1]` — formed from what happened at the socket boundary, not from the
/// name of the scripted event:
///   idle-closed     hickory's reader was told (EOF / reset) while no query of this lookup was
///                   outstanding on the connection: before the lookup started (and no new connection
///                   to that server was opened since), or during the lookup before its query reached
///                   the connection. (Whether hickory's connection task processed the close before
///                   or after the request was handed to it cannot be told apart at the socket
///                   boundary when both happen at one instant; the OUTCOME part of the signature
///                   differs.)
///   write-fails     the write of the lookup's query failed
///   no-reply / partial / closed-with-request-outstanding
///                   the connection died after the lookup's query was written to it
///   udp-send-reset / udp-send-other   injected `send_to` failure during the lookup
fn observed_classes(log: &[FEv], i0: usize, i1: usize) -> Vec<String> {
    let mut v: BTreeSet<String> = BTreeSet::new();
    let i1 = i1.min(log.len());
    let i0 = i0.min(i1);
    // every connection (injected or closed by its server's own script) by the FIRST event that
    // told hickory about its death
    let mut seen: BTreeSet<u32> = BTreeSet::new();
    for (told, e) in log.iter().enumerate().take(i1).filter(|(_, e)| TOLD.contains(&e.kind)) {
        if !seen.insert(e.id) {
            continue;
        }
        let what = log[..told].iter().filter(|x| x.kind == "tcp-inject" && x.id == e.id).last().map(|x| x.what).unwrap_or("");
        if told < i0 {
            let replaced = log[told..i0].iter().any(|x| x.kind == "tcp-connect" && x.server == e.server);
            if !replaced {
                v.insert("idle-closed".into());
            }
        } else if e.kind == "tcp-write-error" {
            v.insert("write-fails".into());
        } else if log[i0..told].iter().any(|x| x.kind == "tcp-query" && x.id == e.id) {
            v.insert(match what {
                "no-reply" | "partial" => what.to_string(),
                // (also a server whose own script closes instead of replying)
                _ => "closed-with-request-outstanding".to_string(),
            });
        } else {
            v.insert("idle-closed".into());
        }
    }
    for e in log[i0..i1].iter().filter(|e| e.kind == "udp-send-error" && e.what.starts_with("injected")) {
        v.insert(if e.what.ends_with("reset") { "udp-send-reset".into() } else { "udp-send-other".into() });
    }
    v.into_iter().collect()
}

/// report an fs-reuse-availability violation of lookup `k` on the minimized history
fn report_avail(j: &mut J<'_>, h: &HScn, k: usize, kind: &str) {
    let m = minimize(h, k, kind);
    let out = match mon::catch(|| hist::run_hist(&m)) {
        Ok(o) => o,
        Err(_) => return,
    };
    let kk = m.lookups.len() - 1;
    let Some(c) = out.calls.get(kk) else {
        return;
    };
    let frun = FRun {
        calls: out.calls.clone(),
        later: None,
        log: out.log.clone(),
        attempts: out.attempts.clone(),
        max_outstanding: Vec::new(),
        runaway: false,
        stuck: false,
    };
    let mkind = fullo::okind(&m.base, &frun, &c.outcome);
    let d = derived(&m, kk, out.udp_armed.get(kk).map(|v| v.as_slice()).unwrap_or(&[]));
    let exact_ok = m.base.strat == Strat::User && m.base.conc <= 1;
    let budget = m.base.timeout * 8 / 10;
    let (server, t, trace, exact) = match model(&d, exact_ok, budget) {
        Model::Demand { server, t, trace, exact } => (server, t, trace, exact),
        Model::DontCare(_) => (None, 0, Vec::new(), false),
    };
    let (i0, i1) = out.log_idx.get(kk).copied().unwrap_or((0, out.log.len()));
    let classes = observed_classes(&out.log, i0, i1);
    let class = if classes.is_empty() { "none".to_string() } else { classes.join("+") };
    // flavour of the server that should have answered: the model's, else the one an event hit
    let srv = server.or_else(|| out.log.iter().filter(|e| e.kind == "tcp-inject").last().map(|e| e.server)).unwrap_or(0);
    j.rep.violation(
        "fs-reuse-availability",
        &format!("{class}|{}|{mkind}", flavour(&m, srv)),
        m.to_json(),
        json!({
            "lookup": kk,
            "a server scripted to answer this lookup on a fresh connection is reached within 80 % of the timeout; model (ms; dead pooled connection = failed attempt + reconnect + slack)": trace,
            "model": if exact { "exact" } else { "sum" },
            "T_ms": t,
            "budget_ms": budget,
        }),
        json!({"detail": fullo::observed(&frun, c), "minimized_from": {"case": h.to_json(), "lookup": k, "outcome": kind}}),
    );
}

/// debugging aid for `--replay FILE --dump=1`
pub fn dump(h: &HScn) {
    let out = hist::run_hist(h);
    for c in &out.calls {
        eprintln!("{}", fullo::call_json(c));
    }
    for a in &out.attempts {
        eprintln!("pool lookup: caller {} start {} end {:?}", a.caller, a.start, a.end);
    }
    for e in &out.log {
        eprintln!("{}", e.json());
    }
    for k in 0..out.calls.len() {
        let d = derived(h, k, out.udp_armed.get(k).map(|v| v.as_slice()).unwrap_or(&[]));
        let (p, trace) = fullo::exact(&d);
        eprintln!("lookup {k}: exact model on the derived scenario: {p:?} {trace:?}; sum bound: {:?}", fullo::sum_bound(&d));
    }
}
