//! Independent reference for DNSSEC signed data (RFC 4034 §6.2/§6.3, RFC 4035 §5.3.2, RFC 6840
//! §5.1) and for signing/verifying with ring directly. Plain types only: names are
//! `Vec<Vec<u8>>`, RDATA is raw uncompressed wire bytes.
#![allow(dead_code)]

use ring::rand::SystemRandom;
use ring::signature::{self, EcdsaKeyPair, Ed25519KeyPair, KeyPair, RsaKeyPair};

use vh::gen::{type_info, F};
use vh::refwire::Labels;

/// Types whose embedded domain names are lower-cased in canonical form: RFC 4034 §6.2 item 3 as
/// amended by RFC 6840 §5.1 (NSEC removed; HINFO has no names). Includes the obsolete types.
pub const FOLD_TYPES: &[u16] = &[2, 3, 4, 5, 6, 7, 8, 9, 12, 14, 15, 17, 18, 21, 24, 26, 30, 33, 35, 36, 38, 39, 46];

/// (start, end, is_name) of each field of `raw` according to the schema of `rtype`.
/// Names must be uncompressed.
pub fn name_spans(rtype: u16, raw: &[u8]) -> Result<Vec<(usize, usize)>, String> {
    // RFC 4034 §6.2-listed types that have no schema in the shared generator table
    let extra: Option<&[F]> = match rtype {
        39 | 3 | 4 | 7 | 8 | 9 => Some(&[F::NameNC]),  // DNAME, MD, MF, MB, MG, MR
        36 | 18 | 21 => Some(&[F::U16, F::NameNC]),      // KX, AFSDB, RT
        17 | 14 => Some(&[F::NameNC, F::NameNC]),        // RP, MINFO
        26 => Some(&[F::U16, F::NameNC, F::NameNC]),     // PX
        _ => None,
    };
    let schema: &[F] = match (extra, type_info(rtype)) {
        (Some(s), _) => s,
        (None, Some(info)) => info.schema,
        (None, None) => return Ok(vec![]),
    };
    let mut spans = Vec::new();
    let mut p = 0usize;
    let need = |p: usize, n: usize| if p + n <= raw.len() { Ok(()) } else { Err(format!("rdata too short at {p}")) };
    for f in schema {
        match f {
            F::NameC | F::NameNC => {
                let start = p;
                loop {
                    need(p, 1)?;
                    let l = raw[p] as usize;
                    if l & 0xC0 != 0 {
                        return Err("compressed or reserved label in raw rdata".into());
                    }
                    p += 1;
                    if l == 0 {
                        break;
                    }
                    need(p, l)?;
                    p += l;
                }
                spans.push((start, p));
            }
            F::U8 | F::Proto3 | F::N3Alg | F::N3Flags => {
                need(p, 1)?;
                p += 1
            }
            F::U16 => {
                need(p, 2)?;
                p += 2
            }
            F::U32 | F::V4 => {
                need(p, 4)?;
                p += 4
            }
            F::U48 => {
                need(p, 6)?;
                p += 6
            }
            F::V6 => {
                need(p, 16)?;
                p += 16
            }
            F::CharStr | F::L8Bytes => {
                need(p, 1)?;
                let l = raw[p] as usize;
                need(p + 1, l)?;
                p += 1 + l
            }
            F::L16Bytes => {
                need(p, 2)?;
                let l = u16::from_be_bytes([raw[p], raw[p + 1]]) as usize;
                need(p + 2, l)?;
                p += 2 + l
            }
            F::CharStrs | F::Rest | F::Rest1 | F::Bitmap | F::SvcParams | F::EdnsOpts => p = raw.len(),
        }
    }
    Ok(spans)
}

/// RFC 4034 §6.2 canonical RDATA from raw uncompressed RDATA.
pub fn canonical_rdata(rtype: u16, raw: &[u8]) -> Result<Vec<u8>, String> {
    let mut out = raw.to_vec();
    if FOLD_TYPES.contains(&rtype) {
        for (s, e) in name_spans(rtype, raw)? {
            // lower-case label octets only (length octets are < 64 and never letters' range issue:
            // a length octet 0x41..0x5A would be mangled, so walk labels properly)
            let mut p = s;
            while p < e {
                let l = raw[p] as usize;
                p += 1;
                for b in &mut out[p..p + l] {
                    *b = b.to_ascii_lowercase();
                }
                p += l;
            }
        }
    }
    Ok(out)
}

#[derive(Clone, Debug)]
pub struct SigFields {
    pub type_covered: u16,
    pub algorithm: u8,
    pub labels: u8,
    pub original_ttl: u32,
    pub expiration: u32,
    pub inception: u32,
    pub key_tag: u16,
    pub signer: Labels,
}

fn put_name_lower(out: &mut Vec<u8>, labels: &[Vec<u8>]) {
    for l in labels {
        out.push(l.len() as u8);
        out.extend(l.iter().map(|c| c.to_ascii_lowercase()));
    }
    out.push(0);
}

/// number of labels for the RRSIG Labels field: root excluded, leading "*" excluded
pub fn label_count(owner: &[Vec<u8>]) -> usize {
    if owner.first().map(|l| l.as_slice() == b"*").unwrap_or(false) {
        owner.len() - 1
    } else {
        owner.len()
    }
}

/// RRSIG RDATA without the signature, signer name in canonical form
pub fn rrsig_rdata_prefix(sig: &SigFields) -> Vec<u8> {
    let mut out = Vec::new();
    out.extend_from_slice(&sig.type_covered.to_be_bytes());
    out.push(sig.algorithm);
    out.push(sig.labels);
    out.extend_from_slice(&sig.original_ttl.to_be_bytes());
    out.extend_from_slice(&sig.expiration.to_be_bytes());
    out.extend_from_slice(&sig.inception.to_be_bytes());
    out.extend_from_slice(&sig.key_tag.to_be_bytes());
    put_name_lower(&mut out, &sig.signer);
    out
}

/// canonical RR blobs (owner|type|class|OrigTTL|len|RDATA) in §6.3 order, duplicates removed
/// when `dedup`.
pub fn canonical_rrs(owner: &[Vec<u8>], class: u16, sig: &SigFields, rdatas: &[Vec<u8>], dedup: bool) -> Result<Vec<Vec<u8>>, String> {
    let n = label_count(owner);
    if sig.labels as usize > n {
        return Err("labels field exceeds owner label count".into());
    }
    let mut name = Vec::new();
    if (sig.labels as usize) < n {
        // "*." | rightmost `labels` labels
        name.extend_from_slice(&[1, b'*']);
        let skip = owner.len() - sig.labels as usize;
        put_name_lower(&mut name, &owner[skip..]);
    } else {
        put_name_lower(&mut name, owner);
    }
    let mut canon: Vec<Vec<u8>> = Vec::new();
    for r in rdatas {
        canon.push(canonical_rdata(sig.type_covered, r)?);
    }
    // §6.3: left-justified unsigned octet sequence, absence of an octet sorts before a zero octet
    // = plain lexicographic order on byte strings
    canon.sort();
    if dedup {
        canon.dedup();
    }
    let mut out = Vec::new();
    for rd in canon {
        let mut rr = name.clone();
        rr.extend_from_slice(&sig.type_covered.to_be_bytes());
        rr.extend_from_slice(&class.to_be_bytes());
        rr.extend_from_slice(&sig.original_ttl.to_be_bytes());
        rr.extend_from_slice(&(rd.len() as u16).to_be_bytes());
        rr.extend_from_slice(&rd);
        out.push(rr);
    }
    Ok(out)
}

/// RFC 4035 §5.3.2 signed data
pub fn signed_data(owner: &[Vec<u8>], class: u16, sig: &SigFields, rdatas: &[Vec<u8>]) -> Result<Vec<u8>, String> {
    let mut out = rrsig_rdata_prefix(sig);
    for rr in canonical_rrs(owner, class, sig, rdatas, true)? {
        out.extend_from_slice(&rr);
    }
    Ok(out)
}

/// RFC 4034 Appendix B key tag over DNSKEY RDATA
pub fn key_tag(dnskey_rdata: &[u8]) -> u16 {
    let mut ac: u32 = 0;
    for (i, b) in dnskey_rdata.iter().enumerate() {
        ac += if i & 1 == 1 { *b as u32 } else { (*b as u32) << 8 };
    }
    ac += (ac >> 16) & 0xFFFF;
    (ac & 0xFFFF) as u16
}

pub fn dnskey_rdata(flags: u16, algorithm: u8, public_key: &[u8]) -> Vec<u8> {
    let mut out = flags.to_be_bytes().to_vec();
    out.push(3);
    out.push(algorithm);
    out.extend_from_slice(public_key);
    out
}

/// DS digest (RFC 4034 §5.1.4): digest(owner canonical wire | DNSKEY RDATA)
pub fn ds_digest(owner: &[Vec<u8>], dnskey_rdata: &[u8], digest_type: u8) -> Option<Vec<u8>> {
    let mut data = Vec::new();
    put_name_lower(&mut data, owner);
    data.extend_from_slice(dnskey_rdata);
    let alg = match digest_type {
        1 => &ring::digest::SHA1_FOR_LEGACY_USE_ONLY,
        2 => &ring::digest::SHA256,
        4 => &ring::digest::SHA384,
        _ => return None,
    };
    Some(ring::digest::digest(alg, &data).as_ref().to_vec())
}

// ---------------------------------------------------------------------------------------------
// keys (ring directly)

pub enum RefKey {
    Ed25519(Ed25519KeyPair, Vec<u8>),
    P256(EcdsaKeyPair, Vec<u8>),
    P384(EcdsaKeyPair, Vec<u8>),
    Rsa(RsaKeyPair, u8, Vec<u8>),
}

pub const ALG_RSASHA1: u8 = 5;
pub const ALG_RSASHA1_NSEC3: u8 = 7;
pub const ALG_RSASHA256: u8 = 8;
pub const ALG_RSASHA512: u8 = 10;
pub const ALG_P256: u8 = 13;
pub const ALG_P384: u8 = 14;
pub const ALG_ED25519: u8 = 15;

impl RefKey {
    pub fn generate(alg: u8, rsa_pkcs8: &[u8]) -> RefKey {
        let rng = SystemRandom::new();
        match alg {
            ALG_ED25519 => {
                let doc = Ed25519KeyPair::generate_pkcs8(&rng).unwrap();
                RefKey::Ed25519(Ed25519KeyPair::from_pkcs8(doc.as_ref()).unwrap(), doc.as_ref().to_vec())
            }
            ALG_P256 => {
                let doc = EcdsaKeyPair::generate_pkcs8(&signature::ECDSA_P256_SHA256_FIXED_SIGNING, &rng).unwrap();
                RefKey::P256(EcdsaKeyPair::from_pkcs8(&signature::ECDSA_P256_SHA256_FIXED_SIGNING, doc.as_ref(), &rng).unwrap(), doc.as_ref().to_vec())
            }
            ALG_P384 => {
                let doc = EcdsaKeyPair::generate_pkcs8(&signature::ECDSA_P384_SHA384_FIXED_SIGNING, &rng).unwrap();
                RefKey::P384(EcdsaKeyPair::from_pkcs8(&signature::ECDSA_P384_SHA384_FIXED_SIGNING, doc.as_ref(), &rng).unwrap(), doc.as_ref().to_vec())
            }
            ALG_RSASHA256 | ALG_RSASHA512 => RefKey::Rsa(RsaKeyPair::from_pkcs8(rsa_pkcs8).expect("rsa pkcs8"), alg, rsa_pkcs8.to_vec()),
            _ => panic!("unsupported algorithm {alg}"),
        }
    }

    pub fn algorithm(&self) -> u8 {
        match self {
            RefKey::Ed25519(..) => ALG_ED25519,
            RefKey::P256(..) => ALG_P256,
            RefKey::P384(..) => ALG_P384,
            RefKey::Rsa(_, a, _) => *a,
        }
    }

    pub fn pkcs8(&self) -> &[u8] {
        match self {
            RefKey::Ed25519(_, d) | RefKey::P256(_, d) | RefKey::P384(_, d) | RefKey::Rsa(_, _, d) => d,
        }
    }

    /// public key in DNSKEY RDATA format (RFC 8080, 6605, 3110)
    pub fn dnskey_public(&self) -> Vec<u8> {
        match self {
            RefKey::Ed25519(k, _) => k.public_key().as_ref().to_vec(),
            RefKey::P256(k, _) | RefKey::P384(k, _) => k.public_key().as_ref()[1..].to_vec(), // strip 0x04
            RefKey::Rsa(k, _, _) => {
                let (n, e) = rsa_components_from_der(k.public_key().as_ref());
                let mut out = Vec::new();
                if e.len() < 256 {
                    out.push(e.len() as u8);
                } else {
                    out.push(0);
                    out.extend_from_slice(&(e.len() as u16).to_be_bytes());
                }
                out.extend_from_slice(&e);
                out.extend_from_slice(&n);
                out
            }
        }
    }

    pub fn sign(&self, data: &[u8]) -> Vec<u8> {
        let rng = SystemRandom::new();
        match self {
            RefKey::Ed25519(k, _) => k.sign(data).as_ref().to_vec(),
            RefKey::P256(k, _) | RefKey::P384(k, _) => k.sign(&rng, data).unwrap().as_ref().to_vec(),
            RefKey::Rsa(k, alg, _) => {
                let mut sig = vec![0; k.public().modulus_len()];
                let pad: &dyn signature::RsaEncoding = if *alg == ALG_RSASHA512 { &signature::RSA_PKCS1_SHA512 } else { &signature::RSA_PKCS1_SHA256 };
                k.sign(pad, &rng, data, &mut sig).unwrap();
                sig
            }
        }
    }
}

/// verify with ring given the DNSKEY-format public key
pub fn verify(algorithm: u8, dnskey_public: &[u8], data: &[u8], sig: &[u8]) -> bool {
    match algorithm {
        ALG_ED25519 => signature::UnparsedPublicKey::new(&signature::ED25519, dnskey_public).verify(data, sig).is_ok(),
        ALG_P256 | ALG_P384 => {
            let mut pk = vec![4u8];
            pk.extend_from_slice(dnskey_public);
            let alg: &dyn signature::VerificationAlgorithm =
                if algorithm == ALG_P256 { &signature::ECDSA_P256_SHA256_FIXED } else { &signature::ECDSA_P384_SHA384_FIXED };
            signature::UnparsedPublicKey::new(alg, &pk).verify(data, sig).is_ok()
        }
        ALG_RSASHA1 | ALG_RSASHA1_NSEC3 | ALG_RSASHA256 | ALG_RSASHA512 => {
            if dnskey_public.is_empty() {
                return false;
            }
            let (elen, off) = if dnskey_public[0] == 0 {
                if dnskey_public.len() < 3 {
                    return false;
                }
                (u16::from_be_bytes([dnskey_public[1], dnskey_public[2]]) as usize, 3)
            } else {
                (dnskey_public[0] as usize, 1)
            };
            if dnskey_public.len() < off + elen {
                return false;
            }
            let e = &dnskey_public[off..off + elen];
            let n = &dnskey_public[off + elen..];
            // RFC 3110 (5), RFC 5155 §2 (7 = same scheme as 5), RFC 5702 (8, 10): PKCS#1 v1.5;
            // the legacy parameter sets accept moduli from 1024 bits
            let params = match algorithm {
                ALG_RSASHA512 => &signature::RSA_PKCS1_1024_8192_SHA512_FOR_LEGACY_USE_ONLY,
                ALG_RSASHA256 => &signature::RSA_PKCS1_1024_8192_SHA256_FOR_LEGACY_USE_ONLY,
                _ => &signature::RSA_PKCS1_1024_8192_SHA1_FOR_LEGACY_USE_ONLY,
            };
            signature::RsaPublicKeyComponents { n, e }.verify(params, data, sig).is_ok()
        }
        _ => false,
    }
}

/// RFC 1982 serial arithmetic: a <= b (a not after b)
pub fn serial_le(a: u32, b: u32) -> bool {
    a == b || serial_lt(a, b)
}
pub fn serial_lt(a: u32, b: u32) -> bool {
    // i1 < i2 and i2 - i1 < 2^31, or i1 > i2 and i1 - i2 > 2^31
    (a < b && b - a < 0x8000_0000) || (a > b && a - b > 0x8000_0000)
}

/// minimal DER reader for RSAPublicKey ::= SEQUENCE { modulus INTEGER, publicExponent INTEGER }
fn rsa_components_from_der(der: &[u8]) -> (Vec<u8>, Vec<u8>) {
    fn tlv(b: &[u8]) -> (u8, &[u8], &[u8]) {
        let tag = b[0];
        let (len, off) = if b[1] & 0x80 == 0 {
            (b[1] as usize, 2)
        } else {
            let n = (b[1] & 0x7f) as usize;
            let mut l = 0usize;
            for i in 0..n {
                l = (l << 8) | b[2 + i] as usize;
            }
            (l, 2 + n)
        };
        (tag, &b[off..off + len], &b[off + len..])
    }
    let (t, seq, _) = tlv(der);
    assert_eq!(t, 0x30);
    let (t1, n, rest) = tlv(seq);
    let (t2, e, _) = tlv(rest);
    assert_eq!((t1, t2), (2, 2));
    let strip = |x: &[u8]| {
        let mut x = x;
        while x.len() > 1 && x[0] == 0 {
            x = &x[1..];
        }
        x.to_vec()
    };
    (strip(n), strip(e))
}
