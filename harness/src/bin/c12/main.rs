//! C12 — dynamic update applies RFC 2136 semantics and keeps the zone well-formed.
//!
//! Real code: `SqliteZoneHandler::try_from_config` (updates on, TSIG key configured) behind a
//! `Catalog`; every UPDATE is a raw wire message (built with `refwire`, signed with `reftsig`)
//! driven through `Catalog::handle_request::<_, VTime>`. After each message: rcode, full zone
//! snapshot through `records()`, SOA serial.
//!
//! Oracle: `refupdate` (independent RFC 2136 §3.2/§3.4 model) in lock-step. Per message:
//!  * every prerequisite (value-dependent ones grouped per <name,type>) is additionally probed on
//!    its own with an update-free message: hickory's verdict must match the model's (rule
//!    `prereq-verdict`, sig = table row : cause : direction);
//!  * rcode must be in the model's admissible set (`rcode`);
//!  * a message answered with an error leaves the snapshot unchanged (`not-atomic`);
//!  * an accepted message leaves exactly the model's RRsets, SOA serial value ignored
//!    (`update-result`, sig = table row : cause);
//!  * serial strictly greater (RFC 1982) iff the content changed (`serial`);
//!  * exactly one SOA, >= 1 apex NS, no CNAME plus other data (`invariant`).
//! After a divergence the model is re-synchronised to the observed zone, so every message is
//! judged against "the zone as left by the earlier messages".
//!
//! Don't-cares (nothing else is loosened):
//!  * which admissible error rcode is returned when a message is malformed in several ways, or when
//!    several prerequisites fail (union over the RRs; order of evaluation is not fixed by §3.2);
//!  * §3.4.2.2 text vs §3.4.2.7 pseudocode for an SOA update with an *equal* serial (ignored vs
//!    replaced) and §3.4.2.4 text vs pseudocode for deleting the last NS of a *non-apex* RRset
//!    (`refupdate::Variant`; any variant's result is accepted);
//!  * a message whose RRs change the zone in between but whose net effect is nil (add X, delete X)
//!    may or may not bump the serial (never backwards);
//!  * letter case of owner names (compared folded); RDATA names are lower case in the workload;
//!  * the new serial's value (only ordering against the previous serial and against the serial of
//!    an accepted SOA update is judged).
//!  * TSIG rejections of the harness' own (reftsig-signed) messages make the run inconclusive
//!    instead of violated: authenticity is C13's business.
//!
//! Part H (`helpers.rs`): the messages above are written with the harness' own wire writer, so
//! hickory's public client-side builders of UPDATE messages (`op::update_message::{create, append,
//! compare_and_swap, delete_by_rdata, delete_rrset, delete_all}` + the `UpdateMessage` trait
//! methods) would go unobserved. For generated (zone, operation, EDNS) cases the helper's message
//! is (H1, rule `helper-form`) read back with the harness' walker and compared with the RFC 2136
//! rows the helper's doc comment promises, and (H2, rule `helper-effect`) signed, sent through the
//! same server path and judged against the operation's intended semantics computed on the
//! reference zone. Don't-cares are listed in `helpers.rs`.

mod helpers;
mod reftsig;
mod refupdate;
mod zonekit;

use std::collections::{BTreeMap, BTreeSet};
use std::sync::Arc;

use hickory_server::zone_handler::AxfrPolicy;
use serde_json::{json, Value};

use refupdate::*;
use vh::mon::{self, Ctx, Reporter};
use vh::prng::{fnv64, Rng};
use zonekit::*;

const NOW: u64 = 1_700_000_000;

#[derive(Clone, Debug)]
struct Finding {
    step: usize,
    rule: String,
    sig: String,
    expected: Value,
    observed: Value,
    /// update-section finding whose signature still needs "row:cause" appended:
    /// (index of the model variant used, differing keys)
    attr: Option<(usize, BTreeSet<RrKey>)>,
}

struct Runner {
    rt: tokio::runtime::Runtime,
    env: Env,
    key: reftsig::Key,
    next_id: u16,
}

#[derive(Default)]
struct Stats {
    counters: BTreeMap<String, u64>,
    evals: u64,
    nontrivial: Vec<u64>,
    harness_problems: Vec<String>,
}

impl Stats {
    fn count(&mut self, k: &str) {
        *self.counters.entry(k.to_string()).or_insert(0) += 1;
    }
}

fn rcodes_json(s: &BTreeSet<u8>) -> Value {
    json!(s.iter().map(|r| rcode_name(*r)).collect::<Vec<_>>())
}

/// group prerequisites: value-dependent RRs per <name,type>, every other RR alone
fn prereq_groups(pre: &[Rr]) -> Vec<Vec<Rr>> {
    let mut groups: Vec<Vec<Rr>> = Vec::new();
    for rr in pre {
        if pre_form(rr) == "rrset-equals" {
            if let Some(g) = groups.iter_mut().find(|g| pre_form(&g[0]) == "rrset-equals" && fold(&g[0].owner) == fold(&rr.owner) && g[0].rtype == rr.rtype) {
                g.push(rr.clone());
                continue;
            }
        }
        groups.push(vec![rr.clone()]);
    }
    groups
}

fn ancestors_in_zone(owner: &Labels, apex_len: usize) -> Vec<Labels> {
    // proper ancestors strictly below or equal to the apex, nearest first
    let mut v = Vec::new();
    let mut i = 1;
    while owner.len() >= apex_len + i {
        v.push(owner[i..].to_vec());
        i += 1;
    }
    v
}

/// Why could hickory's query-path lookup disagree with an exact-owner test for this owner/type?
fn lookup_cause(z: &Zone, snap: &Snap, group: &[Rr], accepted: bool) -> &'static str {
    let owner = fold(&group[0].owner);
    let rtype = group[0].rtype;
    let form = pre_form(&group[0]);
    if !z.in_zone(&owner) {
        return "other";
    }
    // does hickory see MORE than an exact-owner test (synthesis, CNAME, referral), or LESS?
    let sees_more = matches!((form, accepted), ("name-in-use", true) | ("rrset-exists", true) | ("name-not-in-use", false) | ("rrset-not-exists", false) | ("rrset-equals", true));
    let empties_here = snap.empties.iter().any(|(n, _)| *n == owner);
    let mut chain = vec![owner.clone()];
    chain.extend(ancestors_in_zone(&owner, z.apex.len()));
    let delegated = chain.iter().any(|n| *n != z.apex && z.rrset(n, T_NS).is_some() && !(n == &owner && rtype == T_NS));
    if !sees_more {
        if form == "rrset-equals" && delegated {
            return "delegation";
        }
        return if empties_here { "empty-rrset" } else { "other" };
    }
    if form == "rrset-equals" {
        if let Some(set) = z.rrset(&owner, rtype) {
            if group.iter().all(|rr| set.contains_key(&rr.rdata)) {
                return "subset";
            }
        }
    }
    if rtype != T_CNAME && z.rrset(&owner, T_CNAME).is_some() {
        return "cname";
    }
    if delegated {
        return "delegation";
    }
    for a in ancestors_in_zone(&owner, z.apex.len()) {
        let mut w = vec![b"*".to_vec()];
        w.extend(a);
        if w != owner && z.name_in_use(&w) {
            return "wildcard";
        }
    }
    if empties_here {
        return "empty-rrset";
    }
    "other"
}

fn diff_keys(a: &[(Labels, u16, Vec<u8>, u32)], b: &[(Labels, u16, Vec<u8>, u32)]) -> BTreeSet<RrKey> {
    let sa: BTreeSet<_> = a.iter().collect();
    let sb: BTreeSet<_> = b.iter().collect();
    let mut d = BTreeSet::new();
    for x in sa.symmetric_difference(&sb) {
        d.insert((x.0.clone(), x.1));
    }
    // multiplicity differences (duplicates)
    if d.is_empty() && a != b {
        for x in a.iter().chain(b.iter()) {
            d.insert((x.0.clone(), x.1));
        }
    }
    d
}

/// Attribute a divergence in the update section to one update RR and name its row and cause.
fn update_cause(o: &Outcome, upd: &[Rr], prev: &Snap, d: &BTreeSet<RrKey>, apex: &Labels, forced: Option<usize>) -> String {
    if upd.is_empty() || o.steps.len() != upd.len() + 1 {
        return "none".into();
    }
    let owners: BTreeSet<&Labels> = d.iter().map(|k| &k.0).collect();
    let mut pick: Option<usize> = None;
    if forced.is_none() {
        // not reproducible on a fresh handler: hidden state. An RR whose owner carries an RRset
        // that was emptied (but not removed) earlier is the prime suspect.
        for j in 0..upd.len() {
            let ow = fold(&upd[j].owner);
            let emptied = prev.empties.iter().any(|(n, _)| *n == ow)
                || (0..j).any(|i| upd_form(&upd[i]) == "delete-rr" && fold(&upd[i].owner) == ow && o.steps[i].rrset(&ow, upd[i].rtype).is_some() && o.steps[i + 1].rrset(&ow, upd[i].rtype).is_none());
            if emptied {
                // one defect whatever the row of the RR that trips over it
                let _ = j;
                return "any-row:empty-rrset-at-owner".to_string();
            }
        }
    }
    for j in (0..upd.len()).rev() {
        let rr = &upd[j];
        let ow = fold(&rr.owner);
        if !owners.contains(&ow) {
            continue;
        }
        let types_d: Vec<u16> = d.iter().filter(|k| k.0 == ow).map(|k| k.1).collect();
        if rr.rtype == T_ANY || types_d.contains(&rr.rtype) || rr.rtype == T_CNAME || types_d.contains(&T_CNAME) {
            pick = Some(j);
            break;
        }
    }
    if pick.is_none() {
        pick = (0..upd.len()).rev().find(|j| upd[*j].class == C_IN && upd[*j].rtype == T_SOA);
    }
    if pick.is_none() {
        pick = (0..upd.len()).rev().find(|j| o.steps[*j] != o.steps[*j + 1]);
    }
    let j = forced.filter(|j| *j < upd.len()).or(pick).unwrap_or(upd.len() - 1);
    let rr = &upd[j];
    let st = &o.steps[j];
    let ow = fold(&rr.owner);
    let is_apex = ow == *apex;
    let emptied_before = prev.empties.iter().any(|(n, _)| *n == ow)
        || (0..j).any(|i| upd_form(&upd[i]) == "delete-rr" && fold(&upd[i].owner) == ow && o.steps[i].rrset(&ow, upd[i].rtype).is_some() && o.steps[i + 1].rrset(&ow, upd[i].rtype).is_none());
    let form = upd_form(rr);
    let cause: String = match form {
        "add" => {
            if rr.rtype == T_SOA && !is_apex {
                "soa-non-apex".into()
            } else if rr.rtype == T_SOA {
                let zs = st.serial().unwrap_or(0);
                let ns = soa_serial_of(&rr.rdata).unwrap_or(0);
                if ns == zs {
                    "soa-serial-equal".into()
                } else if (ns > zs) != serial_gt(ns, zs) {
                    "soa-serial-rfc1982".into()
                } else if serial_gt(ns, zs) {
                    "soa-serial-higher".into()
                } else {
                    "soa-serial-lower".into()
                }
            } else if st.rrset(&ow, rr.rtype).map(|s| s.get(&rr.rdata).is_some_and(|t| *t != rr.ttl)).unwrap_or(false) {
                "same-rdata-new-ttl".into()
            } else if (rr.rtype == T_CNAME && st.types_at(&ow).iter().any(|t| *t != T_CNAME)) || (rr.rtype != T_CNAME && st.rrset(&ow, T_CNAME).is_some()) {
                "cname-conflict".into()
            } else if emptied_before {
                return "any-row:empty-rrset-at-owner".to_string();
            } else if rr.rtype == T_CNAME && st.rrset(&ow, T_CNAME).is_some() {
                "cname-replace".into()
            } else if st.rrset(&ow, rr.rtype).map(|s| s.values().any(|t| *t != rr.ttl)).unwrap_or(false) {
                "rrset-ttl-mix".into()
            } else {
                "plain".into()
            }
        }
        "delete-name" => {
            if is_apex {
                "apex".into()
            } else if st.rrset(&ow, T_NS).is_some() {
                "non-apex-ns".into()
            } else if st.rrset(&ow, T_SOA).is_some() {
                "non-apex-soa".into()
            } else {
                "plain".into()
            }
        }
        "delete-rrset" => {
            if is_apex && (rr.rtype == T_SOA || rr.rtype == T_NS) {
                "apex-protected".into()
            } else {
                "plain".into()
            }
        }
        "delete-rr" => {
            let set = st.rrset(&ow, rr.rtype);
            let only = set.map(|s| s.len() == 1 && s.contains_key(&rr.rdata)).unwrap_or(false);
            if rr.rtype == T_NS && only {
                if is_apex { "last-ns-apex".into() } else { "last-ns-non-apex".into() }
            } else if rr.rtype == T_SOA {
                "soa".into()
            } else if only {
                "last-rr".into()
            } else {
                "plain".into()
            }
        }
        _ => format!("{}-{}", class_name(rr.class), type_name(rr.rtype)),
    };
    format!("{form}:{cause}")
}

fn prescan_sig(z: &Zone, upd: &[Rr]) -> String {
    for rr in upd {
        if !prescan_rr(z, rr).is_empty() {
            let what = if !z.in_zone(&rr.owner) {
                "out-of-zone".to_string()
            } else if !matches!(rr.class, C_IN | C_ANY | C_NONE) {
                "bad-class".to_string()
            } else if matches!(rr.rtype, T_ANY | T_AXFR | T_IXFR | T_MAILA | T_MAILB) {
                format!("metatype-{}", type_name(rr.rtype))
            } else if rr.ttl != 0 {
                "ttl-nonzero".to_string()
            } else {
                "rdata-nonempty".to_string()
            };
            if what.starts_with("metatype-MAIL") {
                return what; // MAILA/MAILB are missing from every class arm of hickory's prescan
            }
            return format!("class-{}:{}", class_name(rr.class), what);
        }
    }
    "none".into()
}

impl Runner {
    fn new(ctx: &Ctx, tag: &str) -> Runner {
        let rt = tokio::runtime::Builder::new_current_thread().enable_all().start_paused(true).build().expect("rt");
        let key = default_key();
        let dir = scratch_root("c12").join(format!("s{}-{}", ctx.shard, tag));
        let env = Env::new(dir, vec![key.clone()]);
        set_clock(NOW);
        Runner { rt, env, key, next_id: 1 }
    }

    fn id(&mut self) -> u16 {
        self.next_id = self.next_id.wrapping_add(1).max(1);
        self.next_id
    }

    /// Run one history. `fixed`: replay these messages; otherwise generate `len` messages.
    /// Does the update section `upd`, sent alone (no prerequisites) to a fresh handler loaded with
    /// `model`, produce a finding (of rule `rule`, or any if None)?
    fn reproduces(&mut self, model: &Zone, upd: &[Rr], rule: Option<(&str, &str)>) -> bool {
        let m = UpdMsg { pre: vec![], upd: upd.to_vec() };
        let mut st = Stats::default();
        let (_, fs) = self.run_case_inner(model, Some(&[m]), None, 0, &mut st, false);
        fs.iter().any(|f| rule.map(|(r, p)| f.rule == r && f.sig.starts_with(p)).unwrap_or(true))
    }

    /// Name the update RR (table row : cause) responsible for a finding of `rule`: minimise the
    /// update section to a sub-list that still shows the same rule on a fresh handler, then take
    /// the first RR of that sub-list at which hickory diverges at all.
    fn attribute(&mut self, model: &Zone, prev: &Snap, upd: &[Rr], rule: &str, prefix: &str) -> Option<String> {
        if upd.is_empty() || !self.reproduces(model, upd, Some((rule, prefix))) {
            return None;
        }
        let mut cur: Vec<Rr> = upd.to_vec();
        let mut i = 0;
        while cur.len() > 1 && i < cur.len() {
            let mut cand = cur.clone();
            cand.remove(i);
            if self.reproduces(model, &cand, Some((rule, prefix))) {
                cur = cand;
            } else {
                i += 1;
            }
        }
        let mut forced = cur.len() - 1;
        for j in 1..cur.len() {
            if self.reproduces(model, &cur[..j], None) {
                forced = j - 1;
                break;
            }
        }
        let o = process(model, &[], &cur, VARIANTS[0]);
        if o.stage != "ok" {
            return None;
        }
        let mut p = prev.clone();
        p.empties.clear(); // the fresh handler has no hidden state
        Some(update_cause(&o, &cur, &p, &BTreeSet::new(), &model.apex, Some(forced)))
    }

    fn run_case(&mut self, zone0: &Zone, fixed: Option<&[UpdMsg]>, rng: Option<&mut Rng>, len: usize, stats: &mut Stats) -> (Vec<UpdMsg>, Vec<Finding>) {
        self.run_case_inner(zone0, fixed, rng, len, stats, true)
    }

    fn run_case_inner(&mut self, zone0: &Zone, fixed: Option<&[UpdMsg]>, rng: Option<&mut Rng>, len: usize, stats: &mut Stats, attribute: bool) -> (Vec<UpdMsg>, Vec<Finding>) {
        let mut findings = Vec::new();
        let mut history: Vec<UpdMsg> = Vec::new();
        self.env.write_zone(&zone_text(zone0));
        let h = match self.rt.block_on(self.env.open(":memory:", AxfrPolicy::Deny)) {
            Ok(h) => Arc::new(h),
            Err(e) => {
                stats.harness_problems.push(format!("zone did not load: {e}"));
                return (history, findings);
            }
        };
        let cat = catalog_for(&h);
        let mut prev = snapshot(&self.rt, &h);
        if prev.to_zone() != *zone0 || prev.has_duplicates_or_foreign_class() {
            stats.count("init_mismatch");
            return (history, findings);
        }
        let mut rng = rng;
        let n = fixed.map(|f| f.len()).unwrap_or(len);
        for step in 0..n {
            let model = prev.to_zone();
            let msg = match fixed {
                Some(f) => f[step].clone(),
                None => gen_message(rng.as_deref_mut().expect("rng"), &model),
            };
            history.push(msg.clone());
            let mut push = |rule: &str, sig: String, expected: Value, observed: Value| {
                findings.push(Finding { step, rule: rule.to_string(), sig, expected, observed, attr: None });
            };

            // ---- per-prerequisite probes (update-free messages)
            let mut prereq_diverged = false;
            let mut abandon = false;
            for g in prereq_groups(&msg.pre) {
                let form = pre_form(&g[0]);
                let exp = prerequisites(&model, &g);
                let probe = UpdMsg { pre: g.clone(), upd: vec![] };
                let id = self.id();
                let bytes = signed_update(id, &probe, &self.key, NOW);
                stats.evals += 1;
                let r = match send(&self.rt, &cat, &bytes) {
                    Ok(v) if v.len() == 1 => rcode_of(&v[0]).unwrap_or(255),
                    Ok(v) => {
                        push("response-count", format!("probe:{}", v.len()), json!(1), json!(v.len()));
                        continue;
                    }
                    Err(SendErr::Parse(e)) => {
                        stats.harness_problems.push(format!("probe did not parse: {e}"));
                        continue;
                    }
                    Err(SendErr::Panic(p)) => {
                        push("panic", format!("probe:{}", p.site()), json!("no panic"), json!({"message": p.message, "location": p.location}));
                        abandon = true;
                        break;
                    }
                };
                if r == NOTAUTH || r == REFUSED {
                    stats.harness_problems.push(format!("probe rejected by TSIG gate: {}", rcode_name(r)));
                    continue;
                }
                if form != "malformed" {
                    stats.count(&format!("pre/{}/{}", form, if exp.is_empty() { "pass" } else { "fail" }));
                } else {
                    stats.count("pre/malformed");
                }
                let ok = if exp.is_empty() { r == NOERROR } else { exp.contains(&r) };
                if !ok {
                    prereq_diverged = true;
                    let accepted = r == NOERROR;
                    let dir = if accepted { "accepted".to_string() } else if exp.is_empty() { format!("rejected-{}", rcode_name(r)) } else { format!("wrong-rcode-{}", rcode_name(r)) };
                    let cause = if form == "malformed" { "malformed" } else { lookup_cause(&model, &prev, &g, accepted) };
                    push(
                        "prereq-verdict",
                        format!("{form}:{cause}:{dir}"),
                        json!({"prerequisite": g.iter().map(rr_text).collect::<Vec<_>>(), "rcode": if exp.is_empty() { json!(["NOERROR"]) } else { rcodes_json(&exp) }}),
                        json!({"rcode": rcode_name(r), "zone": prev.lines()}),
                    );
                }
            }
            if abandon {
                break;
            }
            drop(push);
            // probes must not have changed anything
            let after_probes = snapshot(&self.rt, &h);
            if after_probes != prev {
                findings.push(Finding { step, rule: "not-atomic".into(), sig: "update-free-message-changed-zone".into(), expected: json!(prev.lines()), observed: json!(after_probes.lines()), attr: None });
                prev = after_probes;
                continue;
            }
            let mut push = |rule: &str, sig: String, expected: Value, observed: Value| {
                findings.push(Finding { step, rule: rule.to_string(), sig, expected, observed, attr: None });
            };

            // ---- the message itself
            let id = self.id();
            let bytes = signed_update(id, &msg, &self.key, NOW);
            stats.evals += 1;
            let outs: Vec<Outcome> = VARIANTS.iter().map(|v| process(&model, &msg.pre, &msg.upd, *v)).collect();
            let o0 = &outs[0];
            let first_new = findings.len();
            let mut push = |rule: &str, sig: String, expected: Value, observed: Value, attr: Option<(usize, BTreeSet<RrKey>)>| {
                findings.push(Finding { step, rule: rule.to_string(), sig, expected, observed, attr });
            };
            let mut stop = false;
            let mut decoder_refused = false;
            let r = match send(&self.rt, &cat, &bytes) {
                Ok(v) if v.len() == 1 => rcode_of(&v[0]).unwrap_or(255),
                Ok(v) => {
                    push("response-count", format!("update:{}", v.len()), json!(1), json!(v.len()), None);
                    break;
                }
                // the wire decoder refuses the message: the server front end answers FORMERR
                // (C11's business) and nothing reaches the zone
                Err(SendErr::Parse(_)) => {
                    stats.count("refused_by_decoder");
                    decoder_refused = true;
                    FORMERR
                }
                Err(SendErr::Panic(p)) => {
                    let slug: String = p.message.chars().take(40).map(|c| if c.is_ascii_alphanumeric() { c } else { '-' }).collect();
                    push("panic", format!("{}:{}", p.site(), slug), json!("no panic"), json!({"message": p.message, "location": p.location, "serial_before": prev.serial, "profile": "checked-only if arithmetic overflow"}), None);
                    stop = true;
                    255
                }
            };
            if r == NOTAUTH || r == REFUSED {
                stats.harness_problems.push(format!("update rejected by TSIG gate: {}", rcode_name(r)));
                break;
            }
            let cur = if stop { prev.clone() } else { snapshot(&self.rt, &h) };
            if !stop {
                stats.nontrivial.push(fnv64(format!("{}|{}", zone_text(&model), msg_json(&msg)).as_bytes()));
                stats.count(&format!("stage/{}", o0.stage));
                stats.count(&format!("rcode/{}", rcode_name(r)));
                if o0.stage == "ok" {
                    for (j, rr) in msg.upd.iter().enumerate() {
                        let f = upd_form(rr);
                        stats.count(&format!("upd/{}/{}", f, if o0.steps[j] != o0.steps[j + 1] { "effective" } else { "noop" }));
                    }
                } else if o0.stage == "prescan" {
                    stats.count("upd/malformed");
                }
            }

            let cur_proj = cur.projection_without_serial();
            let prev_proj = prev.projection_without_serial();
            let unchanged = cur_proj == prev_proj && cur.serial == prev.serial;

            if stop {
            } else if r != NOERROR && !unchanged {
                // all-or-nothing
                push("not-atomic", format!("{}:", rcode_name(r)), json!({"zone": prev.lines(), "serial": prev.serial}), json!({"rcode": rcode_name(r), "zone": cur.lines(), "serial": cur.serial, "model_stage": o0.stage}), Some((0, diff_keys(&cur_proj, &prev_proj))));
            } else if prereq_diverged {
                // already reported by the probe; only atomicity is judged on the message itself
                stats.count("skipped_after_prereq_divergence");
            } else if decoder_refused {
                // FORMERR from the decoder is admissible iff some RR of the message is malformed
                let mut all = prerequisites(&model, &msg.pre);
                all.extend(prescan(&model, &msg.upd));
                if !all.contains(&FORMERR) {
                    push("rcode", "decoder-refused-wellformed-message".into(), json!({"rcode": rcodes_json(&o0.rcodes)}), json!({"rcode": "FORMERR (decode error)"}), None);
                }
            } else if !o0.rcodes.contains(&r) {
                let exp = json!({"rcode": rcodes_json(&o0.rcodes), "stage": o0.stage});
                let obs = json!({"rcode": rcode_name(r), "zone_before": prev.lines(), "zone_after": cur.lines()});
                match (o0.stage, r) {
                    ("prereq", _) => push("rcode", format!("prereq-combined:{}", rcode_name(r)), exp, obs, None),
                    ("prescan", NOERROR) => push("rcode", format!("prescan-accepted:{}", prescan_sig(&model, &msg.upd)), exp, obs, None),
                    ("prescan", _) => push("rcode", format!("prescan-wrong-rcode:{}:{}", prescan_sig(&model, &msg.upd), rcode_name(r)), exp, obs, None),
                    (_, _) => push("rcode", format!("unexpected-{}:", rcode_name(r)), exp, obs, Some((0, BTreeSet::new()))),
                }
            } else if r == NOERROR {
                // accepted: exact RRsets (serial value ignored)
                let matching = if cur.has_duplicates_or_foreign_class() { None } else { outs.iter().position(|o| o.zone.projection_without_serial() == cur_proj) };
                match matching {
                    None => {
                        // closest variant = fewest differing keys
                        let (oi, d) = outs.iter().enumerate().map(|(i, o)| (i, diff_keys(&o.zone.projection_without_serial(), &cur_proj))).min_by_key(|(_, d)| d.len()).unwrap();
                        push(
                            "update-result",
                            String::new(),
                            json!({"zone": zone_lines(&outs[oi].zone), "differs_at": d.iter().map(|k| format!("{} {}", show(&k.0), type_name(k.1))).collect::<Vec<_>>()}),
                            json!({"zone": cur.lines(), "zone_before": prev.lines(), "invariants_broken": invariants(&cur.to_zone())}),
                            Some((oi, d)),
                        );
                    }
                    Some(oi) => {
                        let o = &outs[oi];
                        let (p, s) = (prev.serial, cur.serial);
                        let a = Some((oi, BTreeSet::new()));
                        let obs = json!({"serial_before": p, "serial_after": s, "zone_before": prev.lines(), "zone_after": cur.lines()});
                        if let Some(n) = o.soa_set_serial {
                            // an accepted SOA update sets the serial; RFC 1982 order is not
                            // transitive over such jumps, so only "not below the accepted one"
                            if s != n && !serial_gt(s, n) {
                                push("serial", "below-accepted-soa-update:".into(), json!({"serial": format!(">= {n}")}), obs, a);
                            }
                        } else if o.changed && !serial_gt(s, p) {
                            push("serial", "content-changed-serial-not-advanced:".into(), json!({"serial": format!("> {p} (RFC 1982)")}), obs, a);
                        } else if !o.touched && s != p {
                            let how = if serial_gt(s, p) { "advanced" } else { "went-backwards" };
                            push("serial", format!("content-unchanged-serial-{how}:"), json!({"serial": p}), obs, a);
                        } else if !o.changed && o.touched && s != p && !serial_gt(s, p) {
                            push("serial", "went-backwards:".into(), json!({"serial": format!(">= {p} (RFC 1982)")}), obs, a);
                        }
                        if !o.changed && o.touched {
                            stats.count(if s == p { "net_noop_serial_kept" } else { "net_noop_serial_bumped" });
                        }
                    }
                }
            }
            drop(push);
            // invariants (independent of the model): reported when this message broke them and
            // nothing else explains it
            if !stop && findings.len() == first_new && !findings.iter().any(|f| f.step == step) {
                let bad = invariants(&cur.to_zone());
                if !bad.is_empty() && invariants(&prev.to_zone()).is_empty() {
                    findings.push(Finding { step, rule: "invariant".into(), sig: format!("{}:", bad[0].split(':').next().unwrap_or("?")), expected: json!("one SOA, >=1 apex NS, CNAME alone"), observed: json!({"broken": bad, "zone": cur.lines()}), attr: Some((0, BTreeSet::new())) });
                }
            }
            // attribute update-section findings to one update RR (row : cause)
            for i in first_new..findings.len() {
                if let Some((oi, d)) = findings[i].attr.take() {
                    let rule = findings[i].rule.clone();
                    let prefix = findings[i].sig.clone();
                    let named = if attribute { self.attribute(&model, &prev, &msg.upd, &rule, &prefix) } else { None };
                    let c = named.unwrap_or_else(|| update_cause(&outs[oi], &msg.upd, &prev, &d, &model.apex, None));
                    findings[i].sig = format!("{}{}", findings[i].sig, c);
                }
            }
            if stop {
                break;
            }
            if findings[first_new..].iter().any(|f| f.rule == "rcode" && f.sig.starts_with("prescan-accepted")) {
                // a metatype record now sits in the zone: outside the universe the model and the
                // zone-file round trip cover
                stats.count("history_abandoned_metatype_in_zone");
                break;
            }
            if r == NOERROR {
                stats.count("messages_accepted");
            } else {
                stats.count("messages_rejected");
            }
            prev = cur;
            // a zone without apex SOA / NS is beyond repair: stop this history
            if prev.to_zone().rrset(&apex(), T_SOA).is_none() || prev.to_zone().rrset(&apex(), T_NS).is_none() {
                stats.count("history_abandoned_zone_destroyed");
                break;
            }
        }
        (history, findings)
    }
}

fn case_json(zone0: &Zone, history: &[UpdMsg]) -> Value {
    json!({"zone": zone_json(zone0), "zone_text": zone_lines(zone0), "history": history.iter().map(msg_json).collect::<Vec<_>>()})
}

/// Greedy shrinker: keeps (rule, sig) at the last step, never introduces other signatures.
fn shrink(runner: &mut Runner, zone0: &Zone, history: &[UpdMsg], target: &Finding) -> (Zone, Vec<UpdMsg>) {
    let mut zone = zone0.clone();
    let mut hist: Vec<UpdMsg> = history[..=target.step].to_vec();
    let key = (target.rule.clone(), target.sig.clone());
    let mut budget = 80;
    let others = |fs: &[Finding]| -> BTreeSet<(String, String)> { fs.iter().map(|f| (f.rule.clone(), f.sig.clone())).filter(|k| *k != key).collect() };
    let mut st = Stats::default();
    let (_, base) = runner.run_case(&zone, Some(&hist), None, 0, &mut st);
    let mut allowed = others(&base);
    let mut accept = |runner: &mut Runner, z: &Zone, h: &[UpdMsg], allowed: &mut BTreeSet<(String, String)>, budget: &mut i32| -> bool {
        if *budget <= 0 || h.is_empty() {
            return false;
        }
        *budget -= 1;
        let mut st = Stats::default();
        let (_, fs) = runner.run_case(z, Some(h), None, 0, &mut st);
        let last = h.len() - 1;
        let ok = fs.iter().any(|f| f.step == last && f.rule == key.0 && f.sig == key.1) && others(&fs).is_subset(allowed);
        if ok {
            *allowed = others(&fs);
        }
        ok
    };
    // drop earlier messages
    let mut i = 0;
    while i + 1 < hist.len() {
        let mut cand = hist.clone();
        cand.remove(i);
        if accept(runner, &zone, &cand, &mut allowed, &mut budget) {
            hist = cand;
        } else {
            i += 1;
        }
    }
    // drop RRs of the last message, then of earlier ones
    for m in (0..hist.len()).rev() {
        for sec in 0..2 {
            let mut j = 0;
            loop {
                let len = if sec == 0 { hist[m].pre.len() } else { hist[m].upd.len() };
                if j >= len {
                    break;
                }
                let mut cand = hist.clone();
                if sec == 0 {
                    cand[m].pre.remove(j);
                } else {
                    cand[m].upd.remove(j);
                }
                if accept(runner, &zone, &cand, &mut allowed, &mut budget) {
                    hist = cand;
                } else {
                    j += 1;
                }
            }
        }
    }
    // drop zone RRsets (never apex SOA / NS)
    let keys: Vec<RrKey> = zone.sets.keys().cloned().collect();
    for k in keys {
        if k.0 == zone.apex && (k.1 == T_SOA || k.1 == T_NS) {
            continue;
        }
        let mut cand = zone.clone();
        cand.sets.remove(&k);
        if accept(runner, &cand, &hist, &mut allowed, &mut budget) {
            zone = cand;
        }
    }
    (zone, hist)
}

fn main() {
    let ctx = Ctx::from_args("C12");
    mon::install_panic_monitor();
    let mut rep = Reporter::new(&ctx);

    if let Some(case) = ctx.replay_case() {
        let c = &case["case"];
        if c["kind"].as_str() == Some("helper") {
            // part H: operation + zone from the JSON alone
            let mut runner = Runner::new(&ctx, "replay");
            let mut st = Stats::default();
            match helpers::case_from_json(c) {
                Some(hc) => {
                    for f in helpers::judge(&mut runner, &hc, &mut st) {
                        rep.eval();
                        rep.violation(&f.rule, &f.sig, helpers::case_json(&hc), f.expected, f.observed);
                    }
                }
                None => eprintln!("harness problem: helper case not readable"),
            }
            for p in st.harness_problems {
                eprintln!("harness problem: {p}");
            }
            runner.env.cleanup();
            let _ = std::fs::remove_dir_all(scratch_root("c12"));
            rep.replay_finish();
        }
        let zone0 = zone_from_json(&c["zone"]);
        let hist: Vec<UpdMsg> = c["history"].as_array().map(|a| a.iter().map(msg_from_json).collect()).unwrap_or_default();
        let mut runner = Runner::new(&ctx, "replay");
        let mut st = Stats::default();
        let (h, fs) = runner.run_case(&zone0, Some(&hist), None, 0, &mut st);
        for f in fs {
            rep.eval();
            rep.violation(&f.rule, &f.sig, case_json(&zone0, &h[..=f.step.min(h.len().saturating_sub(1))]), f.expected, f.observed);
        }
        for p in st.harness_problems {
            eprintln!("harness problem: {p}");
        }
        runner.env.cleanup();
        let _ = std::fs::remove_dir_all(scratch_root("c12"));
        rep.replay_finish();
    }

    // must-observe: every row of both tables, pass and fail (thresholds >= 3x below quick tier)
    for f in ["name-in-use", "rrset-exists", "name-not-in-use", "rrset-not-exists", "rrset-equals"] {
        rep.must(&format!("pre/{f}/pass"), 100);
        rep.must(&format!("pre/{f}/fail"), 100);
    }
    for f in ["add", "delete-rr", "delete-rrset", "delete-name"] {
        rep.must(&format!("upd/{f}/effective"), 100);
        rep.must(&format!("upd/{f}/noop"), 100);
    }
    rep.must("pre/malformed", 100);
    rep.must("upd/malformed", 100);
    rep.must("messages_accepted", 3000);
    rep.must("messages_rejected", 1000);
    for (name, min) in helpers::musts() {
        rep.must(&name, min);
    }

    let mut runner = Runner::new(&ctx, "main");
    let mut rng = ctx.rng("histories");
    let n_hist = ctx.budget(6000, 80_000);
    let max_len = if ctx.is_thorough() { 20 } else { 6 };
    let mut witnessed: BTreeMap<(String, String), u32> = BTreeMap::new();
    for _ in 0..n_hist {
        let mut r = rng.fork();
        let zone0 = gen_zone(&mut r);
        let len = r.urange(1, max_len);
        let mut st = Stats::default();
        let (hist, fs) = runner.run_case(&zone0, None, Some(&mut r), len, &mut st);
        rep.count("histories");
        rep.evals(st.evals);
        for (k, v) in &st.counters {
            rep.add(k, *v);
        }
        for h in &st.nontrivial {
            rep.nontrivial(*h);
        }
        for p in &st.harness_problems {
            rep.count("harness_problems");
            rep.inconclusive(&format!("harness: {p}"));
        }
        if !hist.is_empty() {
            rep.sample(|| json!({"zone": zone_lines(&zone0), "history": hist.iter().map(|m| json!({"pre": m.pre.iter().map(rr_text).collect::<Vec<_>>(), "upd": m.upd.iter().map(rr_text).collect::<Vec<_>>()})).collect::<Vec<_>>(), "findings": fs.len()}));
        }
        for f in &fs {
            let key = (f.rule.clone(), f.sig.clone());
            let n = witnessed.entry(key).or_insert(0);
            *n += 1;
            if *n <= 3 {
                let (z, h) = shrink(&mut runner, &zone0, &hist, f);
                // expected/observed of the shrunk case
                let mut st2 = Stats::default();
                let (_, fs2) = runner.run_case(&z, Some(&h), None, 0, &mut st2);
                let f2 = fs2.iter().find(|g| g.rule == f.rule && g.sig == f.sig).unwrap_or(f);
                rep.violation(&f.rule, &f.sig, case_json(&z, &h), f2.expected.clone(), f2.observed.clone());
            } else {
                rep.violation(&f.rule, &f.sig, Value::Null, Value::Null, Value::Null);
            }
        }
    }

    // ---- part H: hickory's own UPDATE message builders (form + effect)
    let mut hrng = ctx.rng("helpers");
    let n_cases = ctx.budget(5000, 60_000);
    for _ in 0..n_cases {
        let mut r = hrng.fork();
        let case = helpers::gen_case(&mut r);
        let mut st = Stats::default();
        let fs = helpers::judge(&mut runner, &case, &mut st);
        rep.count("H/cases");
        rep.evals(st.evals);
        for (k, v) in &st.counters {
            rep.add(k, *v);
        }
        for h in &st.nontrivial {
            rep.nontrivial(*h);
        }
        for p in &st.harness_problems {
            rep.count("harness_problems");
            rep.inconclusive(&format!("harness: {p}"));
        }
        rep.sample(|| json!({"part": "H", "zone": zone_lines(&case.zone), "op": helpers::op_json(&case.op), "edns": case.edns, "findings": fs.len()}));
        for f in &fs {
            let key = (f.rule.clone(), f.sig.clone());
            let n = witnessed.entry(key).or_insert(0);
            *n += 1;
            if *n <= 3 {
                let small = helpers::shrink(&mut runner, &case, &f.rule, &f.sig);
                let mut st2 = Stats::default();
                let fs2 = helpers::judge(&mut runner, &small, &mut st2);
                let f2 = fs2.iter().find(|g| g.rule == f.rule && g.sig == f.sig).unwrap_or(f);
                rep.violation(&f.rule, &f.sig, helpers::case_json(&small), f2.expected.clone(), f2.observed.clone());
            } else {
                rep.violation(&f.rule, &f.sig, Value::Null, Value::Null, Value::Null);
            }
        }
    }
    runner.env.cleanup();
    let _ = std::fs::remove_dir_all(scratch_root("c12"));
    std::process::exit(rep.finish().min(0));
}
