//! C07 — Secure implies an unbroken chain to a trust anchor.
//!
//! Observation point: `DnssecDnsHandle::send` (real validator, trust anchor = root KSK, virtual
//! clock) over a scripted upstream that is an *independent* emulation of a perfect recursive
//! resolver (RefAuth + reference signer calling ring directly, NSEC/NSEC3 denial) for a generated
//! hierarchy root / TLDs / leaves, with a tamper layer in between. Ground truth = the configured
//! zone data and key/DS set-up. See `oracle.rs` for the rules and the don't-cares.
//!
//! Workload per hierarchy: honest pass over the chosen queries (must not be rejected, marks must
//! equal the ground-truth status of each record's zone); recording of the upstream exchanges
//! R1..Rk each query causes; one fresh validator per single fault (record-level: alter a bit / drop /
//! replace by a genuine record from elsewhere / inject a forged record, at every record of every
//! exchange; response-level: strip RRSIGs / strip denial / flip rcode / empty a section / replay
//! another response; chain-level: attacker key set with everything re-signed, attacker DS, fake
//! insecure delegation, ancestor-delegation denial, fake zone cut, insecure-SOA denial), adaptive
//! double faults, and histories on one shared validator (validation cache participates).
//! Further chain-level attacks: attacker KSK sharing the genuine KSK's key tag, attacker ZSK slipped
//! into the genuine key set, a forged answer signed by the real keys of ANOTHER securely delegated zone.
//!
//! Every alarm is shrunk (history -> single step -> single fault -> fewest primitives) before it is
//! reported; the signature is `detail|fault kind|chain link` of the shrunk case (`multi-fault` /
//! `via-history` when it does not shrink to one fault / one step; the panic site for panics).
//!
//! Second observation point (`server.rs`): the wire response of `Catalog` -> hickory's own
//! `ForwardZoneHandler` -> `Resolver` (validate) -> pool -> harness connection provider over the same
//! tamperable upstream, for (DO, AD, CD, RD) combinations: AD=1 only over genuine, complete RRsets of
//! truly secure zones in answer and authority; nothing forged and no denial of existing secure data
//! to a CD=0 client; RD=0 refused.
//!
//! Server over the validating recursor (`rsrv.rs`, rules `rsrv-*`, counters `rsrv/*`, witnesses
//! `"mode": "rsrv"`): the wire response of `Catalog` -> hickory's own `RecursiveZoneHandler` (built from a
//! `RecursiveConfig`: roots file, trust-anchor file, validating policy) -> `Recursor` over the simulated
//! signed internet of part R, judged by the same server clauses plus `bogus-denial-served` /
//! `bogus-zone-data-served` (SERVFAIL, never an unauthenticated negative answer, to CD=0 clients). The
//! only place where the `RecursiveError` arms of `build_forwarded_response` run. `--only=rsrv` runs it
//! alone; `C07_SDUMP=1` prints every request.
//!
//! Anchored-island mode (`isl.rs`, rules `isl-*`, counters `isl/*`, witnesses `"mode": "isl"`): the same
//! validator entry point, upstream emulation, tamper layer, fault menu and oracle over worlds whose
//! trust anchor is the keyset-signing key of a NON-root zone Z; the upstream serves Z and its children
//! only (REFUSED outside) and answers `Z DS` from the child side (NODATA, SOA + apex NSEC / matching
//! NSEC3 with the SOA bit, signed by Z). Runs after everything else on a PRNG stream of its own.
//! `--only=isl` runs it alone; `C07_IDUMP=1` prints its honest runs.
//!
//! Determinism: hierarchies and queries come from the shard's main PRNG stream; every later stage
//! draws from a generator derived from (hierarchy, query, stage), because what hickory does with a
//! tampered response (order and set of sub-queries) depends on its randomly seeded HashMaps.
//! `--replay` rebuilds hierarchy, keys (seeds / PKCS#8 in the JSON), query and faults from the case alone.

#[path = "../c05/refsign.rs"]
mod refsign;
#[path = "../c10/refzone.rs"]
mod refzone;
#[path = "../c06/vrt.rs"]
mod vrt;

mod chain;
mod cli;
mod fault;
mod hier;
mod isl;
mod keys;
mod oracle;
mod rec;
mod rnet;
mod rsrv;
mod server;
mod upstream;
mod world;

use std::collections::{BTreeMap, HashSet};
use std::sync::Arc;

use futures::stream::StreamExt;
use hickory_net::dnssec::DnssecDnsHandle;
use hickory_net::xfer::DnsHandle;
use hickory_net::{DnsError, NetError};
use hickory_proto::dnssec::{Algorithm, Proof, PublicKeyBuf, TrustAnchors};
use hickory_proto::op::{DnsRequestOptions, DnsResponse, Query};
use hickory_proto::rr::{Record, RecordType};
use hickory_proto::serialize::binary::{BinEncodable, BinEncoder, NameEncoding};
use serde_json::{json, Value};

use vh::hk;
use vh::mon::{self, Ctx, Reporter};
use vh::prng::{fnv64, Rng};

use fault::{Attacker, Fault, Prim};
use hier::{Hier, Status, Truth};
use oracle::{Case, Observed, OutKind};
use refzone::{child, fold, show, ty, Name};
use upstream::{Exchange, Upstream};
use world::{Rec, Resp, World, SEC_AN, SEC_AR, SEC_NS};

// ---------------------------------------------------------------------------------------------
// driving the validator

struct Lab {
    rt: tokio::runtime::Runtime,
    attacker: Arc<Attacker>,
}

struct Bench {
    world: Arc<World>,
    trust: Arc<TrustAnchors>,
    opts: DnsRequestOptions,
}

impl Bench {
    fn new(h: &Hier) -> Bench {
        let truth = Truth::build(h);
        let mut ta = TrustAnchors::empty();
        ta.insert(&PublicKeyBuf::new(truth.anchor.1.clone(), Algorithm::from_u8(truth.anchor.0)));
        let mut opts = DnsRequestOptions::default();
        opts.edns_set_dnssec_ok = h.probes_do;
        Bench { world: Arc::new(World::new(truth)), trust: Arc::new(ta), opts }
    }
    fn truth(&self) -> &Truth {
        &self.world.truth
    }
}

/// panic site relative to the repository (whatever checkout is being built)
pub fn crate_site(site: &str) -> String {
    match site.find("crates/") {
        Some(i) => site[i..].to_string(),
        None => site.to_string(),
    }
}

fn hk_rec(sec: u8, r: &Record) -> Rec {
    let mut buf = Vec::new();
    let mut rdata = Vec::new();
    {
        let mut enc = BinEncoder::new(&mut buf);
        enc.name_encoding = NameEncoding::Uncompressed;
        if r.emit(&mut enc).is_ok() {
            drop(enc);
            if let Ok(w) = vh::refwire::read_record(&buf, 0) {
                rdata = w.rdata(&buf).to_vec();
            }
        }
    }
    Rec { sec, owner: fold(&hk::labels_of(&r.name)), rtype: u16::from(r.record_type()), class: u16::from(r.dns_class), ttl: r.ttl, rdata }
}

/// Map the validator's message back onto the presented records (by position).
fn observe_message(kind: OutKind, m: &DnsResponse, presented: Option<&Resp>) -> Observed {
    let mut recs: Vec<(Rec, Proof)> = Vec::new();
    let mut alts: Vec<Option<Vec<u8>>> = Vec::new();
    let mut remapped = false;
    for (sec, list) in [(SEC_AN, &m.answers), (SEC_NS, &m.authorities), (SEC_AR, &m.additionals)] {
        let pres: Vec<&Rec> = presented.map(|p| p.section(sec)).unwrap_or_default();
        let positional = pres.len() == list.len() && pres.iter().zip(list.iter()).all(|(p, r)| p.rtype == u16::from(r.record_type()) && fold(&p.owner) == fold(&hk::labels_of(&r.name)));
        for (i, r) in list.iter().enumerate() {
            let parsed = hk_rec(sec, r);
            if positional {
                alts.push(if parsed.rdata != pres[i].rdata { Some(parsed.rdata) } else { None });
                recs.push((pres[i].clone(), r.proof));
            } else {
                remapped = true;
                alts.push(None);
                recs.push((parsed, r.proof));
            }
        }
    }
    Observed { kind, rcode: u16::from(m.response_code), recs, alts, remapped }
}

struct StepResult {
    obs: Observed,
    log: Vec<Exchange>,
    budget_exceeded: bool,
}

#[derive(Clone, Debug, PartialEq)]
struct Step {
    qname: Name,
    qtype: u16,
    faults: Vec<Fault>,
}

impl Step {
    fn to_json(&self) -> Value {
        json!({"qname": show(&self.qname), "qtype": self.qtype, "faults": fault::faults_to_json(&self.faults)})
    }
    fn from_json(v: &Value) -> Option<Step> {
        Some(Step { qname: refzone::name(v["qname"].as_str()?), qtype: v["qtype"].as_u64()? as u16, faults: fault::faults_from_json(&v["faults"]) })
    }
}

/// Run a history of steps on ONE validator handle (fresh for this call).
fn run_steps(lab: &Lab, b: &Bench, steps: &[Step]) -> Vec<StepResult> {
    let up = Upstream::new(b.world.clone(), lab.attacker.clone());
    let v = DnssecDnsHandle::with_trust_anchor(up.clone(), b.trust.clone());
    vrt::clock_reset(b.truth().hier.now as u64);
    let mut out = Vec::new();
    for st in steps {
        up.set_faults(st.faults.clone());
        let q = Query::new(hk::to_name(&st.qname).expect("qname"), RecordType::from(st.qtype));
        let opts = b.opts;
        let r = mon::catch(|| lab.rt.block_on(async { v.lookup(q, opts).next().await }));
        let (log, budget_exceeded) = up.take_log();
        let top = log.first().map(|e| &e.presented);
        let obs = match r {
            Err(p) => Observed { kind: OutKind::Panic(format!("{} @ {}", p.message.chars().take(80).collect::<String>(), crate_site(&p.site()))), rcode: 0, recs: vec![], alts: vec![], remapped: false },
            Ok(None) => Observed { kind: OutKind::Err("empty stream".into()), rcode: 0, recs: vec![], alts: vec![], remapped: false },
            Ok(Some(Ok(m))) => observe_message(OutKind::Ok, &m, top),
            Ok(Some(Err(e))) => match &e {
                NetError::Dns(DnsError::Nsec { response, proof, .. }) => observe_message(OutKind::ErrNsec(*proof), response, top),
                other => Observed { kind: OutKind::Err(other.to_string().chars().take(100).collect()), rcode: 0, recs: vec![], alts: vec![], remapped: false },
            },
        };
        out.push(StepResult { obs, log, budget_exceeded });
    }
    out
}

// ---------------------------------------------------------------------------------------------
// queries

#[derive(Clone, Debug)]
struct QueryCase {
    qname: Name,
    qtype: u16,
    label: &'static str,
}

fn candidate_queries(t: &Truth) -> Vec<QueryCase> {
    let mut v = Vec::new();
    for (zi, z) in t.zones.iter().enumerate() {
        let a = &z.apex;
        let mut add = |n: Name, qt: u16, label: &'static str| v.push(QueryCase { qname: n, qtype: qt, label });
        add(child(b"www", a), ty::A, "host-a");
        add(child(b"www", a), ty::AAAA, "host-nodata");
        add(child(b"nx", a), ty::A, "nxdomain");
        add(child(b"txt", a), ty::TXT, "host-txt");
        add(a.clone(), ty::SOA, "apex-soa");
        add(a.clone(), ty::NS, "apex-ns");
        add(a.clone(), ty::DNSKEY, "apex-dnskey");
        add(a.clone(), ty::MX, "apex-mx");
        if zi != 0 {
            add(a.clone(), ty::DS, "ds");
            add(child(b"a", &child(b"nx", a)), ty::A, "nxdomain-deep");
        }
        if z.full.node(&child(b"alias", a)).is_some() {
            add(child(b"alias", a), ty::A, "cname");
        }
        if z.full.node(&child(b"ext", a)).is_some() {
            add(child(b"ext", a), ty::A, "cname-cross-zone");
        }
        if z.full.node(&child(b"*", &child(b"w", a))).is_some() {
            add(child(b"q", &child(b"w", a)), ty::TXT, "wildcard-answer");
            add(child(b"q", &child(b"w", a)), ty::MX, "wildcard-nodata");
            add(child(b"w", a), ty::TXT, "ent-nodata");
        }
    }
    v
}

fn pick_queries(rng: &mut Rng, t: &Truth, n: usize) -> Vec<QueryCase> {
    let mut c = candidate_queries(t);
    rng.shuffle(&mut c);
    // deeper zones first in line (that is where chains are long), but keep the mix
    let depth = |q: &QueryCase| t.zones[t.responsible(&q.qname, q.qtype)].apex.len();
    let mut out: Vec<QueryCase> = Vec::new();
    let mut seen_labels: HashSet<(&'static str, usize)> = HashSet::new();
    // one pass that prefers (label, depth) combinations not taken yet
    for q in &c {
        if out.len() >= n {
            break;
        }
        if seen_labels.insert((q.label, depth(q))) && (depth(q) >= 1 || rng.chance(1, 3)) {
            out.push(q.clone());
        }
    }
    for q in &c {
        if out.len() >= n {
            break;
        }
        if !out.iter().any(|o| o.qname == q.qname && o.qtype == q.qtype) {
            out.push(q.clone());
        }
    }
    out
}

// ---------------------------------------------------------------------------------------------
// fault enumeration

fn resp_link(top: bool, e: &Exchange) -> &'static str {
    if top {
        if e.honest.is_negative() {
            "denial"
        } else {
            "answer"
        }
    } else {
        match e.qtype {
            ty::DNSKEY => "dnskey",
            ty::DS => {
                if e.honest.is_negative() {
                    "denial"
                } else {
                    "ds"
                }
            }
            ty::NS => "nsprobe",
            _ => "other",
        }
    }
}

fn rec_link(top: bool, e: &Exchange, r: &Rec) -> &'static str {
    if r.is_denial() || (r.sec == SEC_NS && (r.rtype == ty::SOA || r.covered() == Some(ty::SOA))) {
        "denial"
    } else {
        resp_link(top, e)
    }
}

/// coarse class of the record a record-level fault hits (part of the fault kind label)
fn target_class(r: &Rec) -> String {
    match r.covered() {
        Some(c) => format!("rrsig-of-{}", oracle::tclass(c)),
        None => oracle::tclass(r.rtype).to_string(),
    }
}

/// the distinct (qname, qtype) exchanges of a run: the top-level one first, the rest in a canonical
/// order (hickory issues sub-queries in HashMap iteration order, which differs from run to run)
fn distinct_exchanges(log: &[Exchange]) -> Vec<Exchange> {
    let mut v: Vec<Exchange> = Vec::new();
    for e in log {
        if !v.iter().any(|x| x.qname == e.qname && x.qtype == e.qtype) {
            v.push(e.clone());
        }
    }
    if v.len() > 2 {
        v[1..].sort_by(|a, b| refzone::canonical_cmp(&a.qname, &b.qname).then(a.qtype.cmp(&b.qtype)));
    }
    v
}

const RECORD_KINDS: &[&str] = &["alter-bit", "drop", "replace-genuine", "inject-forged"];
const RESPONSE_KINDS: &[&str] = &["strip-rrsigs", "strip-denial", "flip-rcode", "empty-section", "replay-other"];
const CHAIN_KINDS: &[&str] = &["attacker-keyset", "attacker-ds", "attacker-chain", "fake-insecure-delegation", "ancestor-denial", "fake-cut", "insecure-soa-denial"];

/// record- and response-level faults on the exchanges of `log` (the first one is the top-level one
/// when `has_top`)
fn local_faults(rng: &mut Rng, exchanges: &[Exchange], has_top: bool, pool: &[Rec], tops: &[Exchange], thorough: bool) -> Vec<Fault> {
    let mut out = Vec::new();
    let mut marker = 1u8;
    for (ei, e) in exchanges.iter().enumerate() {
        let top = has_top && ei == 0;
        for (i, r) in e.honest.recs.iter().enumerate() {
            let link = rec_link(top, e, r);
            for _ in 0..if thorough { 2 } else { 1 } {
                out.push(Fault::new(&format!("alter-bit:{}", target_class(r)), link, vec![Prim::new("alter-bit").at(&e.qname, e.qtype).idx(i).n(rng.below(1 << 20))]));
            }
            out.push(Fault::new(&format!("drop:{}", target_class(r)), link, vec![Prim::new("drop").at(&e.qname, e.qtype).idx(i)]));
            let cands: Vec<&Rec> = pool.iter().filter(|p| p.rtype == r.rtype && p.covered() == r.covered() && (p.owner != r.owner || p.rdata != r.rdata)).collect();
            if !cands.is_empty() {
                let mut n = (*rng.pick(&cands)).clone();
                if rng.bool() {
                    n.owner = r.owner.clone(); // foreign RDATA under the victim's owner name
                }
                if n.owner != r.owner || n.rdata != r.rdata {
                    let how = if n.owner == r.owner { "rdata" } else { "foreign-owner" };
                    out.push(Fault::new(&format!("replace-genuine:{}:{}", target_class(r), how), link, vec![Prim::new("replace-genuine").at(&e.qname, e.qtype).idx(i).recs(vec![n])]));
                }
            }
        }
        // injected forged records: into each section
        for sec in [SEC_AN, SEC_NS, SEC_AR] {
            let t = match e.qtype {
                ty::A | ty::AAAA | ty::TXT | ty::MX | ty::NS | ty::SOA | ty::CNAME => e.qtype,
                _ => ty::A,
            };
            marker = marker.wrapping_add(1).max(1);
            let forged = Rec { sec, owner: e.qname.clone(), rtype: t, class: 1, ttl: 3600, rdata: fault::marker_rdata(t, marker) };
            let link = if sec == SEC_AN { resp_link(top, e) } else if sec == SEC_NS && e.honest.is_negative() { "denial" } else { resp_link(top, e) };
            out.push(Fault::new(&format!("inject-forged:{}", ["an", "ns", "ar"][sec as usize]), link, vec![Prim::new("inject").at(&e.qname, e.qtype).recs(vec![forged])]));
        }
        let link = resp_link(top, e);
        if e.honest.recs.iter().any(|r| r.rtype == ty::RRSIG) {
            out.push(Fault::new("strip-rrsigs", link, vec![Prim::new("strip-rrsigs").at(&e.qname, e.qtype)]));
        }
        if e.honest.recs.iter().any(|r| r.is_denial()) {
            out.push(Fault::new("strip-denial", "denial", vec![Prim::new("strip-denial").at(&e.qname, e.qtype)]));
        }
        out.push(Fault::new("flip-rcode:toggle", link, vec![Prim::new("flip-rcode").at(&e.qname, e.qtype)]));
        let rc = *rng.pick(&[2u8, 5]);
        out.push(Fault::new(&format!("flip-rcode:{rc}"), link, vec![Prim::new("flip-rcode").at(&e.qname, e.qtype).rcode(rc)]));
        for sec in [SEC_AN, SEC_NS] {
            if !e.honest.section(sec).is_empty() {
                out.push(Fault::new(&format!("empty-section:{}", ["an", "ns", "ar"][sec as usize]), link, vec![Prim::new("empty-section").at(&e.qname, e.qtype).n(sec as u64)]));
            }
        }
        out.push(Fault::new("empty-section:all", link, vec![Prim::new("empty-section").at(&e.qname, e.qtype).n(3)]));
        // replay of another genuine response of the same type
        let others: Vec<&Exchange> = tops.iter().filter(|o| o.qtype == e.qtype && o.qname != e.qname).collect();
        if !others.is_empty() {
            let o = *rng.pick(&others);
            out.push(Fault::new(if o.honest.is_negative() { "replay-other:negative" } else { "replay-other:positive" }, link, vec![Prim::new("replace-response").at(&e.qname, e.qtype).recs(o.honest.recs.clone()).rcode(o.honest.rcode)]));
        }
    }
    out
}

/// chain-level (compound) attacks for one query
fn chain_faults(rng: &mut Rng, b: &Bench, q: &QueryCase, exchanges: &[Exchange], lab_tags: &[u16]) -> Vec<Fault> {
    let t = b.truth();
    let w = &b.world;
    let mut out = Vec::new();
    let top = &exchanges[0];
    // zones whose keys took part in the honest run
    let mut zones: Vec<usize> = exchanges.iter().filter(|e| e.qtype == ty::DNSKEY).map(|e| t.zone_of_name(&e.qname)).filter(|z| t.zones[*z].apex == exchanges.iter().find(|e| e.qtype == ty::DNSKEY && t.zone_of_name(&e.qname) == *z).unwrap().qname).collect();
    zones.sort();
    zones.dedup();
    for &zi in &zones {
        let apex = t.zones[zi].apex.clone();
        for n in 0..2u64 {
            out.push(Fault::new(["attacker-keyset:resigned", "attacker-keyset:forged-data"][n as usize], "dnskey", vec![Prim::new("attacker-keyset").zone(&apex).n(n)]));
        }
        // attacker KSK with the genuine KSK's (algorithm, key tag): the genuine DS gets compared with it
        if t.zones[zi].keys.iter().any(|k| k.spec.signs_keyset && k.spec.alg == 15 && lab_tags.contains(&k.tag)) {
            out.push(Fault::new("attacker-keyset:tag-matched", "dnskey", vec![Prim::new("attacker-keyset").zone(&apex).n(2)]));
            out.push(Fault::new("attacker-keyset:tag-matched-forged-data", "dnskey", vec![Prim::new("attacker-keyset").zone(&apex).n(3)]));
        }
        // attacker ZSK slipped into the genuine key set, data forged under that key
        out.push(Fault::new("attacker-keyset:zsk-injected", "dnskey", vec![Prim::new("attacker-keyset").zone(&apex).n(4)]));
        let Some(p) = t.zones[zi].parent else { continue };
        for n in 0..3u64 {
            out.push(Fault::new(["attacker-ds:unsigned", "attacker-ds:genuine-sig-kept", "attacker-ds:attacker-signed"][n as usize], "ds", vec![Prim::new("attacker-ds").zone(&apex).n(n)]));
        }
        out.push(Fault::new("attacker-chain", "ds", vec![Prim::new("attacker-keyset").zone(&apex).n(1), Prim::new("attacker-ds").zone(&apex).n(2)]));
        // fake insecure delegation: the DS answer becomes a (bogus) denial, the zone loses its signatures
        if !exchanges.iter().any(|e| e.qtype == ty::DS && e.qname == apex && !e.honest.is_negative()) {
            continue;
        }
        let nx_sibling = child(b"zz-nx", &t.zones[p].apex);
        let mut variants: Vec<(u8, Vec<Rec>)> = vec![
            (0, Vec::new()),
            (0, w.parent_side_denial(p, &apex, false).into_iter().filter(|r| r.rtype == ty::SOA || r.covered() == Some(ty::SOA)).collect()),
        ];
        let replay = w.honest(&nx_sibling, ty::DS, true);
        variants.push((0, replay.recs.clone()));
        variants.push((replay.rcode, replay.recs));
        // the child's own apex denial (child-side NSEC / NSEC3 for the apex: no DS bit, SOA bit set)
        let child_apex = w.honest(&apex, 65280, true);
        variants.push((0, child_apex.recs));
        variants.push((0, w.parent_side_denial(p, &apex, true)));
        for (vi, (rc, recs)) in variants.into_iter().enumerate() {
            let mut prims = vec![Prim::new("replace-response").at(&apex, ty::DS).recs(recs).rcode(rc).n(vi as u64), Prim::new("strip-zone-sigs").zone(&apex)];
            if rng.bool() {
                // and the attacker rewrites the answer while he is at it
                if let Some((i, r)) = top.honest.recs.iter().enumerate().find(|(_, r)| r.sec == SEC_AN && matches!(r.rtype, ty::A | ty::TXT | ty::MX) && t.zone_of_name(&r.owner) == zi) {
                    let mut f = r.clone();
                    f.rdata = fault::marker_rdata(r.rtype, 99);
                    prims.push(Prim::new("replace-genuine").at(&top.qname, top.qtype).idx(i).recs(vec![f]));
                }
            }
            let vname = ["bare", "soa-only", "replayed-nx-denial-noerror", "replayed-nx-denial", "child-apex-denial", "ds-bit-cleared"][vi];
            out.push(Fault::new(&format!("fake-insecure-delegation:{vname}"), "denial", prims));
        }
    }
    // ancestor-delegation denial: the parent's records about the delegation point "prove" a denial in the child
    let zq = t.responsible(&q.qname, q.qtype);
    if let Some(p) = t.zones[zq].parent {
        if t.zones[p].spec.signed && q.qtype != ty::DS {
            let cut = t.zones[zq].apex.clone();
            if q.qname == cut {
                out.push(Fault::new("ancestor-denial:nodata", "denial", vec![Prim::new("replace-response").at(&q.qname, q.qtype).recs(w.parent_side_denial(p, &cut, false)).rcode(0)]));
            } else {
                out.push(Fault::new("ancestor-denial:nxdomain", "denial", vec![Prim::new("replace-response").at(&q.qname, q.qtype).recs(w.ancestor_nxdomain(p, &cut, &q.qname)).rcode(3)]));
            }
        }
    }
    // a malicious operator of ANOTHER securely delegated zone signs a (forged) answer for the victim name
    if !top.honest.is_negative() && q.qtype != ty::DNSKEY && q.qtype != ty::DS {
        for (yi, y) in t.zones.iter().enumerate() {
            if yi == zq || y.status != Status::Secure || y.keys.iter().all(|k| k.signer.is_none()) {
                continue;
            }
            let relation = if refzone::is_subdomain(&q.qname, &y.apex) { "ancestor" } else if refzone::is_subdomain(&y.apex, &t.zones[zq].apex) { "descendant" } else { "unrelated" };
            let signer = Rec { sec: SEC_AR, owner: y.apex.clone(), rtype: ty::NS, class: 1, ttl: 0, rdata: vec![0] };
            for n in 0..2u64 {
                out.push(Fault::new(&format!("cross-zone-signature:{}{}", relation, if n == 1 { "-forged-data" } else { "" }), "answer", vec![Prim::new("cross-zone-signature").at(&q.qname, q.qtype).n(n).recs(vec![signer.clone()])]));
            }
        }
    }
    // fake zone cut below a signed zone: strip the signatures, forge the (never validated) NS probe
    if !top.honest.is_negative() && top.honest.recs.iter().any(|r| r.rtype == ty::RRSIG) && q.qname != t.zones[zq].apex {
        let forged_ns = Rec { sec: SEC_AN, owner: q.qname.clone(), rtype: ty::NS, class: 1, ttl: 3600, rdata: refzone::rd_name(&child(b"ns1", &q.qname)) };
        for forge in [false, true] {
            let mut prims = vec![Prim::new("strip-rrsigs").at(&q.qname, q.qtype), Prim::new("replace-response").at(&q.qname, ty::NS).recs(vec![forged_ns.clone()]).rcode(0)];
            if forge {
                if let Some((i, r)) = top.honest.recs.iter().enumerate().find(|(_, r)| r.sec == SEC_AN && matches!(r.rtype, ty::A | ty::TXT | ty::MX)) {
                    let mut f = r.clone();
                    f.rdata = fault::marker_rdata(r.rtype, 98);
                    prims.push(Prim::new("replace-genuine").at(&top.qname, top.qtype).idx(i).recs(vec![f]));
                }
            }
            out.push(Fault::new(if forge { "fake-cut:forged-data" } else { "fake-cut:plain" }, "nsprobe", prims));
        }
    }
    // denial by the SOA of some truly insecure zone
    if let Some(ins) = t.zones.iter().find(|z| z.status == Status::Insecure) {
        if let Some(soa) = ins.full.rrset(&ins.apex, ty::SOA) {
            let rec = Rec { sec: SEC_NS, owner: ins.apex.clone(), rtype: ty::SOA, class: 1, ttl: 300, rdata: soa[0].clone() };
            let link = if top.honest.is_negative() { "denial" } else { "answer" };
            out.push(Fault::new("insecure-soa-denial", link, vec![Prim::new("replace-response").at(&q.qname, q.qtype).recs(vec![rec]).rcode(0)]));
        }
    }
    out
}

/// all when few, otherwise a sample stratified by (kind, link)
fn sample_faults(rng: &mut Rng, mut all: Vec<Fault>, cap: usize) -> Vec<Fault> {
    if all.len() <= cap {
        return all;
    }
    rng.shuffle(&mut all);
    let mut by: BTreeMap<(String, String), Vec<Fault>> = BTreeMap::new();
    for f in all {
        by.entry((f.kind.split(':').next().unwrap_or("").to_string(), f.link.clone())).or_default().push(f);
    }
    let mut out = Vec::new();
    while out.len() < cap {
        let mut progressed = false;
        for v in by.values_mut() {
            if out.len() >= cap {
                break;
            }
            if let Some(f) = v.pop() {
                out.push(f);
                progressed = true;
            }
        }
        if !progressed {
            break;
        }
    }
    out
}

// ---------------------------------------------------------------------------------------------
// judging one run

struct Judge<'a> {
    rep: &'a mut Reporter,
    lab: &'a Lab,
    hier_json: Value,
    hier_hash: u64,
}

fn outcome_label(obs: &Observed) -> &'static str {
    match &obs.kind {
        OutKind::Ok => {
            if obs.recs.iter().any(|(r, p)| r.rtype != ty::RRSIG && *p == Proof::Bogus) {
                "ok-with-bogus"
            } else if obs.recs.iter().any(|(r, p)| r.rtype != ty::RRSIG && *p == Proof::Secure) {
                "ok-secure"
            } else if obs.recs.iter().any(|(r, p)| r.rtype != ty::RRSIG && *p == Proof::Insecure) {
                "ok-insecure"
            } else {
                "ok-unmarked"
            }
        }
        OutKind::ErrNsec(Proof::Insecure) => "err-nsec-insecure",
        OutKind::ErrNsec(_) => "err-nsec",
        OutKind::Err(_) => "err",
        OutKind::Panic(_) => "panic",
    }
}

impl Judge<'_> {
    /// does the last step of `steps`, run on a fresh validator, raise the same (rule, detail)?
    fn reproduces(&self, b: &Bench, steps: &[Step], rule: &str, detail: &str) -> Option<StepResult> {
        let mut results = run_steps(self.lab, b, steps);
        let res = results.pop()?;
        let si = steps.len() - 1;
        let honest = steps.iter().all(|s| s.faults.is_empty());
        let c = Case { truth: b.truth(), world: &b.world, qname: &steps[si].qname, qtype: steps[si].qtype, obs: &res.obs, log: &res.log, fresh: steps.len() == 1, honest };
        if oracle::judge(&c).iter().any(|a| a.rule == rule && a.detail == detail) {
            Some(res)
        } else {
            None
        }
    }

    /// Shrink a failing history: single step if the history is not needed, single fault if one of
    /// the two suffices, fewest primitives of a compound fault. Returns the minimal steps.
    fn minimize(&mut self, b: &Bench, steps: &[Step], rule: &str, detail: &str) -> Vec<Step> {
        let mut cur: Vec<Step> = steps.to_vec();
        if cur.len() > 1 {
            let single = vec![cur.last().unwrap().clone()];
            if self.reproduces(b, &single, rule, detail).is_some() {
                cur = single;
            } else {
                // drop earlier steps one at a time
                let mut i = 0;
                while cur.len() > 2 && i + 1 < cur.len() {
                    let mut t = cur.clone();
                    t.remove(i);
                    if self.reproduces(b, &t, rule, detail).is_some() {
                        cur = t;
                    } else {
                        i += 1;
                    }
                }
            }
        }
        let li = cur.len() - 1;
        if cur[li].faults.len() > 1 {
            for f in cur[li].faults.clone() {
                let mut t = cur.clone();
                t[li].faults = vec![f];
                if self.reproduces(b, &t, rule, detail).is_some() {
                    cur = t;
                    break;
                }
            }
        }
        // fewest primitives
        for fi in 0..cur[li].faults.len() {
            let mut pi = 0;
            while cur[li].faults[fi].prims.len() > 1 && pi < cur[li].faults[fi].prims.len() {
                let mut t = cur.clone();
                t[li].faults[fi].prims.remove(pi);
                if self.reproduces(b, &t, rule, detail).is_some() {
                    cur = t;
                } else {
                    pi += 1;
                }
            }
        }
        self.rep.count("violations_minimized");
        cur
    }

    /// judge every step of a history; `results` come from `run_steps`
    fn judge(&mut self, b: &Bench, steps: &[Step], results: &[StepResult], workload: &str) {
        let fresh = steps.len() == 1;
        for (si, (st, res)) in steps.iter().zip(results.iter()).enumerate() {
            if workload == "replay" && si + 1 < steps.len() {
                continue; // a witness is about its last step
            }
            let honest = steps[..=si].iter().all(|s| s.faults.is_empty());
            self.rep.eval();
            let c = Case { truth: b.truth(), world: &b.world, qname: &st.qname, qtype: st.qtype, obs: &res.obs, log: &res.log, fresh, honest };
            let alarms = oracle::judge(&c);
            // bookkeeping
            let nkeys = distinct_exchanges(&res.log).len();
            self.rep.max("max_upstream_exchanges_per_query", res.log.len() as f64);
            if res.budget_exceeded {
                // not judged by this property (work amplification); recorded so that it is visible
                self.rep.count("info_upstream_exchange_budget_exceeded_not_judged");
                let desc = json!({"query": format!("{} {}", show(&st.qname), refzone::type_name(st.qtype)), "faults": st.faults.iter().map(|f| format!("{}|{}", f.kind, f.link)).collect::<Vec<_>>(), "upstream_exchanges": res.log.len()});
                self.rep.note("amplification_example_not_judged", desc);
            }
            if res.obs.remapped {
                self.rep.count("records_remapped_by_reencoding");
            }
            if res.log.iter().any(|e| !e.decodable) {
                self.rep.count("runs_with_undecodable_tampered_response");
            }
            let outcome = outcome_label(&res.obs);
            self.rep.count(&format!("outcome/{}/{}", if st.faults.is_empty() { "honest" } else { "tampered" }, outcome));
            if nkeys >= 3 {
                self.rep.count("runs_with_3plus_upstream_responses");
                let h = fnv64(format!("{}|{}", self.hier_hash, serde_json::to_string(&steps[..=si].iter().map(|s| s.to_json()).collect::<Vec<_>>()).unwrap()).as_bytes());
                self.rep.nontrivial(h);
            }
            for f in &st.faults {
                self.rep.count(&format!("fault/{}/{}", f.kind.split(':').next().unwrap_or(""), f.link));
                if f.kind.starts_with("attacker-keyset:") || f.kind.starts_with("fake-insecure-delegation:") || f.kind.starts_with("cross-zone-signature:") || f.kind.starts_with("attacker-ds:") {
                    self.rep.count(&format!("faultvariant/{}", f.kind));
                    if fresh && st.faults.len() == 1 {
                        self.rep.count(&format!("faultvariant_outcome/{}/{}", f.kind, outcome));
                        if std::env::var("C07_DUMP").is_ok_and(|d| d == format!("{}/{}", f.kind, outcome)) {
                            eprintln!("DUMP {}", json!({"case": {"hier": self.hier_json, "steps": [st.to_json()]}, "obs": res.obs.to_json()}));
                        }
                    }
                }
            }
            if !st.faults.is_empty() {
                if st.faults.len() >= 2 {
                    self.rep.count("double_fault_runs");
                }
                if !fresh {
                    self.rep.count("history_tampered_steps");
                }
            }
            if !fresh && st.faults.is_empty() && si > 0 && !honest {
                // honest step after a tampered one on the same validator
                self.rep.count("history_honest_after_tampered");
                if !matches!(res.obs.kind, OutKind::Ok) || outcome == "ok-with-bogus" {
                    self.rep.count("info_honest_after_tampered_rejected_not_judged");
                }
            }
            for a in alarms {
                self.rep.count(&format!("alarms_raw/{}", a.rule));
                if a.rule == "honest-rejected" {
                    // C07's statement bounds what may be called Secure / Insecure; it does not promise
                    // that every RFC-conformant honest response is accepted (acceptance of the proofs
                    // hickory's own server attaches is the completeness clause of C08/C09). A validator
                    // that rejects an honest response is stricter, never unsound: counted, not judged.
                    self.rep.count(&format!("info_honest_rejected_not_judged/{}", a.detail));
                    continue;
                }
                // shrink to the smallest history / fault set that still shows the same alarm
                let needs_min = si > 0 || st.faults.len() > 1 || st.faults.iter().any(|f| f.prims.len() > 1);
                let min_steps = if needs_min { self.minimize(b, &steps[..=si], a.rule, &a.detail) } else { steps[..=si].to_vec() };
                let last = min_steps.last().unwrap();
                let via = if min_steps.len() > 1 { "|via-history" } else { "" };
                let sig = if a.rule == "validator-panic" {
                    // the panic site is the discriminator, whatever input reached it
                    a.detail.split_whitespace().collect::<Vec<_>>().join(" ")
                } else if last.faults.is_empty() && min_steps.len() == 1 {
                    let zi = b.truth().responsible(&last.qname, last.qtype);
                    let z = &b.truth().zones[zi];
                    let kind = b.world.honest(&last.qname, last.qtype, true).kind;
                    format!("{}|honest|{}|{}", a.detail, kind, if !z.spec.signed { "unsigned" } else if z.spec.nsec3.is_some() { "nsec3" } else { "nsec" })
                } else if min_steps.len() > 1 {
                    // needs the history (validation cache): which faults came before matters less than that
                    format!("{}|via-history:{}|{}", a.detail, fault_kinds(min_steps.iter().flat_map(|s| s.faults.iter().map(|f| f.kind.as_str()))), if last.faults.is_empty() { "honest-step-after-tampering" } else { "tampered-step" })
                } else if last.faults.len() > 1 {
                    format!("{}|multi-fault:{}", a.detail, fault_kinds(last.faults.iter().map(|f| f.kind.as_str())))
                } else if (a.rule == "secure-despite-broken-link" && matches!(a.detail.as_str(), "dnskey" | "own-rrsig:dnskey")) || (a.rule == "secure-rrset-incomplete" && a.detail == "dnskey") {
                    // a DNSKEY RRset got by without a valid signature: the link is the discriminator, not the way it was broken
                    format!("{}|{}", a.detail, last.faults[0].link)
                } else if a.rule == "secure-despite-broken-link" {
                    format!("{}|{}|{}", a.detail, last.faults[0].kind.split(':').next().unwrap_or(""), last.faults[0].link)
                } else {
                    format!("{}|{}|{}", a.detail, last.faults[0].kind, last.faults[0].link)
                };
                let _ = via;
                // re-run the minimal case to record what it shows
                let (obs_json, ex_json) = {
                    let rs = run_steps(self.lab, b, &min_steps);
                    let r = rs.last().unwrap();
                    (r.obs.to_json(), r.log.iter().map(|e| format!("{} {}{}", show(&e.qname), refzone::type_name(e.qtype), if e.presented != e.honest { " (tampered)" } else { "" })).collect::<Vec<_>>())
                };
                let case = json!({"hier": self.hier_json, "steps": min_steps.iter().map(|s| s.to_json()).collect::<Vec<_>>(), "workload": workload});
                self.rep.violation(a.rule, &sig, case, a.expected, json!({"alarm": a.observed, "outcome": obs_json, "upstream_exchanges": ex_json}));
            }
        }
    }
}

// ---------------------------------------------------------------------------------------------

/// The distinct fault kinds (with their variant) of a fault set that did not shrink to one fault (or of all
/// steps of a history that did not shrink to one step), sorted:
/// part of the signature so that a combination is attributed to its ingredients.
pub fn fault_kinds<'a>(kinds: impl Iterator<Item = &'a str>) -> String {
    let mut v: Vec<&str> = kinds.collect();
    v.sort_unstable();
    v.dedup();
    v.join("+")
}

// ---------------------------------------------------------------------------------------------
// second observation point: wire response of the server (Catalog -> ForwardZoneHandler -> Resolver)

/// The server clauses on one decoded wire response with rcode NOERROR / NXDOMAIN to an RD=1 request
/// (shared by both server observation points): AD=1 only over genuine, complete RRsets of truly secure
/// zones in answer and authority; nothing forged in the answer and no denial of existing secure data to
/// a CD=0 client. Returns (rule, detail, observed).
pub fn server_wire_alarms(t: &Truth, qname: &Name, qtype: u16, f: server::Flags, w: &server::WireObs) -> Vec<(&'static str, String, Value)> {
    let mut alarms: Vec<(&'static str, String, Value)> = Vec::new();
    {
        let answers: Vec<&Rec> = w.recs.iter().filter(|r| r.sec == SEC_AN && r.rtype != ty::RRSIG).collect();
        let genuine = |r: &Rec| -> (bool, bool) {
            // (is a genuine record, of a truly secure zone)
            let cands = t.genuine(&r.owner, r.rtype);
            let rd = hier::canon(r.rtype, &r.rdata);
            let m: Vec<usize> = cands.iter().filter(|(_, set)| set.contains(&rd)).map(|c| c.0).collect();
            (!m.is_empty(), m.iter().any(|z| t.zones[*z].status == Status::Secure))
        };
        for r in w.recs.iter().filter(|r| r.sec != SEC_AR && !matches!(r.rtype, ty::RRSIG)) {
            let (is_gen, in_secure) = genuine(r);
            let zs = t.zones_of_record(&r.owner, r.rtype);
            let zone_insecure = zs.iter().any(|z| t.zones[*z].status == Status::Insecure);
            if w.ad && !(is_gen && in_secure) {
                alarms.push(("ad-not-authentic", if is_gen { "record-of-insecure-zone".into() } else { "forged-record".into() }, json!({"record": r.to_json(), "flags": f.label()})));
            } else if !f.cd && !zone_insecure && !is_gen && r.sec == SEC_AN {
                alarms.push(("served-forged-to-cd0", "answer".into(), json!({"record": r.to_json(), "flags": f.label()})));
            }
        }
        if w.ad {
            // complete RRsets only
            let mut groups: Vec<(Name, u16)> = answers.iter().map(|r| (fold(&r.owner), r.rtype)).collect();
            groups.sort();
            groups.dedup();
            for (o, rt) in groups {
                let set: std::collections::BTreeSet<Vec<u8>> = answers.iter().filter(|r| fold(&r.owner) == o && r.rtype == rt).map(|r| hier::canon(rt, &r.rdata)).collect();
                let cands = t.genuine(&o, rt);
                if cands.iter().any(|(_, g)| set.is_subset(g) && set != *g) {
                    alarms.push(("ad-not-authentic", "incomplete-rrset".into(), json!({"owner": show(&o), "type": rt, "flags": f.label()})));
                }
            }
        }
        // a negative conclusion handed to the client
        let mut n = qname.clone();
        let mut negative = false;
        let mut via_insecure = false;
        for _ in 0..12 {
            if answers.iter().any(|r| fold(&r.owner) == n && r.rtype == qtype) {
                break;
            }
            if qtype != ty::CNAME {
                if let Some(cn) = answers.iter().find(|r| fold(&r.owner) == n && r.rtype == ty::CNAME) {
                    let target = refzone::cname_target(&cn.rdata);
                    if target == n {
                        break;
                    }
                    if t.zones[t.responsible(&n, ty::CNAME)].status == Status::Insecure {
                        via_insecure = true;
                    }
                    n = target;
                    continue;
                }
            }
            negative = true;
            break;
        }
        if negative && !via_insecure && !alarms.iter().any(|a| a.0 == "ad-not-authentic" || a.0 == "served-forged-to-cd0") {
            let zi = t.responsible(&n, qtype);
            if t.zones[zi].status == Status::Secure && (w.ad || !f.cd) {
                let k = refzone::ref_auth(&t.zones[zi].full, &n, qtype).first_step().kind;
                let exists = matches!(k, refzone::Kind::Answer | refzone::Kind::WildcardAnswer) || (qtype != ty::CNAME && matches!(k, refzone::Kind::CnameChain | refzone::Kind::WildcardCname));
                if exists {
                    alarms.push(("false-denial-served", if w.ad { "ad1".into() } else { "cd0".into() }, json!({"name": show(&n), "qtype": qtype, "rcode": w.rcode, "ad": w.ad, "flags": f.label(), "ground_truth": k.as_str()})));
                }
            }
        }
    }
    alarms
}

fn flags_from_label(s: &str) -> server::Flags {
    let bit = |k: &str| s.find(k).and_then(|i| s.as_bytes().get(i + k.len())).is_some_and(|c| *c == b'1');
    server::Flags { edns_do: bit("do"), ad: bit("ad"), cd: bit("cd"), rd: bit("rd") }
}

impl Judge<'_> {
    /// One request through the real server path over a (tampered) upstream, judged on the wire bytes.
    fn server_case(&mut self, b: &Bench, st: &Step, f: server::Flags) {
        let t = b.truth();
        let up = Upstream::new(b.world.clone(), self.lab.attacker.clone());
        up.set_faults(st.faults.clone());
        vrt::clock_reset(t.hier.now as u64);
        let cat = match mon::catch(|| self.lab.rt.block_on(async { server::build_catalog(&up, b.trust.clone()) })) {
            Ok(Ok(c)) => c,
            Ok(Err(e)) => {
                self.rep.inconclusive(&format!("server observation point: forwarder could not be built: {e}"));
                return;
            }
            Err(p) => {
                self.rep.inconclusive(&format!("server observation point: building the forwarder panicked: {}", p.message));
                return;
            }
        };
        let res = server::ask(&self.lab.rt, &cat, &st.qname, st.qtype, f);
        self.rep.eval();
        self.rep.count("server_requests");
        let tampered = !st.faults.is_empty();
        let mut alarms: Vec<(&'static str, String, Value)> = Vec::new();
        match &res {
            Err(e) if e.starts_with("PANIC") => alarms.push(("server-panic", e.clone(), json!(e))),
            Err(_) => self.rep.count("server_no_response"),
            Ok(w) => {
                self.rep.count(&format!("server_rcode/{}/{}", if tampered { "tampered" } else { "honest" }, w.rcode));
                if !f.rd {
                    if w.rcode == 5 {
                        self.rep.count("server_rd0_refused");
                    }
                } else if w.rcode == 0 || w.rcode == 3 {
                    if w.ad {
                        self.rep.count(&format!("server_ad1/{}", if tampered { "tampered" } else { "honest" }));
                    }
                    alarms.extend(server_wire_alarms(t, &st.qname, st.qtype, f, w));
                }
            }
        }
        for fl in &st.faults {
            self.rep.count(&format!("server_fault/{}", fl.kind.split(':').next().unwrap_or("")));
        }
        let mut seen: Vec<(&'static str, String)> = Vec::new();
        for (rule, detail, observed) in alarms {
            if seen.contains(&(rule, detail.clone())) {
                continue;
            }
            seen.push((rule, detail.clone()));
            let sig = if rule == "server-panic" {
                detail.clone()
            } else if st.faults.is_empty() {
                format!("{detail}|honest")
            } else {
                format!("{}|{}", detail, st.faults.iter().map(|x| x.kind.split(':').next().unwrap_or("").to_string()).collect::<Vec<_>>().join("+"))
            };
            let wire = res.as_ref().ok().map(|w| json!({"rcode": w.rcode, "ad": w.ad, "records": w.recs.iter().map(|r| r.to_json()).collect::<Vec<_>>()}));
            let case = json!({"hier": self.hier_json, "steps": [st.to_json()], "server_flags": f.label(), "workload": "server"});
            self.rep.violation(rule, &sig, case, json!("AD=1 only over authentic data of truly secure zones; nothing forged and no denial of existing secure data to a CD=0 client"), json!({"alarm": observed, "wire_response": wire}));
        }
    }
}

fn genkeys(n: usize) {
    let rng = ring::rand::SystemRandom::new();
    for _ in 0..n {
        let doc = ring::signature::EcdsaKeyPair::generate_pkcs8(&ring::signature::ECDSA_P256_SHA256_FIXED_SIGNING, &rng).unwrap();
        println!("    \"{}\",", mon::hex(doc.as_ref()));
    }
}

fn main() {
    let ctx = Ctx::from_args("C07");
    if let Some(n) = ctx.extra.get("genkeys") {
        genkeys(n.parse().unwrap_or(8));
        return;
    }
    mon::install_panic_monitor();
    let mut rep = Reporter::new(&ctx);
    refzone::selftest();
    let lab = Lab { rt: tokio::runtime::Builder::new_current_thread().enable_all().build().unwrap(), attacker: Arc::new(Attacker::new()) };

    if let Some(w) = ctx.replay_case() {
        let c = &w["case"];
        match Hier::from_json(&c["hier"]) {
            Ok(h) => {
                let b = Bench::new(&h);
                let steps: Vec<Step> = c["steps"].as_array().map(|a| a.iter().filter_map(Step::from_json).collect()).unwrap_or_default();
                if let Some(p) = ctx.extra.get("probe") {
                    // debugging aid: run another top-level query under the faults of the last step, print what comes back
                    let (n, t) = p.split_once('/').unwrap_or((p.as_str(), "1"));
                    let st = Step { qname: refzone::name(n), qtype: t.parse().unwrap_or(1), faults: steps.last().map(|s| s.faults.clone()).unwrap_or_default() };
                    let r = run_steps(&lab, &b, &[st]);
                    println!("{}", serde_json::to_string_pretty(&r[0].obs.to_json()).unwrap());
                    for e in &r[0].log {
                        println!("  exchange {} {} do={} rcode={} recs={:?}", show(&e.qname), e.qtype, e.dnssec, e.presented.rcode, e.presented.recs.iter().map(|r| format!("{}:{}/{}", r.sec, show(&r.owner), r.rtype)).collect::<Vec<_>>());
                    }
                }
                // the honest signer's signature registry must know the whole zone before judging
                if c["mode"].as_str() == Some("cli") {
                    cli::replay(&mut rep, &lab.attacker, &h, c);
                    rep.replay_finish();
                }
                if c["mode"].as_str() == Some("isl") {
                    isl::replay(&mut rep, &lab, &h, c);
                    rep.replay_finish();
                }
                if c["mode"].as_str() == Some("rec") {
                    rec::replay(&mut rep, &lab.attacker, &b, &h.to_json(), c, ctx.extra.contains_key("dump"));
                    rep.replay_finish();
                }
                if c["mode"].as_str() == Some("rsrv") {
                    rsrv::replay(&mut rep, &lab.attacker, &b, &h.to_json(), c, ctx.extra.contains_key("dump"));
                    rep.replay_finish();
                }
                let mut j = Judge { rep: &mut rep, lab: &lab, hier_json: h.to_json(), hier_hash: fnv64(h.to_json().to_string().as_bytes()) };
                if let (Some(fl), Some(st)) = (c["server_flags"].as_str(), steps.last()) {
                    j.server_case(&b, st, flags_from_label(fl));
                } else {
                    let results = run_steps(&lab, &b, &steps);
                    j.judge(&b, &steps, &results, "replay");
                }
            }
            Err(e) => eprintln!("bad replay case: {e}"),
        }
        rep.replay_finish();
    }

    // must-observe (totals over all shards; at least 3x below what the quick tier shows at seeds 1..5)
    for class in ["ds-good", "no-ds", "island", "ds-unsupported-alg", "ds-unsupported-digest", "ds-mixed", "ds-standby"] {
        rep.must(&format!("honest_expected_marks/{class}"), 10);
    }
    rep.must("honest_secure_verdicts/nsec", 100);
    rep.must("honest_secure_verdicts/nsec3", 100);
    rep.must("honest_insecure_verdicts", 100);
    rep.must("honest_secure_below_nsec_parent", 30);
    rep.must("honest_secure_below_nsec3_parent", 30);
    rep.must("honest_insecure_proven_by_nsec_parent", 30);
    rep.must("honest_insecure_proven_by_nsec3_parent", 30);
    rep.must("honest_expected_marks/key-tag-collision-zone", 10);
    rep.must("runs_with_3plus_upstream_responses", 20_000);
    rep.must("double_fault_runs", 2000);
    rep.must("history_tampered_steps", 2000);
    rep.must("history_honest_after_tampered", 1000);
    rep.must("server_requests", 8000);
    rep.must("server_ad1/honest", 500);
    rep.must("server_rcode/tampered/2", 2000);
    rep.must("server_rd0_refused", 200);
    for k in RECORD_KINDS {
        for l in ["answer", "dnskey", "ds", "denial", "nsprobe"] {
            rep.must(&format!("fault/{k}/{l}"), 50);
        }
    }
    for k in ["strip-rrsigs", "flip-rcode", "empty-section", "replay-other"] {
        for l in ["answer", "dnskey", "ds", "denial"] {
            rep.must(&format!("fault/{k}/{l}"), 50);
        }
    }
    rep.must("fault/strip-denial/denial", 50);
    rep.must("fault/attacker-keyset/dnskey", 50);
    rep.must("fault/attacker-ds/ds", 50);
    rep.must("fault/attacker-chain/ds", 50);
    rep.must("fault/fake-insecure-delegation/denial", 50);
    rep.must("fault/ancestor-denial/denial", 50);
    rep.must("fault/fake-cut/nsprobe", 50);
    rep.must("fault/insecure-soa-denial/answer", 50);
    rep.must("fault/insecure-soa-denial/denial", 50);
    rep.must("fault/cross-zone-signature/answer", 50);
    rep.must("faultvariant/attacker-keyset:tag-matched-forged-data", 30);
    rep.must("faultvariant/attacker-keyset:zsk-injected", 100);
    for v in ["bare", "soa-only", "replayed-nx-denial-noerror", "replayed-nx-denial", "child-apex-denial", "ds-bit-cleared"] {
        rep.must(&format!("faultvariant/fake-insecure-delegation:{v}"), 30);
    }
    let _ = (RESPONSE_KINDS, CHAIN_KINDS);
    // validating-recursor point (R)
    rep.must("rec/hierarchies", 80);
    rep.must("rec/honest_secure", 600);
    rep.must("rec/honest_secure/nsec", 300);
    rep.must("rec/honest_secure/nsec3", 280);
    rep.must("rec/honest_secure_denial_records", 200);
    rep.must("rec/honest_insecure", 190);
    rep.must("rec/honest_expected_marks/ds-good", 200);
    for class in ["root", "no-ds", "island", "ds-unsupported-alg", "ds-unsupported-digest", "ds-mixed", "ds-standby"] {
        rep.must(&format!("rec/honest_expected_marks/{class}"), 15);
    }
    rep.must("rec/cache_second_resolve", 1000);
    rep.must("rec/cache_second_resolve_without_network", 1000);
    rep.must("rec/cache_second_resolve_other_do", 500);
    rep.must("rec/history_honest_after_rejected_tampering", 3000);
    rep.must("rec/tampered_runs_where_the_fault_hit", 14_000);
    for (k, n) in [("alter-bit", 1800), ("drop", 1800), ("replace-genuine", 1800), ("inject-forged", 1900), ("strip-rrsigs", 1300), ("strip-denial", 280), ("flip-rcode", 1600), ("empty-section", 1600), ("replay-other", 1300), ("attacker-keyset", 400), ("attacker-ds", 270), ("attacker-chain", 200), ("fake-insecure-delegation", 600), ("ancestor-denial", 200), ("fake-cut", 80), ("insecure-soa-denial", 170), ("cross-zone-signature", 190)] {
        rep.must(&format!("rec/tampered_runs/{k}"), n);
    }
    for k in ["alter-bit", "drop", "replace-genuine", "inject-forged", "strip-rrsigs", "flip-rcode", "empty-section", "replay-other", "fake-insecure-delegation"] {
        rep.must(&format!("rec/fault/{k}/referral"), 250);
    }
    for l in ["answer", "denial", "dnskey", "ds"] {
        rep.must(&format!("rec/fault/alter-bit/{l}"), 200);
        rep.must(&format!("rec/fault/strip-rrsigs/{l}"), 100);
    }
    rep.must("rec/hierarchies_with_nsec3_limits_configured", 20);
    rep.must("rec/nsec3_over_hard_limit_honest_resolves_rejected", 9);
    // server over the validating recursor (rsrv.rs)
    rep.must("rsrv/hierarchies", 80);
    rep.must("rsrv/runs", 14_000);
    rep.must("rsrv/honest_positive_ad1", 330);
    rep.must("rsrv/honest_negative_ad1", 380);
    for (k, n) in [("nxdomain", 150), ("nodata", 210), ("nsec", 200), ("nsec3", 160)] {
        rep.must(&format!("rsrv/honest_negative_ad1/{k}"), n);
    }
    rep.must("rsrv/honest_no_ad_for_unaware_client", 400);
    rep.must("rsrv/rd0_refused", 100);
    rep.must("rsrv/flags/do0ad1cd0rd1", 2200);
    rep.must("rsrv/tampered_runs_where_the_fault_hit", 13_000);
    rep.must("rsrv/tampered_runs_where_the_fault_hit_the_denial", 1700);
    rep.must("rsrv/tampered_servfail_to_cd0", 6000);
    rep.must("rsrv/tampered_denial_servfail_to_cd0", 500);
    rep.must("rsrv/cd0_cd1_pairs", 3700);
    rep.must("rsrv/cd1_gets_what_cd0_is_refused", 1000);
    rep.must("rsrv/tampered_cd1_served/positive", 1400);
    for (k, n) in [("alter-bit", 1600), ("drop", 1600), ("replace-genuine", 1800), ("inject-forged", 1100), ("strip-rrsigs", 770), ("strip-denial", 270), ("flip-rcode", 890), ("empty-section", 900), ("replay-other", 670), ("forged-unsigned-soa", 180), ("fake-insecure-delegation", 1800), ("attacker-keyset", 130), ("attacker-ds", 90), ("attacker-chain", 100), ("ancestor-denial", 230), ("insecure-soa-denial", 100), ("cross-zone-signature", 55), ("fake-cut", 29)] {
        rep.must(&format!("rsrv/tampered_runs/{k}"), n);
    }
    for (k, n) in [("alter-bit", 1000), ("drop", 1000), ("replace-genuine", 1200), ("strip-rrsigs", 90), ("strip-denial", 250), ("empty-section", 180), ("flip-rcode", 190), ("replay-other", 50)] {
        rep.must(&format!("rsrv/fault/{k}/denial"), n);
    }
    // DnssecClient point (D)
    rep.must("cli/hierarchies", 80);
    rep.must("cli/queries", 6000);
    rep.must("cli/secure", 680);
    rep.must("cli/insecure", 240);
    rep.must("cli/history_runs", 680);
    for (k, n) in [("alter-bit", 500), ("drop", 500), ("replace-genuine", 430), ("inject-forged", 490), ("strip-rrsigs", 420), ("strip-denial", 65), ("flip-rcode", 470), ("empty-section", 470), ("replay-other", 360), ("attacker-keyset", 180), ("attacker-ds", 125), ("attacker-chain", 110), ("fake-insecure-delegation", 140), ("ancestor-denial", 110), ("fake-cut", 40), ("insecure-soa-denial", 85), ("cross-zone-signature", 80)] {
        rep.must(&format!("cli/tampered_runs/{k}"), n);
    }
    // anchored-island mode (I)
    rep.must("isl/worlds", 80);
    for (k, n) in [("nsec", 35), ("nsec3", 15), ("nsec3-optout", 15)] {
        rep.must(&format!("isl/worlds/{k}"), n);
        rep.must(&format!("isl/honest_secure/{k}"), 2 * n);
        rep.must(&format!("isl/child_side_ds_denial_validated/{k}"), if k == "nsec" { 30 } else { 12 });
        rep.must(&format!("isl/honest_insecure_proven_by_{k}_parent"), 15);
    }
    rep.must("isl/worlds/keyset-is-the-anchor-only", 60);
    rep.must("isl/worlds/keyset-has-more-than-the-anchor", 15);
    rep.must("isl/runs", 18_000);
    rep.must("isl/honest_secure", 300);
    rep.must("isl/honest_secure_records_below_the_anchor_zone", 90);
    rep.must("isl/honest_insecure", 50);
    rep.must("isl/child_side_ds_denial_validated", 60);
    rep.must("isl/tampered_rejected", 11_000);
    rep.must("isl/tampered_runs_with_child_side_ds_lookup", 5000);
    rep.must("isl/tampered_rejected_after_child_side_ds_lookup", 5000);
    rep.must("isl/history_honest_after_tampered", 1000);
    for (k, n) in [("alter-bit", 2200), ("drop", 2000), ("replace-genuine", 1000), ("inject-forged", 2000), ("strip-rrsigs", 950), ("strip-denial", 250), ("flip-rcode", 1900), ("empty-section", 2000), ("replay-other", 800), ("attacker-keyset", 1000), ("attacker-ds", 150), ("attacker-chain", 140), ("fake-insecure-delegation", 140), ("ancestor-denial", 150), ("fake-cut", 260), ("insecure-soa-denial", 220), ("cross-zone-signature", 200)] {
        rep.must(&format!("isl/tampered_runs/{k}"), n);
    }
    for k in ["alter-bit", "drop", "inject-forged", "strip-rrsigs"] {
        for (l, n) in [("answer", 240), ("denial", 240), ("dnskey", 400), ("ds", 55)] {
            rep.must(&format!("isl/fault/{k}/{l}"), n);
        }
    }

    let attacker_tags = lab.attacker.tag_table();
    let collision = hier::find_collision(6000);
    match &collision {
        Some(c) => rep.note("key_tag_collision_tries", json!(c.tries)),
        None => rep.count("key_tag_collision_not_found"),
    }

    let mut rng = ctx.rng("main");
    let thorough = ctx.is_thorough();
    let n_hier = ctx.budget(256, 12_000);
    let n_queries = if thorough { 14 } else { 9 };
    let cap_single = if thorough { 400 } else { 36 };
    let n_double = if thorough { 24 } else { 6 };
    let n_hist = if thorough { 8 } else { 4 };
    let n_server = if thorough { 40 } else { 6 };
    let server_on = ctx.extra.get("server").map_or(true, |v| v != "0");
    // development aid: --only=old | rec | cli | isl | rsrv runs one part of the workload (the must-counters of the others then fail)
    let only = ctx.extra.get("only").cloned();
    let old_on = only.as_deref().map_or(true, |v| v == "old");
    let rec_on = only.as_deref().map_or(true, |v| v == "rec");
    let cli_on = only.as_deref().map_or(true, |v| v == "cli");
    let isl_on = only.as_deref().map_or(true, |v| v == "isl");
    let rsrv_on = only.as_deref().map_or(true, |v| v == "rsrv");
    let n_hier = if only.as_deref() == Some("isl") { 0 } else { n_hier };
    let isl_params = isl::IParams { n_queries: if thorough { 10 } else { 6 }, cap_single: if thorough { 120 } else { 30 }, n_hist: if thorough { 4 } else { 2 } };
    let cli_params = cli::CParams { n_queries: if thorough { 10 } else { 8 }, cap_single: if thorough { 40 } else { 24 }, n_hist: if thorough { 4 } else { 4 } };
    let rsrv_params = rsrv::SParams { n_queries: if thorough { 6 } else { 5 }, cap_denial: if thorough { 24 } else { 10 }, cap_other: if thorough { 24 } else { 8 }, cd1_one_in: if thorough { 1 } else { 2 }, do0_one_in: if thorough { 2 } else { 4 } };
    let rec_params = rec::RParams { n_queries: if thorough { 10 } else { 8 }, cap_single: if thorough { 60 } else { 32 }, n_hist: if thorough { 6 } else { 6 } };

    for hi in 0..n_hier {
        let global_idx = ctx.shard + ctx.nshards * hi;
        let h = hier::gen_hier(&mut rng, global_idx, collision.as_ref(), &attacker_tags);
        let b = Bench::new(&h);
        let t = b.truth();
        let hj = h.to_json();
        let hier_hash = fnv64(hj.to_string().as_bytes());
        let mut j = Judge { rep: &mut rep, lab: &lab, hier_json: hj.clone(), hier_hash };
        j.rep.count("hierarchies");
        for (zi, z) in t.zones.iter().enumerate() {
            j.rep.count(&format!("zones/{}/{}", t.class_of(zi), z.status.as_str()));
            // the generator's intention and the independently computed ground truth must agree
            let base = z.spec.mode.split('+').next().unwrap_or("");
            let intended_here = match base {
                "root" | "ds-good" | "ds-mixed" | "ds-standby" => Some(Status::Secure),
                "no-ds" | "island" | "ds-unsupported-alg" | "ds-unsupported-digest" => Some(Status::Insecure),
                "ds-stale" => Some(Status::Bogus),
                _ => None,
            };
            let parent_status = z.parent.map(|p| t.zones[p].status).unwrap_or(Status::Secure);
            let intended = if parent_status == Status::Secure { intended_here } else { Some(parent_status) };
            if intended != Some(z.status) {
                j.rep.inconclusive(&format!("harness self-check: ground truth of zone class {} is {} but the generator intended {:?}", z.spec.mode, z.status.as_str(), intended));
            }
        }
        if h.zones.iter().any(|z| z.mode.contains("collision")) {
            j.rep.count("hierarchies_with_key_tag_collision");
        }
        if hi < 1 {
            let zs: Vec<String> = t.zones.iter().enumerate().map(|(i, z)| format!("{} [{} => {}]", show(&z.apex), t.class_of(i), z.status.as_str())).collect();
            j.rep.sample(|| json!({"workload": "hierarchy", "zones": zs}));
        }

        // ---- honest pass + recording ------------------------------------------------------------
        let queries = pick_queries(&mut rng, t, n_queries);
        if rec_on {
            rec::workload(&mut *j.rep, &lab.attacker, &b, &hj, hier_hash, &queries, &attacker_tags, &rec_params);
        }
        if cli_on {
            cli::workload(&mut *j.rep, &lab.attacker, &h, hier_hash, &queries, &attacker_tags, &cli_params);
        }
        if rsrv_on {
            rsrv::workload(&mut *j.rep, &lab.attacker, &b, &hj, hier_hash, &queries, &attacker_tags, &rsrv_params);
        }
        if !old_on {
            continue;
        }
        let mut recorded: Vec<(QueryCase, Vec<Exchange>)> = Vec::new();
        let mut pool: Vec<Rec> = Vec::new();
        let mut tops: Vec<Exchange> = Vec::new();
        for q in &queries {
            let steps = vec![Step { qname: q.qname.clone(), qtype: q.qtype, faults: vec![] }];
            let results = run_steps(&lab, &b, &steps);
            j.judge(&b, &steps, &results, "honest");
            let res = &results[0];
            j.rep.count(&format!("honest_query/{}", q.label));
            // what the honest run showed
            let zi = t.responsible(&q.qname, q.qtype);
            let class = t.zones[zi].spec.mode.split('+').next().unwrap_or("").to_string();
            let mut all_as_expected = matches!(res.obs.kind, OutKind::Ok) && !res.obs.recs.is_empty();
            for (r, p) in res.obs.recs.iter().filter(|(r, _)| r.rtype != ty::RRSIG) {
                let zs = t.zones_of_record(&r.owner, r.rtype);
                let expect: Vec<Status> = zs.iter().map(|z| t.zones[*z].status).collect();
                let ok = match p {
                    Proof::Secure => expect.contains(&Status::Secure),
                    Proof::Insecure => expect.contains(&Status::Insecure),
                    _ => false,
                };
                all_as_expected &= ok;
                if *p == Proof::Secure && ok {
                    let z = &t.zones[zs[0]];
                    j.rep.count(&format!("honest_secure_verdicts/{}", if z.spec.nsec3.is_some() { "nsec3" } else { "nsec" }));
                    if let Some(pz) = z.parent {
                        j.rep.count(if t.zones[pz].spec.nsec3.is_some() { "honest_secure_below_nsec3_parent" } else { "honest_secure_below_nsec_parent" });
                    }
                }
                if *p == Proof::Insecure && ok {
                    j.rep.count("honest_insecure_verdicts");
                    // the secure ancestor whose denial proves the insecurity
                    let mut zc = zs[0];
                    while let Some(pz) = t.zones[zc].parent {
                        if t.zones[pz].status == Status::Secure {
                            j.rep.count(if t.zones[pz].spec.nsec3.is_some() { "honest_insecure_proven_by_nsec3_parent" } else { "honest_insecure_proven_by_nsec_parent" });
                            break;
                        }
                        zc = pz;
                    }
                }
            }
            if all_as_expected {
                j.rep.count(&format!("honest_expected_marks/{class}"));
                if class.is_empty() || h.zones[zi].mode.contains("collision") {
                    j.rep.count("honest_expected_marks/key-tag-collision-zone");
                }
            }
            let ex = distinct_exchanges(&res.log);
            for e in &ex {
                for r in &e.honest.recs {
                    if !pool.contains(r) {
                        pool.push(r.clone());
                    }
                }
            }
            tops.push(ex[0].clone());
            // sub-exchange responses can be replayed for one another as well
            for e in ex.iter().skip(1) {
                if !tops.iter().any(|x| x.qname == e.qname && x.qtype == e.qtype) {
                    tops.push(e.clone());
                }
            }
            recorded.push((q.clone(), ex));
        }

        // ---- single faults, double faults, histories -------------------------------------------
        for (qi, (q, ex)) in recorded.iter().enumerate() {
            // Every stage below draws from its own generator derived from (hierarchy, query, stage): what
            // hickory does (the set of sub-queries of a tampered run depends on its HashMap iteration
            // order) must not shift the random stream of the cases that follow.
            let stage = |label: &str, k: u64| Rng::new(hier_hash ^ fnv64(format!("{qi}/{label}/{k}").as_bytes()));
            let mut rng = stage("single", 0);
            let mut all = local_faults(&mut rng, ex, true, &pool, &tops, thorough);
            all.extend(chain_faults(&mut rng, &b, q, ex, &attacker_tags));
            j.rep.add("single_faults_enumerated", all.len() as u64);
            let exhaustive = all.len() <= cap_single;
            if exhaustive {
                j.rep.count("queries_with_all_single_faults");
            } else {
                j.rep.count("queries_with_sampled_single_faults");
            }
            let chosen = sample_faults(&mut rng, all.clone(), cap_single);
            for f in &chosen {
                let steps = vec![Step { qname: q.qname.clone(), qtype: q.qtype, faults: vec![f.clone()] }];
                let results = run_steps(&lab, &b, &steps);
                j.judge(&b, &steps, &results, "single-fault");
            }
            // adaptive double faults: the second fault may sit on an exchange only the first one provokes
            for k in 0..n_double {
                let mut rng = stage("double", k as u64);
                let f1 = rng.pick(&all).clone();
                let steps1 = vec![Step { qname: q.qname.clone(), qtype: q.qtype, faults: vec![f1.clone()] }];
                let r1 = run_steps(&lab, &b, &steps1);
                let ex1 = distinct_exchanges(&r1[0].log);
                let mut second = local_faults(&mut rng, &ex1, true, &pool, &tops, false);
                // prefer exchanges the honest run never made
                let new_keys: Vec<Fault> = second.iter().filter(|f| f.prims.iter().any(|p| p.key.as_ref().is_some_and(|k| !ex.iter().any(|e| e.qname == k.0 && e.qtype == k.1)))).cloned().collect();
                if !new_keys.is_empty() && rng.bool() {
                    second = new_keys;
                }
                if second.is_empty() {
                    continue;
                }
                let f2 = rng.pick(&second).clone();
                let steps = vec![Step { qname: q.qname.clone(), qtype: q.qtype, faults: vec![f1, f2] }];
                let results = run_steps(&lab, &b, &steps);
                j.judge(&b, &steps, &results, "double-fault");
            }
            // histories on one shared validator
            for hn in 0..n_hist {
                let mut rng = stage("history", hn as u64);
                let f = rng.pick(&all).clone();
                let other = &recorded[rng.usize_below(recorded.len())].0;
                let honest = |q: &QueryCase| Step { qname: q.qname.clone(), qtype: q.qtype, faults: vec![] };
                let tampered = |q: &QueryCase, f: &Fault| Step { qname: q.qname.clone(), qtype: q.qtype, faults: vec![f.clone()] };
                let steps = match hn % 4 {
                    0 => vec![honest(q), tampered(q, &f)],
                    1 => vec![tampered(q, &f), honest(q)],
                    2 => vec![honest(other), tampered(q, &f), honest(q)],
                    _ => vec![tampered(q, &f), honest(other), tampered(q, rng.pick(&all)), honest(q)],
                };
                let results = run_steps(&lab, &b, &steps);
                j.judge(&b, &steps, &results, "history");
            }
            // second observation point: the server's wire response
            let mut rng = stage("server", 0);
            if server_on {
                let honest_step = Step { qname: q.qname.clone(), qtype: q.qtype, faults: vec![] };
                let all_flags = server::Flags::all();
                for f in all_flags.iter() {
                    let take = thorough || if f.rd { rng.chance(1, 2) } else { rng.chance(1, 8) };
                    if take {
                        j.server_case(&b, &honest_step, *f);
                    }
                }
                for _ in 0..n_server {
                    let f = rng.pick(&chosen).clone();
                    let st = Step { qname: q.qname.clone(), qtype: q.qtype, faults: vec![f] };
                    for _ in 0..2 {
                        let mut fl = *rng.pick(&all_flags);
                        fl.rd = true;
                        j.server_case(&b, &st, fl);
                    }
                }
            }
        }
        if hi < 2 {
            if let Some((q, ex)) = recorded.first() {
                let keys: Vec<String> = ex.iter().map(|e| format!("{} {}", show(&e.qname), refzone::type_name(e.qtype))).collect();
                let (qn, ql) = (show(&q.qname), q.label);
                j.rep.sample(|| json!({"workload": "recorded-exchanges", "query": qn, "kind": ql, "upstream_exchanges": keys}));
            }
        }
    }

    // ---- anchored-island mode (I): trust anchor = key of a non-root zone, child-side DS denial -------
    if isl_on {
        // a stream of its own, after everything else: the other parts see exactly what they saw before
        let mut irng = ctx.rng("isl");
        let n_isl = ctx.budget(256, 8000);
        for ii in 0..n_isl {
            let global_idx = ctx.shard + ctx.nshards * ii;
            let h = isl::gen_island(&mut irng, global_idx, &attacker_tags);
            isl::workload(&mut rep, &lab, &h, &attacker_tags, &isl_params, ii < 1);
        }
    }

    std::process::exit(rep.finish().min(0));
}
