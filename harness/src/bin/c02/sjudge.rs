//! Clauses of the struct-level workload (S). For a spec (field values) the message value `m` is
//! assembled through hickory's public constructors and the harness writes its own packet `h` from
//! the same field values (sbuild.rs). Then:
//!   (i)   `m.to_vec()` is Ok whenever `h` fits in 65 535 octets                    S-encode-failed
//!   (ii)  the encoding `e` is well-formed for the harness' walker                  D-* (clause D)
//!   (iii) `Message::from_vec(e)` is Ok …                                           S-redecode-failed
//!         … and equals `m` on the explicit projection                              S-roundtrip
//!   (iv)  independent bytes: header word, id, questions, and per record owner / type / class / TTL
//!         and the RDATA octets inside `e` equal what the harness wrote (byte for byte for every
//!         type whose names are not compressible, after decompression for NS/CNAME/PTR/MX/SOA,
//!         option by option for OPT)                                                S-header-bytes, S-rdata-bytes
//!   (v)   `Message::from_vec(h)` is Ok and equals `m`                               S-harness-wire-decode
//! A failing case is reduced to a single record (or the question / OPT / TSIG part) when that part
//! alone shows the same failure, so that the witness is minimal and the signature names the type.
//!
//! Don't-cares of this part (besides those of main.rs):
//!  * the order of the algorithm numbers inside a DAU option (a set in hickory's API);
//!  * optional white space inside the value of a CAA issue / issuewild property (RFC 8659 §4.2);
//!  * an EDNS payload size below 512 is held as 512 by hickory's setter (RFC 6891 §6.2.3);
//!  * `RecordTypeSet::original_encoding` (private cache, `None` on constructed values);
//!  * messages whose harness encoding exceeds 65 535 octets are not generated (hickory truncates
//!    them and sets TC: C03's business).

use hickory_proto::op::Message;
use serde_json::{json, Value};

use vh::mon::{self, hex};
use vh::refwire::{self, WRecord};

use crate::sbuild::{self, Built, BuiltRecord, RdCmp};
use crate::wire;
use crate::{check_d, diff_messages, err_kind};

pub struct SFail {
    pub rule: &'static str,
    /// error kind, field path or clause-D discriminator
    pub kind: String,
    /// record type the failure is about, when the clause itself knows it
    pub what: Option<String>,
    pub expected: Value,
    pub observed: Value,
}

pub struct SObs {
    pub encoding: Vec<u8>,
    pub pointers: usize,
    pub records: usize,
    pub rdata_compared: usize,
    pub schema_mismatch: bool,
}

fn f(rule: &'static str, kind: impl Into<String>, what: Option<&str>, expected: Value, observed: Value) -> SFail {
    SFail { rule, kind: kind.into(), what: what.map(String::from), expected, observed }
}

/// `answers[].rdata.SVCB` -> (`records[].rdata.SVCB`, Some("SVCB"))
fn norm_path(path: &str) -> (String, Option<String>) {
    let mut p = path.to_string();
    for s in ["answers", "authorities", "additionals"] {
        if let Some(rest) = p.strip_prefix(s) {
            p = format!("records{rest}");
            break;
        }
    }
    let what = p.split("rdata.").nth(1).map(|t| t.split('.').next().unwrap_or(t).to_string());
    (p, what)
}

fn cmp_record(e: &[u8], r: &WRecord, b: &BuiltRecord) -> Result<(), SFail> {
    let t = b.tname.as_str();
    let bad = |field: &str, exp: Value, obs: Value| Err(f("S-rdata-bytes", format!("{t}|{field}"), Some(t), exp, json!({"value": obs, "record_at": r.start, "encoded": hex(e)})));
    if r.rtype != b.code {
        return bad("type", json!(b.code), json!(r.rtype));
    }
    if r.owner.labels != b.owner {
        return bad("owner", json!(refwire::show(&b.owner)), json!(refwire::show(&r.owner.labels)));
    }
    if r.class != b.class {
        return bad("class", json!(b.class), json!(r.class));
    }
    if r.ttl != b.ttl {
        return bad("ttl", json!(b.ttl), json!(r.ttl));
    }
    let raw = r.rdata(e);
    let (obs, exp): (Vec<u8>, Vec<u8>) = match b.cmp {
        RdCmp::Exact => (raw.to_vec(), b.expected.clone()),
        RdCmp::Decompressed => match wire::canonical_rdata(e, r) {
            Ok(c) => (c, b.expected.clone()),
            Err(err) => return Err(f("S-rdata-bytes", format!("{t}|schema"), Some(t), json!({"rdata": hex(&b.expected)}), json!({"error": err, "rdata": hex(raw), "encoded": hex(e)}))),
        },
        RdCmp::CaaIssue => (sbuild::caa_strip(raw), sbuild::caa_strip(&b.expected)),
    };
    if obs != exp {
        return Err(f(
            "S-rdata-bytes",
            t,
            Some(t),
            json!({"rdata": hex(&exp), "comparison": format!("{:?}", b.cmp)}),
            json!({"rdata": hex(&obs), "raw_rdata": hex(raw), "record_at": r.start, "encoded": hex(e)}),
        ));
    }
    Ok(())
}

/// All clauses on one built case; the first failure is returned, nothing is reported here.
pub fn judge(b: &Built) -> Result<Option<SObs>, SFail> {
    let m = &b.msg;
    if b.wire.len() > 65_535 {
        // does not fit uncompressed: hickory may truncate it (TC) or fail; not this clause's business
        return Ok(None);
    }
    // (i)
    let e = match mon::catch(|| m.to_vec()) {
        Err(p) => return Err(f("S-panic", format!("encode|{}", p.site()), None, json!("Ok or Err"), json!({"panic": p.message, "at": p.location}))),
        Ok(Err(err)) => {
            return Err(f(
                "S-encode-failed",
                err_kind(&err),
                None,
                json!({"encode": "Ok", "because": "the harness' own uncompressed encoding of the same field values fits", "harness_encoding_len": b.wire.len()}),
                json!({"error": format!("{err:?}"), "text": err.to_string()}),
            ));
        }
        Ok(Ok(e)) => e,
    };
    // (ii)
    let (w, pr, schema_mismatch) = match check_d(m, &e) {
        Ok(x) => x,
        Err(d) => return Err(f(d.rule, d.sig, None, d.expected, d.observed)),
    };
    // (iii)
    let back = match mon::catch(|| Message::from_vec(&e)) {
        Err(p) => return Err(f("S-panic", format!("decode|{}", p.site()), None, json!("Ok"), json!({"panic": p.message, "at": p.location, "encoded": hex(&e)}))),
        Ok(Err(err)) => return Err(f("S-redecode-failed", err_kind(&err), None, json!("decode(encode(m)) is Ok"), json!({"error": format!("{err:?}"), "text": err.to_string(), "encoded": hex(&e)}))),
        Ok(Ok(x)) => x,
    };
    if let Some(d) = diff_messages(m, &back, false) {
        let (p, what) = norm_path(&d.path);
        return Err(f("S-roundtrip", p, what.as_deref(), json!({"path": d.path, "detail": d.detail, "value": d.expected}), json!({"value": d.observed, "encoded": hex(&e)})));
    }
    if let Some(ed) = &back.edns {
        if ed.rcode_high() != m.metadata.response_code.high() {
            return Err(f("S-roundtrip", "edns.rcode_high", Some("OPT"), json!(m.metadata.response_code.high()), json!({"value": ed.rcode_high(), "encoded": hex(&e)})));
        }
    }
    // (iv) independent bytes
    let hb = |field: &str, exp: Value, obs: Value| Err(f("S-header-bytes", field, None, exp, json!({"value": obs, "encoded": hex(&e)})));
    if w.header.id != b.id {
        return hb("id", json!(b.id), json!(w.header.id));
    }
    if w.header.flags != b.flags {
        return hb("flags", json!(format!("{:#06x}", b.flags)), json!(format!("{:#06x}", w.header.flags)));
    }
    for (q, (l, t, c)) in w.questions.iter().zip(b.questions.iter()) {
        if &q.name.labels != l {
            return hb("question.name", json!(refwire::show(l)), json!(refwire::show(&q.name.labels)));
        }
        if q.qtype != *t || q.qclass != *c {
            return hb("question.type-class", json!([t, c]), json!([q.qtype, q.qclass]));
        }
    }
    let mut compared = 0usize;
    for si in 0..3 {
        // check_d has verified the counts against `m`, and `m` holds exactly the spec's records
        for (r, br) in w.sections[si].iter().zip(b.sections[si].iter()) {
            cmp_record(&e, r, br)?;
            compared += 1;
        }
    }
    let mut k = b.sections[2].len();
    if let Some((class, ttl, opts)) = &b.opt {
        let r = &w.sections[2][k];
        let bad = |field: &str, exp: Value, obs: Value| Err(f("S-rdata-bytes", format!("OPT|{field}"), Some("OPT"), exp, json!({"value": obs, "record_at": r.start, "encoded": hex(&e)})));
        if !r.owner.labels.is_empty() {
            return bad("owner", json!("."), json!(refwire::show(&r.owner.labels)));
        }
        if r.class != *class {
            return bad("class", json!(class), json!(r.class));
        }
        if r.ttl != *ttl {
            return bad("ttl", json!(format!("{ttl:#010x}")), json!(format!("{:#010x}", r.ttl)));
        }
        let show = |o: &[(u16, Vec<u8>)]| o.iter().map(|(c, d)| json!([c, hex(d)])).collect::<Vec<_>>();
        match sbuild::parse_opt_rdata(r.rdata(&e)) {
            Some(got) if &got == opts => {}
            Some(got) => return bad("options", json!(show(opts)), json!(show(&got))),
            None => return bad("options", json!(show(opts)), json!({"unparsable_rdata": hex(r.rdata(&e))})),
        }
        compared += 1;
        k += 1;
    }
    if let Some(bt) = &b.tsig {
        cmp_record(&e, &w.sections[2][k], bt)?;
        compared += 1;
    }
    // (v) the decoder-side oracle: the harness' packet must decode to the same value
    let hm = match mon::catch(|| Message::from_vec(&b.wire)) {
        Err(p) => return Err(f("S-panic", format!("decode-harness-wire|{}", p.site()), None, json!("Ok"), json!({"panic": p.message, "at": p.location, "harness_wire": hex(&b.wire)}))),
        Ok(Err(err)) => {
            return Err(f(
                "S-harness-wire-decode",
                err_kind(&err),
                None,
                json!("the harness' packet built from the same field values decodes"),
                json!({"error": format!("{err:?}"), "text": err.to_string(), "harness_wire": hex(&b.wire)}),
            ))
        }
        Ok(Ok(x)) => x,
    };
    if let Some(d) = diff_messages(m, &hm, false) {
        let (p, what) = norm_path(&d.path);
        return Err(f(
            "S-harness-wire-decode",
            p,
            what.as_deref(),
            json!({"path": d.path, "detail": d.detail, "value": d.expected}),
            json!({"value": d.observed, "harness_wire": hex(&b.wire)}),
        ));
    }
    Ok(Some(SObs { records: w.all_records().count(), pointers: pr.pointers, encoding: e, rdata_compared: compared, schema_mismatch }))
}

/// What a (reduced) case consists of, for signatures: the type of its only record, or the part.
pub fn case_what(b: &Built) -> String {
    let n: usize = b.sections.iter().map(|s| s.len()).sum();
    match n {
        1 => b.sections.iter().flatten().next().unwrap().tname.clone(),
        0 => {
            if b.tsig.is_some() && b.opt.is_none() {
                "TSIG".into()
            } else if b.opt.is_some() && b.tsig.is_none() {
                "OPT".into()
            } else if b.opt.is_some() {
                "OPT+TSIG".into()
            } else if !b.questions.is_empty() {
                "question".into()
            } else {
                "header".into()
            }
        }
        _ => "multi".into(),
    }
}

/// Single-part sub-cases of a spec: every record alone (in its section, same header), the
/// questions alone, the OPT alone, the TSIG alone.
pub fn parts(spec: &Value) -> Vec<Value> {
    let mut out = Vec::new();
    let mut base = spec.clone();
    let has_edns = !spec["edns"].is_null();
    for k in ["q", "an", "ns", "ar"] {
        base[k] = json!([]);
    }
    base["edns"] = Value::Null;
    base["tsig"] = Value::Null;
    let low = spec["rcode"].as_u64().unwrap_or(0) & 0xf;
    let full_rcode = spec["rcode"].clone();
    base["rcode"] = json!(low);
    for k in sbuild::SECTION_KEYS {
        for r in spec[k].as_array().map(|a| a.as_slice()).unwrap_or(&[]) {
            let mut s = base.clone();
            s[k] = json!([r]);
            out.push(s);
        }
    }
    if spec["q"].as_array().is_some_and(|a| !a.is_empty()) {
        let mut s = base.clone();
        s["q"] = spec["q"].clone();
        out.push(s);
    }
    if has_edns {
        let mut s = base.clone();
        s["edns"] = spec["edns"].clone();
        s["rcode"] = full_rcode;
        out.push(s);
    }
    if !spec["tsig"].is_null() {
        let mut s = base.clone();
        s["tsig"] = spec["tsig"].clone();
        out.push(s);
    }
    out
}

/// Final signature of a failure on a (reduced) case.
pub fn signature(fail: &SFail, b: &Built) -> String {
    let what = fail.what.clone().unwrap_or_else(|| case_what(b));
    match fail.rule {
        "S-encode-failed" => format!("{}|{}", fail.kind, b.all_tags().top()),
        "S-redecode-failed" | "S-harness-wire-decode" => format!("{}|{}", fail.kind, what),
        _ => fail.kind.clone(),
    }
}
