//! Independent reference model of a domain name: labels as plain byte vectors plus the
//! "fully qualified" flag. Shares no code with hickory's `Name`/`Label`.
//!
//! * identity: RFC 1034 §3.1 / RFC 4343 — octets compared after folding the 26 US-ASCII
//!   letters A–Z to a–z and *nothing else* (0x40 '@' / 0x60 '`', 0x5B '[' / 0x7B '{' and
//!   0xC1 / 0xE1 stay distinct);
//! * order: RFC 4034 §6.1 — labels compared right to left, each label as an unsigned
//!   left-justified octet string after the same fold, absence of an octet sorts before a zero
//!   octet, and when all compared labels are equal the name with fewer labels sorts first;
//! * limits: RFC 1035 §2.3.4 — label 1..=63 octets, name ≤ 255 octets on the wire
//!   (length octets and the terminating root octet included).

use std::cmp::Ordering;

use serde_json::{json, Value};
use vh::mon::{hex, unhex};

#[derive(Clone, Debug, PartialEq, Eq, Hash)]
pub struct RName {
    pub labels: Vec<Vec<u8>>,
    pub fqdn: bool,
}

/// RFC 4343 §3: only A–Z are folded.
pub fn fold_octet(c: u8) -> u8 {
    if (0x41..=0x5A).contains(&c) {
        c + 0x20
    } else {
        c
    }
}

pub fn fold_label(l: &[u8]) -> Vec<u8> {
    l.iter().map(|&c| fold_octet(c)).collect()
}

pub fn fold_labels(ls: &[Vec<u8>]) -> Vec<Vec<u8>> {
    ls.iter().map(|l| fold_label(l)).collect()
}

pub fn wire_len_of(labels: &[Vec<u8>]) -> usize {
    1 + labels.iter().map(|l| l.len() + 1).sum::<usize>()
}

pub fn labels_valid(labels: &[Vec<u8>]) -> bool {
    labels.iter().all(|l| !l.is_empty() && l.len() <= 63) && wire_len_of(labels) <= 255
}

/// compare two labels as left-justified unsigned octet strings after folding; a label that is a
/// proper prefix of the other sorts first (absence of an octet sorts before a zero octet).
pub fn label_cmp(x: &[u8], y: &[u8]) -> Ordering {
    let mut i = 0;
    loop {
        match (x.get(i), y.get(i)) {
            (None, None) => return Ordering::Equal,
            (None, Some(_)) => return Ordering::Less,
            (Some(_), None) => return Ordering::Greater,
            (Some(&a), Some(&b)) => {
                let (a, b) = (fold_octet(a), fold_octet(b));
                if a < b {
                    return Ordering::Less;
                }
                if a > b {
                    return Ordering::Greater;
                }
            }
        }
        i += 1;
    }
}

impl RName {
    pub fn new(labels: Vec<Vec<u8>>, fqdn: bool) -> Self {
        Self { labels, fqdn }
    }

    pub fn wire_len(&self) -> usize {
        wire_len_of(&self.labels)
    }

    pub fn valid(&self) -> bool {
        labels_valid(&self.labels)
    }

    pub fn folded(&self) -> Vec<Vec<u8>> {
        fold_labels(&self.labels)
    }

    /// identity per the property statement: folded labels equal and same fqdn flag
    pub fn same(&self, o: &RName) -> bool {
        self.fqdn == o.fqdn && self.same_labels(o)
    }

    pub fn same_labels(&self, o: &RName) -> bool {
        self.labels.len() == o.labels.len() && self.labels.iter().zip(&o.labels).all(|(a, b)| label_cmp(a, b) == Ordering::Equal)
    }

    /// RFC 4034 §6.1 canonical order of the label sequences (fqdn flag not considered)
    pub fn canon_cmp(&self, o: &RName) -> Ordering {
        let (na, nb) = (self.labels.len(), o.labels.len());
        let mut k = 1;
        while k <= na && k <= nb {
            let c = label_cmp(&self.labels[na - k], &o.labels[nb - k]);
            if c != Ordering::Equal {
                return c;
            }
            k += 1;
        }
        na.cmp(&nb)
    }

    /// A second, structurally different formulation of the same order, used only to self-test
    /// the reference: the name becomes one sequence of u16 — for each label from the right, each
    /// folded octet + 1, then a 0 terminator — and sequences are compared lexicographically.
    pub fn canon_key(&self) -> Vec<u16> {
        let mut k = Vec::new();
        for l in self.labels.iter().rev() {
            for &c in l {
                k.push(fold_octet(c) as u16 + 1);
            }
            k.push(0);
        }
        k
    }

    /// canonical byte encoding of the case (for distinct-case hashing)
    pub fn case_bytes(&self) -> Vec<u8> {
        let mut v = Vec::with_capacity(self.wire_len() + 1);
        for l in &self.labels {
            v.push(l.len() as u8);
            v.extend_from_slice(l);
        }
        v.push(0);
        v.push(self.fqdn as u8);
        v
    }

    pub fn to_json(&self) -> Value {
        json!({
            "labels": self.labels.iter().map(|l| hex(l)).collect::<Vec<_>>(),
            "fqdn": self.fqdn,
            "text": self.show(),
        })
    }

    pub fn from_json(v: &Value) -> Option<RName> {
        let labels = v.get("labels")?.as_array()?.iter().map(|l| unhex(l.as_str().unwrap_or(""))).collect();
        Some(RName { labels, fqdn: v.get("fqdn")?.as_bool()? })
    }

    /// human-readable (RFC 1035 §5.1 decimal escapes) – only for witnesses, never parsed back
    pub fn show(&self) -> String {
        let mut s = vh::refwire::show(&self.labels);
        if self.labels.is_empty() {
            return if self.fqdn { ".".into() } else { "".into() };
        }
        if !self.fqdn {
            s.pop();
        }
        s
    }

    /// true if every label is host-style per the property statement: letters, digits, hyphen
    /// (not in leading position of a label — see DONT-CARE in main.rs), underscore, dot octets
    /// (printed as `\.`); the whole leftmost label may be `*`.
    pub fn host_style(&self) -> bool {
        self.labels.iter().enumerate().all(|(i, l)| {
            if i == 0 && l.as_slice() == b"*" {
                return true;
            }
            l.iter().enumerate().all(|(j, &c)| c.is_ascii_alphanumeric() || c == b'_' || c == b'.' || (c == b'-' && j > 0))
        })
    }

    /// presentation format of a host-style name (RFC 1035 §5.1): labels joined by '.', a dot
    /// octet inside a label written `\.`, trailing '.' iff fully qualified, root = ".".
    pub fn host_text(&self) -> String {
        if self.labels.is_empty() {
            return if self.fqdn { ".".into() } else { String::new() };
        }
        let mut s = String::new();
        for (i, l) in self.labels.iter().enumerate() {
            if i > 0 {
                s.push('.');
            }
            for &c in l {
                if c == b'.' {
                    s.push('\\');
                }
                s.push(c as char);
            }
        }
        if self.fqdn {
            s.push('.');
        }
        s
    }
}

/// Independent reader of presentation format restricted to what a host-style name can need:
/// unescaped '.' separates labels, `\X` (X not a digit) is the literal octet X, a trailing
/// unescaped '.' means fully qualified. Returns None (= don't care) on `\DDD` escapes, non-ASCII
/// or empty interior labels.
pub fn read_host_text(s: &str) -> Option<RName> {
    if s == "." {
        return Some(RName::new(vec![], true));
    }
    if s.is_empty() {
        return Some(RName::new(vec![], false));
    }
    let b = s.as_bytes();
    let mut labels = Vec::new();
    let mut cur: Vec<u8> = Vec::new();
    let mut i = 0;
    let mut ended_with_dot = false;
    while i < b.len() {
        let c = b[i];
        if !c.is_ascii() {
            return None;
        }
        ended_with_dot = false;
        if c == b'\\' {
            let n = *b.get(i + 1)?;
            if n.is_ascii_digit() {
                return None;
            }
            cur.push(n);
            i += 2;
            continue;
        }
        if c == b'.' {
            if cur.is_empty() {
                return None;
            }
            labels.push(std::mem::take(&mut cur));
            ended_with_dot = true;
        } else {
            cur.push(c);
        }
        i += 1;
    }
    if !cur.is_empty() {
        labels.push(cur);
    }
    Some(RName::new(labels, ended_with_dot))
}

/// Structural class of the relation between two names (finding-signature discriminator).
pub fn relation(a: &RName, b: &RName) -> &'static str {
    if a == b {
        return "identical";
    }
    if a.labels == b.labels {
        return "fqdn-flag-only";
    }
    if a.same_labels(b) {
        return if a.fqdn == b.fqdn { "case-only" } else { "case+fqdn-flag" };
    }
    let (na, nb) = (a.labels.len(), b.labels.len());
    let mut k = 1;
    while k <= na && k <= nb {
        let (x, y) = (&a.labels[na - k], &b.labels[nb - k]);
        if label_cmp(x, y) != Ordering::Equal {
            let common = x.iter().zip(y.iter()).take_while(|(p, q)| fold_octet(**p) == fold_octet(**q)).count();
            if common == x.len() || common == y.len() {
                return "label-prefix";
            }
            let (p, q) = (x[common], y[common]);
            if p >= 0x80 || q >= 0x80 {
                return "octet-high-bit";
            }
            let near = |c: u8| matches!(c, 0x40 | 0x5B..=0x60 | 0x7B..=0x7F);
            if near(p) || near(q) {
                return "octet-fold-neighbour";
            }
            return "octet";
        }
        k += 1;
    }
    "ancestor"
}

/// RFC 4034 §6.1 example list, in the order printed in the RFC (`\200` is decimal 200 = 0xC8).
pub fn rfc4034_examples() -> Vec<RName> {
    let l = |s: &[&[u8]]| RName::new(s.iter().map(|x| x.to_vec()).collect(), true);
    vec![
        l(&[b"example"]),
        l(&[b"a", b"example"]),
        l(&[b"yljkjljk", b"a", b"example"]),
        l(&[b"Z", b"a", b"example"]),
        l(&[b"zABC", b"a", b"EXAMPLE"]),
        l(&[b"z", b"example"]),
        l(&[b"\x01", b"z", b"example"]),
        l(&[b"*", b"z", b"example"]),
        l(&[b"\xc8", b"z", b"example"]),
    ]
}

/// Self-test of the reference model (harness soundness, not a property verdict).
pub fn self_test(samples: &[RName]) -> Result<(), String> {
    let ex = rfc4034_examples();
    for i in 0..ex.len() {
        for j in 0..ex.len() {
            let want = i.cmp(&j);
            if ex[i].canon_cmp(&ex[j]) != want {
                return Err(format!("reference order disagrees with RFC 4034 §6.1 list at ({i},{j})"));
            }
        }
    }
    for a in samples {
        for b in samples {
            let c1 = a.canon_cmp(b);
            let c2 = a.canon_key().cmp(&b.canon_key());
            if c1 != c2 {
                return Err(format!("two formulations of canonical order disagree on {} / {}", a.show(), b.show()));
            }
            if (c1 == Ordering::Equal) != a.same_labels(b) {
                return Err(format!("reference order/equality inconsistent on {} / {}", a.show(), b.show()));
            }
        }
    }
    for t in ["a.b.", "a\\.b.c", "*.x_y.Z-9", ".", "", "a"] {
        let r = read_host_text(t).ok_or("reader")?;
        if r.host_text() != t {
            return Err(format!("reference text printer/reader disagree on {t:?}"));
        }
    }
    Ok(())
}
