//! `reftsig` — independent RFC 8945 implementation on raw bytes: locating the TSIG RR with the
//! `refwire` walker, §4.3 digest input (request form; response form with the request MAC prepended;
//! original-ID substitution; ARCOUNT decrement), HMAC through `ring::hmac` directly.
//! Shares no code with hickory's TSIG module.
#![allow(dead_code)]

use ring::hmac;
use vh::refwire::{self, Labels};

pub const T_TSIG: u16 = 250;

#[derive(Clone, Copy, Debug, PartialEq, Eq)]
pub enum Alg {
    Sha256,
    Sha384,
    Sha512,
}

impl Alg {
    pub fn name(self) -> &'static str {
        match self {
            Alg::Sha256 => "hmac-sha256",
            Alg::Sha384 => "hmac-sha384",
            Alg::Sha512 => "hmac-sha512",
        }
    }
    pub fn labels(self) -> Labels {
        vec![self.name().as_bytes().to_vec()]
    }
    pub fn from_labels(l: &Labels) -> Option<Alg> {
        if l.len() != 1 {
            return None;
        }
        match l[0].to_ascii_lowercase().as_slice() {
            b"hmac-sha256" => Some(Alg::Sha256),
            b"hmac-sha384" => Some(Alg::Sha384),
            b"hmac-sha512" => Some(Alg::Sha512),
            _ => None,
        }
    }
    pub fn out_len(self) -> usize {
        match self {
            Alg::Sha256 => 32,
            Alg::Sha384 => 48,
            Alg::Sha512 => 64,
        }
    }
    fn ring(self) -> hmac::Algorithm {
        match self {
            Alg::Sha256 => hmac::HMAC_SHA256,
            Alg::Sha384 => hmac::HMAC_SHA384,
            Alg::Sha512 => hmac::HMAC_SHA512,
        }
    }
}

pub fn hmac_sign(alg: Alg, key: &[u8], data: &[u8]) -> Vec<u8> {
    let k = hmac::Key::new(alg.ring(), key);
    hmac::sign(&k, data).as_ref().to_vec()
}

#[derive(Clone, Debug)]
pub struct Key {
    pub name: Labels,
    pub alg: Alg,
    pub secret: Vec<u8>,
}

/// The TSIG RR as found on the wire
#[derive(Clone, Debug, PartialEq, Eq)]
pub struct TsigRr {
    /// offset of the TSIG RR in the message
    pub start: usize,
    pub name: Labels,
    pub class: u16,
    pub ttl: u32,
    pub alg_name: Labels,
    pub time: u64,
    pub fudge: u16,
    pub mac: Vec<u8>,
    pub orig_id: u16,
    pub error: u16,
    pub other: Vec<u8>,
    /// owner name or algorithm name used compression pointers
    pub compressed: bool,
}

fn lower_wire(l: &Labels) -> Vec<u8> {
    let mut v = Vec::new();
    refwire::put_name(&mut v, &refwire::fold(l));
    v
}

/// Find the TSIG RR. `Err(reason)` when the message is not well formed (walker), when there is no
/// TSIG, more than one, one that is not the very last record of the additional section, when it
/// sits in another section, or when bytes follow it.
pub fn locate(msg: &[u8]) -> Result<TsigRr, String> {
    let w = refwire::walk(msg).map_err(|e| format!("malformed: {e}"))?;
    if w.end != msg.len() {
        return Err("trailing bytes".into());
    }
    for s in 0..2 {
        if w.sections[s].iter().any(|r| r.rtype == T_TSIG) {
            return Err("tsig outside additional".into());
        }
    }
    let add = &w.sections[2];
    let n = add.iter().filter(|r| r.rtype == T_TSIG).count();
    if n == 0 {
        return Err("no tsig".into());
    }
    if n > 1 {
        return Err("more than one tsig".into());
    }
    let last = add.last().unwrap();
    if last.rtype != T_TSIG {
        return Err("tsig not last".into());
    }
    let rd = last.rdata(msg);
    // algorithm name may not be compressed per RFC, but tolerate pointers: read in message context
    let (alg, p) = refwire::read_name(msg, last.rdata_off).map_err(|e| format!("alg name: {e}"))?;
    let mut p = p;
    let end = last.rdata_off + last.rdata_len;
    let need = |p: usize, n: usize| if p + n <= end { Ok(()) } else { Err("tsig rdata short".to_string()) };
    need(p, 10)?;
    let time = ((msg[p] as u64) << 40) | ((msg[p + 1] as u64) << 32) | ((msg[p + 2] as u64) << 24) | ((msg[p + 3] as u64) << 16) | ((msg[p + 4] as u64) << 8) | msg[p + 5] as u64;
    let fudge = u16::from_be_bytes([msg[p + 6], msg[p + 7]]);
    let maclen = u16::from_be_bytes([msg[p + 8], msg[p + 9]]) as usize;
    p += 10;
    need(p, maclen + 6)?;
    let mac = msg[p..p + maclen].to_vec();
    p += maclen;
    let orig_id = u16::from_be_bytes([msg[p], msg[p + 1]]);
    let error = u16::from_be_bytes([msg[p + 2], msg[p + 3]]);
    let olen = u16::from_be_bytes([msg[p + 4], msg[p + 5]]) as usize;
    p += 6;
    need(p, olen)?;
    let other = msg[p..p + olen].to_vec();
    p += olen;
    if p != end {
        return Err("tsig rdata has trailing bytes".into());
    }
    let _ = rd;
    Ok(TsigRr {
        start: last.start,
        name: last.owner.labels.clone(),
        class: last.class,
        ttl: last.ttl,
        alg_name: alg.labels.clone(),
        time,
        fudge,
        mac,
        orig_id,
        error,
        other,
        compressed: last.owner.pointers > 0 || alg.pointers > 0,
    })
}

/// §4.3.3 TSIG variables
fn variables(out: &mut Vec<u8>, name: &Labels, class: u16, ttl: u32, alg: &Labels, time: u64, fudge: u16, error: u16, other: &[u8]) {
    out.extend_from_slice(&lower_wire(name));
    out.extend_from_slice(&class.to_be_bytes());
    out.extend_from_slice(&ttl.to_be_bytes());
    out.extend_from_slice(&lower_wire(alg));
    out.extend_from_slice(&time.to_be_bytes()[2..8]);
    out.extend_from_slice(&fudge.to_be_bytes());
    out.extend_from_slice(&error.to_be_bytes());
    out.extend_from_slice(&(other.len() as u16).to_be_bytes());
    out.extend_from_slice(other);
}

/// Digest input for a message carrying `t` (request form when `prior_mac` is None, response form
/// otherwise): message without the TSIG RR, ARCOUNT - 1, ID := original id, then the variables.
pub fn digest_input(msg: &[u8], t: &TsigRr, prior_mac: Option<&[u8]>) -> Vec<u8> {
    let mut d = Vec::with_capacity(msg.len() + 128);
    if let Some(m) = prior_mac {
        d.extend_from_slice(&(m.len() as u16).to_be_bytes());
        d.extend_from_slice(m);
    }
    let mut body = msg[..t.start].to_vec();
    body[0..2].copy_from_slice(&t.orig_id.to_be_bytes());
    let ar = u16::from_be_bytes([body[10], body[11]]).wrapping_sub(1);
    body[10..12].copy_from_slice(&ar.to_be_bytes());
    d.extend_from_slice(&body);
    variables(&mut d, &t.name, t.class, t.ttl, &t.alg_name, t.time, t.fudge, t.error, &t.other);
    d
}

#[derive(Clone, Debug, PartialEq, Eq)]
pub enum Verdict {
    /// authentic and timely
    Valid,
    /// authentic; |now - time| == fudge exactly (RFC 8945 §5.2.3 not explicit; don't-care)
    Boundary,
    Invalid(String),
}

/// Server-side decision on a request (RFC 8945 §5.2): structure, key (name + algorithm),
/// full-length MAC over the exact bytes, time window.
pub fn judge_request(msg: &[u8], keys: &[Key], now: u64) -> Verdict {
    let t = match locate(msg) {
        Ok(t) => t,
        Err(e) => return Verdict::Invalid(e),
    };
    judge_located(msg, &t, keys, now, None)
}

pub fn judge_located(msg: &[u8], t: &TsigRr, keys: &[Key], now: u64, prior_mac: Option<&[u8]>) -> Verdict {
    let Some(alg) = Alg::from_labels(&t.alg_name) else {
        return Verdict::Invalid("unknown algorithm".into());
    };
    let fname = refwire::fold(&t.name);
    let Some(key) = keys.iter().find(|k| refwire::fold(&k.name) == fname && k.alg == alg) else {
        return Verdict::Invalid("no such key/algorithm".into());
    };
    if t.mac.len() != alg.out_len() {
        return Verdict::Invalid(format!("mac length {}", t.mac.len()));
    }
    let want = hmac_sign(alg, &key.secret, &digest_input(msg, t, prior_mac));
    if want != t.mac {
        return Verdict::Invalid("mac mismatch".into());
    }
    let diff = if now >= t.time { now - t.time } else { t.time - now };
    if diff > t.fudge as u64 {
        return Verdict::Invalid("time outside fudge".into());
    }
    if diff == t.fudge as u64 {
        return Verdict::Boundary;
    }
    Verdict::Valid
}

/// Append a TSIG RR signing `msg` (a complete message without TSIG) in request form.
pub fn sign_request(msg: &[u8], key: &Key, time: u64, fudge: u16) -> Vec<u8> {
    sign_with(msg, key, time, fudge, None, 0, &[])
}

pub fn sign_with(msg: &[u8], key: &Key, time: u64, fudge: u16, prior_mac: Option<&[u8]>, error: u16, other: &[u8]) -> Vec<u8> {
    let id = u16::from_be_bytes([msg[0], msg[1]]);
    let alg = key.alg.labels();
    let mut d = Vec::new();
    if let Some(m) = prior_mac {
        d.extend_from_slice(&(m.len() as u16).to_be_bytes());
        d.extend_from_slice(m);
    }
    d.extend_from_slice(msg);
    variables(&mut d, &key.name, 255, 0, &alg, time, fudge, error, other);
    let mac = hmac_sign(key.alg, &key.secret, &d);
    append_tsig(msg, &key.name, &alg, time, fudge, &mac, id, error, other)
}

/// Append a TSIG RR with the given fields (no MAC computation) and bump ARCOUNT.
pub fn append_tsig(msg: &[u8], name: &Labels, alg: &Labels, time: u64, fudge: u16, mac: &[u8], orig_id: u16, error: u16, other: &[u8]) -> Vec<u8> {
    let mut rd = Vec::new();
    refwire::put_name(&mut rd, alg);
    rd.extend_from_slice(&time.to_be_bytes()[2..8]);
    rd.extend_from_slice(&fudge.to_be_bytes());
    rd.extend_from_slice(&(mac.len() as u16).to_be_bytes());
    rd.extend_from_slice(mac);
    rd.extend_from_slice(&orig_id.to_be_bytes());
    rd.extend_from_slice(&error.to_be_bytes());
    rd.extend_from_slice(&(other.len() as u16).to_be_bytes());
    rd.extend_from_slice(other);
    let mut out = msg.to_vec();
    refwire::put_record(&mut out, name, T_TSIG, 255, 0, &rd);
    let ar = u16::from_be_bytes([out[10], out[11]]).wrapping_add(1);
    out[10..12].copy_from_slice(&ar.to_be_bytes());
    out
}

/// Strip the (located) TSIG RR: the message as it was before signing (ID untouched).
pub fn strip(msg: &[u8], t: &TsigRr) -> Vec<u8> {
    let mut body = msg[..t.start].to_vec();
    let ar = u16::from_be_bytes([body[10], body[11]]).wrapping_sub(1);
    body[10..12].copy_from_slice(&ar.to_be_bytes());
    body
}

/// Sign with full control: the algorithm *name* put into the TSIG RR (and the digest) and the HMAC
/// actually used may differ (for "right key, other algorithm field" forgeries).
pub fn sign_custom(msg: &[u8], name: &Labels, alg_field: &Labels, mac_alg: Alg, secret: &[u8], time: u64, fudge: u16) -> Vec<u8> {
    let id = u16::from_be_bytes([msg[0], msg[1]]);
    let mut d = msg.to_vec();
    variables(&mut d, name, 255, 0, alg_field, time, fudge, 0, &[]);
    let mac = hmac_sign(mac_alg, secret, &d);
    append_tsig(msg, name, alg_field, time, fudge, &mac, id, 0, &[])
}

/// byte regions of a message carrying a TSIG as last additional record: (start offset, label),
/// ascending; used to name where a bit flip landed
pub fn regions(msg: &[u8]) -> Vec<(usize, String)> {
    let mut v: Vec<(usize, String)> = vec![(0, "header-id".into()), (2, "header-flags".into()), (4, "header-counts".into())];
    let Ok(w) = refwire::walk(msg) else { return v };
    v.push((12, "question".into()));
    let names = ["answer", "authority", "additional"];
    for (si, sec) in w.sections.iter().enumerate() {
        for r in sec {
            if r.rtype == T_TSIG && si == 2 {
                let fixed = r.rdata_off - 10;
                v.push((r.start, "tsig-name".into()));
                v.push((fixed, "tsig-type".into()));
                v.push((fixed + 2, "tsig-class".into()));
                v.push((fixed + 4, "tsig-ttl".into()));
                v.push((fixed + 8, "tsig-rdlen".into()));
                v.push((r.rdata_off, "tsig-alg".into()));
                if let Ok((_, p)) = refwire::read_name(msg, r.rdata_off) {
                    v.push((p, "tsig-time".into()));
                    v.push((p + 6, "tsig-fudge".into()));
                    v.push((p + 8, "tsig-macsize".into()));
                    v.push((p + 10, "tsig-mac".into()));
                    if p + 10 <= msg.len() {
                        let ml = u16::from_be_bytes([msg[p + 8], msg[p + 9]]) as usize;
                        v.push((p + 10 + ml, "tsig-origid".into()));
                        v.push((p + 12 + ml, "tsig-error".into()));
                        v.push((p + 14 + ml, "tsig-other".into()));
                    }
                }
            } else {
                let fixed = r.rdata_off - 10;
                v.push((r.start, format!("{}-owner", names[si])));
                v.push((fixed, format!("{}-type-class-ttl-rdlen", names[si])));
                v.push((r.rdata_off, format!("{}-rdata", names[si])));
            }
        }
    }
    v.push((w.end, "trailing".into()));
    v.sort();
    v
}

pub fn region_of(regions: &[(usize, String)], pos: usize) -> String {
    let mut cur = "header-id";
    for (s, l) in regions {
        if *s <= pos {
            cur = l;
        } else {
            break;
        }
    }
    cur.to_string()
}
