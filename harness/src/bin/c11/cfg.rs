//! Server configurations for C11: catalog shapes (nested / sibling / root zones, chained handlers),
//! allow/deny network sets; JSON form (self-contained replay); construction of the real
//! `Server<Catalog>` through the public API.
//!
//! Every "real" handler is an `InMemoryZoneHandler` whose data carries a ZONE-UNIQUE MARKER
//! `zmkNNN` in: SOA MNAME/RNAME, NS target, TXT at the apex and TXT at `*.<origin>`.  Any answer,
//! NODATA or NXDOMAIN produced from that handler therefore contains the marker octets.

use std::sync::Arc;

use hickory_net::runtime::TokioRuntimeProvider;
use hickory_proto::rr::rdata::{NS, SOA, TXT};
use hickory_proto::rr::{LowerName, Name, RData, Record, RecordType};
use hickory_server::dnssec::NxProofKind;
use hickory_server::server::{Request, RequestInfo};
use hickory_server::store::in_memory::InMemoryZoneHandler;
use hickory_server::zone_handler::{
    AuthLookup, AxfrPolicy, Catalog, LookupControlFlow, LookupError, LookupOptions, Nsec3QueryInfo, ZoneHandler, ZoneTransfer, ZoneType,
};
use hickory_server::Server;
use serde_json::{json, Value};

use vh::prng::Rng;
use vh::refwire::{labels_of, Labels};

#[derive(Clone, Copy, Debug, PartialEq, Eq)]
pub enum HKind {
    /// plain InMemoryZoneHandler (its lookups come back as `Continue`)
    Real,
    /// wrapper whose `search`/`zone_transfer` decline (`Skip` / `None`): the next handler in the chain answers
    Skip,
    /// wrapper that turns the inner result into `Break` (no other handler is consulted)
    Break,
}

impl HKind {
    pub fn name(self) -> &'static str {
        match self {
            HKind::Real => "real",
            HKind::Skip => "skip",
            HKind::Break => "break",
        }
    }
    fn parse(s: &str) -> HKind {
        match s {
            "skip" => HKind::Skip,
            "break" => HKind::Break,
            _ => HKind::Real,
        }
    }
}

#[derive(Clone, Debug)]
pub struct HandlerSpec {
    pub kind: HKind,
    pub marker: u16,
    pub axfr_allow: bool,
}

#[derive(Clone, Debug)]
pub struct ZoneSpec {
    /// lower-case ASCII, "." or "a.b."
    pub origin: String,
    pub chain: Vec<HandlerSpec>,
}

impl ZoneSpec {
    pub fn origin_labels(&self) -> Labels {
        labels_of(&self.origin)
    }
}

/// a network as (family 4|6, address bits left-aligned in a u128, prefix length)
#[derive(Clone, Copy, Debug, PartialEq, Eq)]
pub struct Net {
    pub v6: bool,
    pub addr: u128,
    pub len: u8,
}

impl Net {
    pub fn show(&self) -> String {
        if self.v6 {
            format!("{}/{}", std::net::Ipv6Addr::from(self.addr), self.len)
        } else {
            format!("{}/{}", std::net::Ipv4Addr::from((self.addr >> 96) as u32), self.len)
        }
    }
    pub fn parse(s: &str) -> Option<Net> {
        let (a, l) = s.split_once('/')?;
        let len: u8 = l.parse().ok()?;
        if let Ok(v4) = a.parse::<std::net::Ipv4Addr>() {
            Some(Net { v6: false, addr: (u32::from(v4) as u128) << 96, len })
        } else {
            let v6 = a.parse::<std::net::Ipv6Addr>().ok()?;
            Some(Net { v6: true, addr: u128::from(v6), len })
        }
    }
    pub fn mask(len: u8) -> u128 {
        if len == 0 {
            0
        } else {
            u128::MAX << (128 - len as u32)
        }
    }
}

#[derive(Clone, Debug, Default)]
pub struct Config {
    pub zones: Vec<ZoneSpec>,
    pub deny: Vec<Net>,
    pub allow: Vec<Net>,
}

pub fn marker_text(m: u16) -> String {
    format!("zmk{m:03}")
}

impl Config {
    pub fn to_json(&self) -> Value {
        json!({
            "zones": self.zones.iter().map(|z| json!({
                "origin": z.origin,
                "chain": z.chain.iter().map(|h| json!({"kind": h.kind.name(), "marker": h.marker, "axfr_allow": h.axfr_allow})).collect::<Vec<_>>(),
            })).collect::<Vec<_>>(),
            "deny": self.deny.iter().map(|n| n.show()).collect::<Vec<_>>(),
            "allow": self.allow.iter().map(|n| n.show()).collect::<Vec<_>>(),
        })
    }

    pub fn from_json(v: &Value) -> Config {
        let mut c = Config::default();
        for z in v["zones"].as_array().cloned().unwrap_or_default() {
            let chain = z["chain"]
                .as_array()
                .cloned()
                .unwrap_or_default()
                .iter()
                .map(|h| HandlerSpec {
                    kind: HKind::parse(h["kind"].as_str().unwrap_or("real")),
                    marker: h["marker"].as_u64().unwrap_or(0) as u16,
                    axfr_allow: h["axfr_allow"].as_bool().unwrap_or(false),
                })
                .collect();
            c.zones.push(ZoneSpec { origin: z["origin"].as_str().unwrap_or(".").to_string(), chain });
        }
        for (k, dst) in [("deny", &mut c.deny), ("allow", &mut c.allow)] {
            for n in v[k].as_array().cloned().unwrap_or_default() {
                if let Some(n) = n.as_str().and_then(Net::parse) {
                    dst.push(n);
                }
            }
        }
        c
    }

    pub fn hash(&self) -> u64 {
        vh::prng::fnv64(self.to_json().to_string().as_bytes())
    }
}

// ---------------------------------------------------------------------------------------------
// generation

/// origins a catalog is drawn from (and query names are aimed at)
pub const UNIVERSE: &[&str] = &[
    ".",
    "example.",
    "sub.example.",
    "deep.sub.example.",
    "other.example.",
    "sub.other.example.",
    "example.org.",
    "org.",
    "test.",
    "a.b.c.test.",
    "b.c.test.",
    "xn--zone-9ya.",
    "ple.",
    "exam.",
];

fn gen_net(rng: &mut Rng, v6: bool) -> Net {
    let bits = if v6 { 128 } else { 32 };
    let len = match rng.below(10) {
        0 => 0,
        1 => bits,
        2 => 1,
        _ => {
            if v6 {
                *rng.pick(&[16u8, 32, 48, 56, 64, 96, 120, 127])
            } else {
                *rng.pick(&[4u8, 8, 12, 16, 20, 24, 28, 31])
            }
        }
    } as u8;
    // small pool of address stems so allow/deny nets nest and collide
    let addr: u128 = if v6 {
        let stem: u128 = *rng.pick(&[0x2001_0db8u128 << 96, 0xfd00u128 << 112, 0xfe80u128 << 112, 0x2001_0db8_0001u128 << 80, 0u128]);
        stem | (rng.next_u64() as u128 & if rng.bool() { 0xffff_ffff } else { 0 })
    } else {
        let stem: u32 = *rng.pick(&[0x0a00_0000u32, 0x0a01_0000, 0x0a01_0200, 0xc0a8_0000, 0xc0a8_0100, 0xc000_0200, 0x7f00_0000, 0x0808_0808]);
        ((stem | (rng.next_u32() & if rng.bool() { 0xff } else { 0 })) as u128) << 96
    };
    Net { v6, addr: addr & Net::mask(if v6 { len } else { len }), len }
}

pub fn gen_config(rng: &mut Rng) -> Config {
    let mut c = Config::default();
    let mut origins: Vec<&str> = Vec::new();
    match rng.below(10) {
        // the nested family from the design
        0..=2 => {
            for o in [".", "example.", "sub.example.", "deep.sub.example."] {
                if rng.chance(4, 5) {
                    origins.push(o);
                }
            }
        }
        // siblings
        3..=4 => {
            for o in ["example.", "other.example.", "sub.example.", "sub.other.example.", "example.org.", "org.", "test."] {
                if rng.chance(1, 2) {
                    origins.push(o);
                }
            }
        }
        // a deep zone without its parents
        5 => {
            origins.push(*rng.pick(&["deep.sub.example.", "a.b.c.test.", "sub.other.example."]));
            if rng.bool() {
                origins.push(*rng.pick(&["ple.", "exam.", "org."]));
            }
        }
        _ => {
            let n = rng.urange(1, 7);
            for _ in 0..n {
                origins.push(*rng.pick(UNIVERSE));
            }
        }
    }
    if origins.is_empty() {
        origins.push(*rng.pick(&UNIVERSE[1..]));
    }
    origins.sort();
    origins.dedup();
    rng.shuffle(&mut origins);
    let mut marker = rng.range(0, 900) as u16;
    for o in origins {
        let chain_len = match rng.below(10) {
            0..=5 => 1,
            6..=8 => 2,
            _ => 3,
        };
        let mut chain = Vec::new();
        for i in 0..chain_len {
            let kind = if chain_len == 1 {
                if rng.chance(1, 8) {
                    HKind::Break
                } else {
                    HKind::Real
                }
            } else {
                match rng.below(10) {
                    0..=3 => HKind::Skip,
                    4..=5 => HKind::Break,
                    _ => HKind::Real,
                }
            };
            // an all-Skip chain is kept rare
            let kind = if i + 1 == chain_len && chain.iter().all(|h: &HandlerSpec| h.kind == HKind::Skip) && rng.chance(9, 10) && kind == HKind::Skip {
                HKind::Real
            } else {
                kind
            };
            marker += 1;
            chain.push(HandlerSpec { kind, marker, axfr_allow: rng.chance(1, 3) });
        }
        c.zones.push(ZoneSpec { origin: o.to_string(), chain });
    }
    // ACL
    match rng.below(10) {
        0..=3 => {}
        _ => {
            let nd = *rng.pick(&[0usize, 0, 1, 1, 2, 3, 5]);
            let na = *rng.pick(&[0usize, 0, 1, 1, 2, 3, 5]);
            let fam = rng.below(3); // 0: v4 only, 1: v6 only, 2: both
            for (n, dst) in [(nd, &mut c.deny), (na, &mut c.allow)] {
                for _ in 0..n {
                    let v6 = match fam {
                        0 => false,
                        1 => true,
                        _ => rng.bool(),
                    };
                    dst.push(gen_net(rng, v6));
                }
            }
            // sometimes the same prefix on both lists
            if !c.deny.is_empty() && rng.chance(1, 6) {
                c.allow.push(*rng.pick(&c.deny));
            }
        }
    }
    c
}

// ---------------------------------------------------------------------------------------------
// construction of the real thing

type Mem = InMemoryZoneHandler<TokioRuntimeProvider>;

fn name_of(s: &str) -> Name {
    Name::from_ascii(s).expect("origin")
}

fn build_mem(origin: &str, h: &HandlerSpec) -> Mem {
    let o = name_of(origin);
    let mk = marker_text(h.marker);
    let mut z: Mem = InMemoryZoneHandler::empty(
        o.clone(),
        ZoneType::Primary,
        if h.axfr_allow { AxfrPolicy::AllowAll } else { AxfrPolicy::Deny },
        None::<NxProofKind>,
    );
    let mname = name_of(&format!("{mk}.mk."));
    let rname = name_of(&format!("hostmaster.{mk}.mk."));
    let ns = name_of(&format!("ns.{mk}.mk."));
    let wild = if origin == "." { name_of("*.") } else { name_of(&format!("*.{origin}")) };
    let recs = [
        Record::from_rdata(o.clone(), 3600, RData::SOA(SOA::new(mname, rname, 7, 3600, 600, 86400, 60))),
        Record::from_rdata(o.clone(), 3600, RData::NS(NS(ns))),
        Record::from_rdata(o.clone(), 300, RData::TXT(TXT::new(vec![mk.clone()]))),
        Record::from_rdata(wild, 300, RData::TXT(TXT::new(vec![mk.clone()]))),
    ];
    for r in recs {
        assert!(z.upsert_mut(r, 7), "zone record rejected");
    }
    z
}

/// chain wrapper: declines (`Skip`) or forces `Break`
struct Wrap {
    inner: Mem,
    kind: HKind,
}

#[async_trait::async_trait]
impl ZoneHandler for Wrap {
    fn zone_type(&self) -> ZoneType {
        self.inner.zone_type()
    }
    fn axfr_policy(&self) -> AxfrPolicy {
        self.inner.axfr_policy()
    }
    fn origin(&self) -> &LowerName {
        self.inner.origin()
    }
    async fn lookup(&self, name: &LowerName, rtype: RecordType, request_info: Option<&RequestInfo<'_>>, lookup_options: LookupOptions) -> LookupControlFlow<AuthLookup> {
        self.inner.lookup(name, rtype, request_info, lookup_options).await
    }
    async fn search(&self, request: &Request, lookup_options: LookupOptions) -> (LookupControlFlow<AuthLookup>, Option<hickory_proto::rr::TSigResponseContext>) {
        match self.kind {
            HKind::Skip => (LookupControlFlow::Skip, None),
            _ => {
                let (r, s) = self.inner.search(request, lookup_options).await;
                let r = match r {
                    LookupControlFlow::Continue(x) | LookupControlFlow::Break(x) => LookupControlFlow::Break(x),
                    LookupControlFlow::Skip => LookupControlFlow::Skip,
                };
                (r, s)
            }
        }
    }
    async fn nsec_records(&self, name: &LowerName, lookup_options: LookupOptions) -> LookupControlFlow<AuthLookup> {
        self.inner.nsec_records(name, lookup_options).await
    }
    async fn nsec3_records(&self, info: Nsec3QueryInfo<'_>, lookup_options: LookupOptions) -> LookupControlFlow<AuthLookup> {
        self.inner.nsec3_records(info, lookup_options).await
    }
    async fn zone_transfer(
        &self,
        request: &Request,
        lookup_options: LookupOptions,
        now: u64,
    ) -> Option<(Result<ZoneTransfer, LookupError>, Option<hickory_proto::rr::TSigResponseContext>)> {
        match self.kind {
            HKind::Skip => None,
            _ => self.inner.zone_transfer(request, lookup_options, now).await,
        }
    }
    fn nx_proof_kind(&self) -> Option<&NxProofKind> {
        self.inner.nx_proof_kind()
    }
    fn metrics_label(&self) -> &'static str {
        "c11-wrap"
    }
}

pub fn build_server(c: &Config) -> Server<Catalog> {
    let mut cat = Catalog::new();
    for z in &c.zones {
        let mut chain: Vec<Arc<dyn ZoneHandler>> = Vec::new();
        for h in &z.chain {
            let mem = build_mem(&z.origin, h);
            chain.push(match h.kind {
                HKind::Real => Arc::new(mem) as Arc<dyn ZoneHandler>,
                k => Arc::new(Wrap { inner: mem, kind: k }) as Arc<dyn ZoneHandler>,
            });
        }
        cat.upsert(LowerName::from(name_of(&z.origin)), chain);
    }
    let to_ipnet = |n: &Net| -> ipnet::IpNet { n.show().parse().expect("ipnet") };
    Server::with_access(cat, c.deny.iter().map(to_ipnet).collect::<Vec<_>>(), c.allow.iter().map(to_ipnet).collect::<Vec<_>>())
}
