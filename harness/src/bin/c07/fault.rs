//! Tampering layer: faults are lists of primitive rewrites applied to the honest response of an
//! upstream exchange, selected by (qname, qtype) of that exchange (an on-path attacker tampers
//! consistently: every occurrence of the same sub-query gets the same tampered answer).
//! Every fault is self-contained JSON (explicit records as hex), so a witness replays without PRNG.
#![allow(dead_code)]

use serde_json::{json, Value};

use crate::chain;
use crate::hier::{Key, KeySpec};
use crate::refzone::{self, fold, is_subdomain, show, ty, Name};
use crate::world::{make_rrsigs, Rec, Resp, SignerKeys, SEC_AN, SEC_NS};

#[derive(Clone, Debug, PartialEq)]
pub struct Prim {
    pub op: String,
    /// exchange the primitive applies to; None = every exchange (zone-level primitives)
    pub key: Option<(Name, u16)>,
    /// record index in the honest response (record-level primitives)
    pub idx: usize,
    /// bit index / section / variant
    pub n: u64,
    pub zone: Option<Name>,
    pub recs: Vec<Rec>,
    pub rcode: Option<u8>,
}

impl Prim {
    pub fn new(op: &str) -> Prim {
        Prim { op: op.to_string(), key: None, idx: 0, n: 0, zone: None, recs: Vec::new(), rcode: None }
    }
    pub fn at(mut self, q: &[Vec<u8>], t: u16) -> Prim {
        self.key = Some((fold(q), t));
        self
    }
    pub fn idx(mut self, i: usize) -> Prim {
        self.idx = i;
        self
    }
    pub fn n(mut self, n: u64) -> Prim {
        self.n = n;
        self
    }
    pub fn zone(mut self, z: &[Vec<u8>]) -> Prim {
        self.zone = Some(fold(z));
        self
    }
    pub fn recs(mut self, r: Vec<Rec>) -> Prim {
        self.recs = r;
        self
    }
    pub fn rcode(mut self, r: u8) -> Prim {
        self.rcode = Some(r);
        self
    }
    pub fn to_json(&self) -> Value {
        json!({
            "op": self.op, "key": self.key.as_ref().map(|(n, t)| json!([show(n), t])), "idx": self.idx, "n": self.n,
            "zone": self.zone.as_ref().map(|z| show(z)), "recs": self.recs.iter().map(|r| r.to_json()).collect::<Vec<_>>(), "rcode": self.rcode,
        })
    }
    pub fn from_json(v: &Value) -> Option<Prim> {
        Some(Prim {
            op: v["op"].as_str()?.to_string(),
            key: if v["key"].is_null() { None } else { Some((refzone::name(v["key"][0].as_str()?), v["key"][1].as_u64()? as u16)) },
            idx: v["idx"].as_u64().unwrap_or(0) as usize,
            n: v["n"].as_u64().unwrap_or(0),
            zone: v["zone"].as_str().map(refzone::name),
            recs: v["recs"].as_array().map(|a| a.iter().filter_map(Rec::from_json).collect()).unwrap_or_default(),
            rcode: v["rcode"].as_u64().map(|x| x as u8),
        })
    }
}

#[derive(Clone, Debug, PartialEq)]
pub struct Fault {
    pub kind: String,
    /// chain link the fault sits on: answer | dnskey | ds | denial | nsprobe
    pub link: String,
    pub prims: Vec<Prim>,
}

impl Fault {
    pub fn new(kind: &str, link: &str, prims: Vec<Prim>) -> Fault {
        Fault { kind: kind.to_string(), link: link.to_string(), prims }
    }
    pub fn to_json(&self) -> Value {
        json!({"kind": self.kind, "link": self.link, "prims": self.prims.iter().map(|p| p.to_json()).collect::<Vec<_>>()})
    }
    pub fn from_json(v: &Value) -> Option<Fault> {
        Some(Fault { kind: v["kind"].as_str()?.to_string(), link: v["link"].as_str()?.to_string(), prims: v["prims"].as_array()?.iter().filter_map(Prim::from_json).collect() })
    }
}

pub fn faults_to_json(f: &[Fault]) -> Value {
    Value::Array(f.iter().map(|x| x.to_json()).collect())
}
pub fn faults_from_json(v: &Value) -> Vec<Fault> {
    v.as_array().map(|a| a.iter().filter_map(Fault::from_json).collect()).unwrap_or_default()
}

// ---------------------------------------------------------------------------------------------
// the attacker's keys (fixed seeds: an attacker has keys of his own, never the zones' private keys)

pub struct Attacker {
    pub keys: Vec<Key>,
    /// extra key-signing keys with assorted key tags: an attacker can grind a key whose (algorithm, key tag)
    /// equals the victim's, so that the genuine DS is at least *tried* against his key
    pub tagged: Vec<Key>,
}

pub const N_TAGGED: usize = 96;

impl Attacker {
    /// key tags of the attacker's spare KSKs (known to the hierarchy generator, which lets some
    /// genuine KSKs land on one of them — the reverse of an attacker grinding his key)
    pub fn tag_table(&self) -> Vec<u16> {
        self.tagged.iter().map(|k| k.tag).collect()
    }

    pub fn new() -> Attacker {
        let mut a = Self::base();
        let mut r = vh::prng::Rng::from_parts(0xA77AC, "C07/attacker-tagged", 0);
        for _ in 0..N_TAGGED {
            a.tagged.push(Key::build(&KeySpec { alg: 15, flags: 257, material: r.bytes(32), signs_keyset: true, signs_data: false, publish: true }));
        }
        a
    }

    fn base() -> Attacker {
        let ksk = KeySpec { alg: 15, flags: 257, material: (0..32u8).map(|i| i.wrapping_mul(7).wrapping_add(0xA7)).collect(), signs_keyset: true, signs_data: false, publish: true };
        let zsk = KeySpec { alg: 15, flags: 256, material: (0..32u8).map(|i| i.wrapping_mul(13).wrapping_add(0x5C)).collect(), signs_keyset: false, signs_data: true, publish: true };
        Attacker { keys: vec![Key::build(&ksk), Key::build(&zsk)], tagged: Vec::new() }
    }
    pub fn ds_rdata(&self, owner: &Name) -> Vec<u8> {
        let k = &self.keys[0];
        let mut v = k.tag.to_be_bytes().to_vec();
        v.push(15);
        v.push(2);
        v.extend(crate::refsign::ds_digest(owner, &k.rdata, 2).unwrap());
        v
    }
}

/// marker RDATA that no genuine zone contains
pub fn marker_rdata(t: u16, m: u8) -> Vec<u8> {
    match t {
        ty::A => vec![203, 0, 113, m],
        ty::AAAA => {
            let mut v = vec![0x20, 0x01, 0x0d, 0xb8, 0xba, 0xd0];
            v.extend_from_slice(&[0; 9]);
            v.push(m);
            v
        }
        ty::TXT => refzone::rd_txt(&format!("forged-{m}")),
        ty::MX => refzone::rd_mx(66, &refzone::name(&format!("evil{m}.forged."))),
        ty::NS | ty::CNAME | ty::PTR => refzone::rd_name(&refzone::name(&format!("evil{m}.forged."))),
        ty::SOA => refzone::rd_soa(&refzone::name("evil.forged."), &refzone::name("h.forged."), 666, 1, 1, 1, 1),
        _ => vec![0xEE, 0xEE, m],
    }
}

pub fn rrsig_signer(rd: &[u8]) -> Option<Name> {
    if rd.len() < 19 {
        return None;
    }
    refzone::read_wire_name(rd, 18).map(|(n, _)| n)
}

fn covers(sig: &Rec, owner: &Name, t: u16, sec: u8) -> bool {
    sig.rtype == ty::RRSIG && sig.sec == sec && sig.covered() == Some(t) && fold(&sig.owner) == *owner
}

/// groups of non-RRSIG records: (sec, folded owner, type)
fn groups(recs: &[Rec]) -> Vec<(u8, Name, u16)> {
    let mut g: Vec<(u8, Name, u16)> = Vec::new();
    for r in recs.iter().filter(|r| r.rtype != ty::RRSIG) {
        let k = (r.sec, fold(&r.owner), r.rtype);
        if !g.contains(&k) {
            g.push(k);
        }
    }
    g
}

pub struct Env<'a> {
    pub attacker: &'a Attacker,
    /// the configured zones (a *malicious operator of another signed zone* signs with that zone's real keys)
    pub zones: &'a [crate::hier::BZone],
    pub inception: u32,
    pub expiration: u32,
}

/// Apply every primitive of every fault that concerns this exchange to its honest response.
pub fn apply(faults: &[Fault], qname: &Name, qtype: u16, honest: &Resp, env: &Env<'_>) -> Resp {
    let prims: Vec<&Prim> = faults.iter().flat_map(|f| f.prims.iter()).filter(|p| p.key.as_ref().map_or(true, |(n, t)| n == qname && *t == qtype)).collect();
    if prims.is_empty() {
        return honest.clone();
    }
    let mut rcode = honest.rcode;
    let mut slots: Vec<Option<Rec>> = honest.recs.iter().cloned().map(Some).collect();
    let mut extras: Vec<Rec> = Vec::new();
    let mut replaced = false;
    for p in prims.iter().filter(|p| p.op == "replace-response") {
        slots = p.recs.iter().cloned().map(Some).collect();
        rcode = p.rcode.unwrap_or(0);
        replaced = true;
    }
    if !replaced {
        for p in &prims {
            match p.op.as_str() {
                "alter-bit" => {
                    if let Some(Some(r)) = slots.get_mut(p.idx) {
                        if !r.rdata.is_empty() {
                            let bit = (p.n as usize) % (r.rdata.len() * 8);
                            r.rdata[bit / 8] ^= 0x80 >> (bit % 8);
                        }
                    }
                }
                "replace-genuine" => {
                    if let (Some(Some(r)), Some(n)) = (slots.get_mut(p.idx), p.recs.first()) {
                        let sec = r.sec;
                        *r = n.clone();
                        r.sec = sec;
                    }
                }
                _ => {}
            }
        }
        for p in prims.iter().filter(|p| p.op == "drop") {
            if let Some(s) = slots.get_mut(p.idx) {
                *s = None;
            }
        }
    }
    for p in prims.iter().filter(|p| p.op == "inject") {
        extras.extend(p.recs.iter().cloned());
    }
    let mut recs: Vec<Rec> = slots.into_iter().flatten().collect();
    recs.extend(extras);
    for p in &prims {
        match p.op.as_str() {
            "strip-rrsigs" => recs.retain(|r| r.rtype != ty::RRSIG),
            "strip-denial" => recs.retain(|r| !r.is_denial()),
            "flip-rcode" => rcode = p.rcode.unwrap_or(if rcode == 0 { 3 } else { 0 }),
            "empty-section" => recs.retain(|r| p.n != 3 && r.sec as u64 != p.n),
            _ => {}
        }
    }
    for p in &prims {
        let root: Name = Vec::new();
        let zone = match (p.zone.as_ref(), p.op.as_str()) {
            (Some(z), _) => z,
            (None, "cross-zone-signature") => &root,
            _ => continue,
        };
        match p.op.as_str() {
            "strip-zone-sigs" => {
                // everything the zone signed loses its signatures; its denial records disappear
                let signed_by_zone = |r: &Rec| r.rtype == ty::RRSIG && rrsig_signer(&r.rdata).as_ref() == Some(zone);
                let denial_owners: Vec<(u8, Name, u16)> = groups(&recs)
                    .into_iter()
                    .filter(|(s, o, t)| matches!(*t, chain::T_NSEC | chain::T_NSEC3) && recs.iter().any(|x| covers(x, o, *t, *s) && signed_by_zone(x)))
                    .collect();
                recs.retain(|r| !signed_by_zone(r) && !denial_owners.contains(&(r.sec, fold(&r.owner), r.rtype)));
            }
            "attacker-ds" => {
                if !recs.iter().any(|r| r.rtype == ty::DS && fold(&r.owner) == *zone) {
                    continue;
                }
                let sec = recs.iter().find(|r| r.rtype == ty::DS && fold(&r.owner) == *zone).map(|r| r.sec).unwrap_or(SEC_AN);
                let signer = recs.iter().find(|r| covers(r, zone, ty::DS, sec)).and_then(|r| rrsig_signer(&r.rdata)).unwrap_or_else(|| zone[1.min(zone.len())..].to_vec());
                let ttl = recs.iter().find(|r| r.rtype == ty::DS).map(|r| r.ttl).unwrap_or(3600);
                recs.retain(|r| !(r.rtype == ty::DS && fold(&r.owner) == *zone));
                let ds = env.attacker.ds_rdata(zone);
                match p.n {
                    0 => recs.retain(|r| !covers(r, zone, ty::DS, sec)),
                    1 => {}
                    _ => {
                        recs.retain(|r| !covers(r, zone, ty::DS, sec));
                        for s in make_rrsigs(&SignerKeys { apex: &signer, keys: &env.attacker.keys }, zone, ty::DS, ttl, &[ds.clone()], None, env.inception, env.expiration) {
                            recs.push(Rec { sec, owner: zone.clone(), rtype: ty::RRSIG, class: 1, ttl, rdata: s });
                        }
                    }
                }
                recs.push(Rec { sec, owner: zone.clone(), rtype: ty::DS, class: 1, ttl, rdata: ds });
            }
            "cross-zone-signature" => {
                // forged answer for the victim name, signed with the real keys of ANOTHER zone (p.recs[0].owner
                // names it), Signer's Name = that zone. RFC 4035 5.3.1: the signer must be the zone that contains the RRset.
                let Some(signer_zone) = p.recs.first().map(|r| fold(&r.owner)) else { continue };
                let Some(sz) = env.zones.iter().find(|z| z.apex == signer_zone) else { continue };
                for (sec, owner, t) in groups(&recs) {
                    if sec != SEC_AN || !matches!(t, ty::A | ty::TXT | ty::MX | ty::AAAA | ty::NS | ty::SOA | ty::CNAME) {
                        continue;
                    }
                    let ttl = recs.iter().find(|r| r.sec == sec && r.rtype == t && fold(&r.owner) == owner).map(|r| r.ttl).unwrap_or(3600);
                    if p.n == 1 {
                        recs.retain(|r| !(r.sec == sec && r.rtype == t && fold(&r.owner) == owner));
                        recs.push(Rec { sec, owner: owner.clone(), rtype: t, class: 1, ttl, rdata: marker_rdata(t, 55) });
                    }
                    let rdatas: Vec<Vec<u8>> = recs.iter().filter(|r| r.sec == sec && r.rtype == t && fold(&r.owner) == owner).map(|r| r.rdata.clone()).collect();
                    recs.retain(|r| !covers(r, &owner, t, sec));
                    for s in make_rrsigs(&SignerKeys { apex: &sz.apex, keys: &sz.keys }, &owner, t, ttl, &rdatas, None, env.inception, env.expiration) {
                        recs.push(Rec { sec, owner: owner.clone(), rtype: ty::RRSIG, class: 1, ttl, rdata: s });
                    }
                }
            }
            "attacker-keyset" => {
                // n: 0 re-signed, 1 forged data, 2 re-signed with a KSK whose key tag equals the genuine KSK's,
                // 3 same + forged data, 4 attacker ZSK slipped into the genuine key set (genuine RRSIG kept) + forged data
                let genuine_ksk_tags: Vec<u16> = recs.iter().filter(|r| r.rtype == ty::DNSKEY && fold(&r.owner) == *zone && r.rdata.len() > 4 && r.rdata[..2] == [1, 1]).map(|r| crate::refsign::key_tag(&r.rdata)).collect();
                let tagged = if p.n == 2 || p.n == 3 { env.attacker.tagged.iter().find(|k| genuine_ksk_tags.contains(&k.tag)) } else { None };
                let forge = matches!(p.n, 1 | 3 | 4);
                let mut akeys: Vec<&Key> = env.attacker.keys.iter().collect();
                if let Some(k) = tagged {
                    akeys[0] = k;
                }
                for (sec, owner, t) in groups(&recs) {
                    let is_keyset = t == ty::DNSKEY && owner == *zone;
                    if is_keyset && p.n == 4 {
                        let ttl = recs.iter().find(|r| r.sec == sec && r.rtype == t && fold(&r.owner) == owner).map(|r| r.ttl).unwrap_or(3600);
                        recs.push(Rec { sec, owner: owner.clone(), rtype: ty::DNSKEY, class: 1, ttl, rdata: env.attacker.keys[1].rdata.clone() });
                        continue;
                    }
                    let old_sig = recs.iter().find(|r| covers(r, &owner, t, sec) && rrsig_signer(&r.rdata).as_ref() == Some(zone)).cloned();
                    if !is_keyset && old_sig.is_none() {
                        continue;
                    }
                    let ttl = recs.iter().find(|r| r.sec == sec && r.rtype == t && fold(&r.owner) == owner).map(|r| r.ttl).unwrap_or(3600);
                    if is_keyset {
                        recs.retain(|r| !(r.sec == sec && r.rtype == ty::DNSKEY && fold(&r.owner) == owner));
                        for k in &akeys {
                            recs.push(Rec { sec, owner: owner.clone(), rtype: ty::DNSKEY, class: 1, ttl, rdata: k.rdata.clone() });
                        }
                    } else if forge && sec == SEC_AN && matches!(t, ty::A | ty::TXT | ty::MX | ty::AAAA) {
                        // forged content under the attacker's signature
                        recs.retain(|r| !(r.sec == sec && r.rtype == t && fold(&r.owner) == owner));
                        recs.push(Rec { sec, owner: owner.clone(), rtype: t, class: 1, ttl, rdata: marker_rdata(t, 77) });
                    }
                    let rdatas: Vec<Vec<u8>> = recs.iter().filter(|r| r.sec == sec && r.rtype == t && fold(&r.owner) == owner).map(|r| r.rdata.clone()).collect();
                    let labels = old_sig.as_ref().and_then(|s| s.rdata.get(3).copied());
                    recs.retain(|r| !covers(r, &owner, t, sec));
                    let signer_keys: Vec<Key> = akeys.iter().map(|k| Key::build(&k.spec)).collect();
                    for s in make_rrsigs(&SignerKeys { apex: zone, keys: &signer_keys }, &owner, t, ttl, &rdatas, labels, env.inception, env.expiration) {
                        recs.push(Rec { sec, owner: owner.clone(), rtype: ty::RRSIG, class: 1, ttl, rdata: s });
                    }
                }
            }
            _ => {}
        }
    }
    let _ = (SEC_NS, is_subdomain as fn(&[Vec<u8>], &[Vec<u8>]) -> bool);
    Resp { rcode, aa: honest.aa, recs, kind: honest.kind.clone() }
}
