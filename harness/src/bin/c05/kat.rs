//! Known-answer part of C05: RRSIGs made by a *third-party* signer (the OpenSSL command line,
//! see `data/kat/gen.py`) over the RFC 4035 §5.3.2 signed data computed by `refsign`, committed as
//! data in `data/kat/rsa_kat.json`. They cover what ring cannot sign from inside the harness:
//! RSA/SHA-1 (algorithms 5 and 7), RSA keys below 2048 bits, unusual public exponents — plus
//! RSASHA256/RSASHA512 with 1024..4096-bit keys, ECDSA P-256/P-384 and Ed25519, so that the
//! "any conforming third-party signer" direction does not depend on ring for signing at all.
//!
//! Per vector, as presented under a per-seed transformation that must not matter (record order,
//! letter case of owner / signer / RDATA names of the RFC 4034 §6.2 types, received TTLs, an extra
//! duplicate record):
//!  (a) `refsign::signed_data` must equal the stored to-be-signed bytes      (guards the data file
//!      and the presentation transform; failure = INCONCLUSIVE),
//!  (b) ring, called directly, must accept the stored signature                (guards the vector;
//!      failure = INCONCLUSIVE),
//!  (c) hickory must accept: `TBS::from_input` bytes (via `check_tbs`) and `DNSKEY::verify_rrsig`,
//!      once with values built through the constructors and once with DNSKEY/RRSIG decoded from
//!      their RDATA wire form                                       (rule `third-party-rejected`),
//!  (d) the same vector with one flipped signature bit / one flipped RDATA bit must be rejected
//!                                                          (rule `third-party-forgery-accepted`).
//!
//! Don't-cares: algorithms for which `Algorithm::is_supported()` is false are skipped (counted);
//! RSA keys below 1024 bits (RFC 3110 allows 512) are not in the set because ring — the backend of
//! both hickory and step (b) — has no parameter set for them; the RFC 3110 three-octet exponent
//! length form cannot be exercised with an acceptable vector (it needs an exponent longer than
//! 255 octets, ring limits exponents to 33 bits).

use std::path::PathBuf;

use hickory_proto::dnssec::rdata::{DNSKEY, RRSIG};
use hickory_proto::dnssec::{Algorithm, PublicKeyBuf, Verifier};
use hickory_proto::rr::{RData, RecordData, RecordType};
use hickory_proto::serialize::binary::BinDecoder;
use serde_json::{json, Value};

use super::refsign::{self, SigFields};
use super::{to_hickory, Case, Checker};
use vh::mon::{self, hex, unhex, Ctx};
use vh::prng::{fnv64, Rng};
use vh::refwire::{self, Labels};

/// number of vectors per DNSSEC algorithm in the committed file (see gen.py); used as `must`
/// thresholds so that a truncated data file cannot pass silently
pub const EXPECT_PER_ALG: &[(u8, u64)] = &[(5, 71), (7, 71), (8, 71), (10, 71), (13, 13), (14, 13), (15, 13)];
/// vectors per key (summed over algorithms)
pub const EXPECT_PER_KEY: &[(&str, &[u8], u64)] = &[
    ("rsa1024", &[5, 7, 8, 10], 13),
    ("rsa1280", &[5, 7, 8, 10], 13),
    ("rsa2048", &[5, 7, 8, 10], 13),
    ("rsa3072", &[5, 7, 8, 10], 13),
    ("rsa4096", &[5, 7, 8, 10], 13),
    ("rsa1024e3", &[5, 7, 8, 10], 3),
    ("rsa2048e33", &[5, 7, 8, 10], 3),
    ("p256", &[13], 13),
    ("p384", &[14], 13),
    ("ed25519", &[15], 13),
];

pub fn data_path() -> PathBuf {
    match std::env::var("VERIF_C05_KAT") {
        Ok(p) => PathBuf::from(p),
        Err(_) => PathBuf::from(concat!(env!("CARGO_MANIFEST_DIR"), "/data/kat/rsa_kat.json")),
    }
}

// ---------------------------------------------------------------------------------------------
// the fixed RRsets (input of `--kat-emit`)

pub struct RrsetSpec {
    pub id: &'static str,
    pub features: Vec<&'static str>,
    pub owner: &'static str,
    pub rtype: u16,
    pub class: u16,
    pub recs: Vec<(Vec<u8>, u32)>,
    /// None: the owner's label count
    pub labels: Option<u8>,
    pub original_ttl: u32,
    pub inception: u32,
    pub expiration: u32,
    pub signer: &'static str,
}

fn wname(s: &str) -> Vec<u8> {
    let mut out = Vec::new();
    refwire::put_name(&mut out, &refwire::labels_of(s));
    out
}

pub fn rrsets() -> Vec<RrsetSpec> {
    const INC: u32 = 1_700_000_000;
    const EXP: u32 = 1_702_592_000;
    let base = |id, features: &[&'static str], owner, rtype, recs, original_ttl, signer| RrsetSpec {
        id,
        features: features.to_vec(),
        owner,
        rtype,
        class: 1,
        recs,
        labels: None,
        original_ttl,
        inception: INC,
        expiration: EXP,
        signer,
    };
    let mx = |p: u16, n: &str| [p.to_be_bytes().to_vec(), wname(n)].concat();
    let srv = |p: u16, w: u16, port: u16, n: &str| [p.to_be_bytes().to_vec(), w.to_be_bytes().to_vec(), port.to_be_bytes().to_vec(), wname(n)].concat();
    let txt = |strings: &[&[u8]]| {
        let mut out = Vec::new();
        for s in strings {
            out.push(s.len() as u8);
            out.extend_from_slice(s);
        }
        out
    };
    let v6 = |tail: u16| {
        let mut a = vec![0x20, 0x01, 0x0d, 0xb8];
        a.extend_from_slice(&[0; 10]);
        a.extend_from_slice(&tail.to_be_bytes());
        a
    };
    let filler = |n: usize, mul: usize, first: u8| {
        let mut v: Vec<u8> = (0..n).map(|i| (i * mul + 3) as u8).collect();
        v[0] = first;
        v
    };
    let mut out = Vec::new();

    // 1 mixed-case owner, one record
    out.push(base("a-mixedcase-owner", &["mixed-case-owner"], "WwW.ExAmPlE.CoM.", 1, vec![(vec![192, 0, 2, 1], 3600)], 3600, "example.com."));
    // 2 wildcard expansion: Labels (2) below the owner's label count (4) -> signed owner *.example.com.
    let mut s = base(
        "a-wildcard-expanded",
        &["labels-reduced", "multi", "mixed-case-owner"],
        "Host.Sub.example.com.",
        1,
        vec![(vec![198, 51, 100, 7], 300), (vec![198, 51, 100, 3], 300)],
        300,
        "example.com.",
    );
    s.labels = Some(2);
    out.push(s);
    // 3 several records needing the §6.3 sort (presented unsorted)
    out.push(base(
        "a-sorting",
        &["multi", "sorting"],
        "sort.example.com.",
        1,
        [[10, 0, 0, 9], [10, 0, 0, 1], [192, 0, 2, 1], [10, 0, 1, 0], [9, 255, 255, 255], [10, 0, 0, 10]].iter().map(|a| (a.to_vec(), 60)).collect(),
        60,
        "example.com.",
    ));
    // 4 exact duplicate
    out.push(base("aaaa-duplicate", &["multi", "duplicate"], "dup.example.com.", 28, vec![(v6(2), 86400), (v6(1), 86400), (v6(2), 86400)], 86400, "example.com."));
    // 5 MX: names in RDATA, order depends on the case folding ("Foo" < "bar" in ASCII, "foo" > "bar")
    out.push(base(
        "mx-names",
        &["multi", "rdata-names", "sorting"],
        "example.com.",
        15,
        vec![
            (mx(10, "Foo.Example.COM."), 3600),
            (mx(10, "bar.example.com."), 3600),
            (mx(5, "MAIL.example.com."), 3600),
            (mx(10, "foo.example.NET."), 3600),
        ],
        3600,
        "example.com.",
    ));
    // 6 SRV
    out.push(base(
        "srv-names",
        &["multi", "rdata-names", "mixed-case-owner"],
        "_sip._tcp.Example.com.",
        33,
        vec![
            (srv(0, 5, 5060, "SipServer.Example.com."), 900),
            (srv(0, 5, 5060, "sipserver2.example.com."), 900),
            (srv(10, 0, 5061, "BACKUP.example.com."), 900),
        ],
        900,
        "example.com.",
    ));
    // 7 NS
    out.push(base(
        "ns-names",
        &["multi", "rdata-names", "mixed-case-owner"],
        "Example.COM.",
        2,
        vec![(wname("NS2.Example.com."), 172800), (wname("ns1.example.com."), 172800), (wname("Ns.Other-Example.ORG."), 172800)],
        172800,
        "example.com.",
    ));
    // 8 TXT with several strings (never case-folded), an empty string, a 255-octet string
    let long = vec![b'A'; 255];
    out.push(base(
        "txt-strings",
        &["multi", "txt-strings"],
        "txt.example.com.",
        16,
        vec![
            (txt(&[b"v=spf1 include:_spf.Example.com ~all"]), 300),
            (txt(&[b"Hello", b"", b"World With UPPER case"]), 300),
            (txt(&[b""]), 300),
            (txt(&[&long, b"b"]), 300),
        ],
        300,
        "example.com.",
    ));
    // 9 received TTLs differ from the Original TTL and from each other
    out.push(base(
        "a-ttl-differs",
        &["multi", "mixed-ttl"],
        "ttl.example.com.",
        1,
        vec![(vec![203, 0, 113, 1], 17), (vec![203, 0, 113, 2], 299), (vec![203, 0, 113, 3], 3000)],
        3600,
        "example.com.",
    ));
    // 10 signer name in mixed case, SOA names in mixed case
    let mut soa = [wname("NS1.Example.com."), wname("HostMaster.Example.com.")].concat();
    for x in [2026092601u32, 7200, 3600, 1209600, 300] {
        soa.extend_from_slice(&x.to_be_bytes());
    }
    out.push(base("soa-signer-mixedcase", &["rdata-names", "signer-mixed-case"], "example.com.", 6, vec![(soa, 3600)], 3600, "ExAmPlE.CoM."));
    // 11 literal wildcard owner (Labels = 3 = label count without "*"), time extremes 0 .. 2^32-1
    let mut s = base("cname-wildcard-literal", &["wildcard-owner", "rdata-names", "time-extreme"], "*.wild.example.com.", 5, vec![(wname("Target.Example.com."), 600)], 600, "example.com.");
    s.inception = 0;
    s.expiration = 0xffff_ffff;
    out.push(s);
    // 12 root owner / root signer, Labels 0, serial-number wrap-around validity period
    let k1 = [vec![1, 1, 3, 8, 3, 1, 0, 1], filler(128, 7, 0xc1)].concat();
    let k2 = [vec![1, 0, 3, 13], filler(64, 11, 0x5a)].concat();
    let mut s = base("dnskey-root", &["multi", "root-owner", "time-extreme"], ".", 48, vec![(k1, 172800), (k2, 172800)], 172800, ".");
    s.inception = 0xffff_ff00;
    s.expiration = 0x100;
    out.push(s);
    // 13 DS: RDATA differing late (digest type / digest), class IN, deep owner
    let ds = |dt: u8, n: usize| [vec![0x30, 0x39, 8, dt], filler(n, 13, 0x7f)].concat();
    out.push(base("ds-set", &["multi", "sorting"], "Child.Zone.Example.com.", 43, vec![(ds(2, 32), 3600), (ds(1, 20), 3600), (ds(4, 48), 3600)], 3600, "Zone.example.com."));
    out
}

// ---------------------------------------------------------------------------------------------
// vectors

#[derive(Clone)]
pub struct Vector {
    pub id: String,
    pub key_id: String,
    /// "rsa" | "ecdsa" | "ed25519"
    pub key_kind: String,
    pub key_bits: u32,
    /// "" | "e3" | "e2^32+1" (unusual RSA public exponent)
    pub key_note: String,
    pub case: Case,
    pub flags: u16,
    pub public_key: Vec<u8>,
    pub signature: Vec<u8>,
    pub tbs: Vec<u8>,
    /// set in forged variants: which bit was flipped ("sig-bit" | "rdata-bit")
    pub forged: Option<String>,
}

fn intern(s: &str) -> &'static str {
    Box::leak(s.to_string().into_boxed_str())
}

impl Vector {
    pub fn to_json(&self) -> Value {
        let mut v = self.case.to_json();
        v["text"] = json!(format!(
            "{} {} type {} signed by {} alg {} key {}",
            self.id,
            refwire::show(&self.case.owner),
            self.case.rtype,
            refwire::show(&self.case.sig.signer),
            self.case.sig.algorithm,
            self.key_id
        ));
        v["kat"] = json!({
            "id": self.id, "key": self.key_id, "key_kind": self.key_kind, "key_bits": self.key_bits, "key_note": self.key_note,
            "dnskey": {"flags": self.flags, "protocol": 3, "algorithm": self.case.sig.algorithm, "public_key": hex(&self.public_key)},
            "signature": hex(&self.signature),
            "tbs": hex(&self.tbs),
            "forged": self.forged,
        });
        v
    }

    pub fn from_json(v: &Value) -> Option<Vector> {
        let mut case = Case::from_json(v)?;
        if let Some(f) = v["features"].as_array() {
            case.features = f.iter().filter_map(|x| x.as_str()).map(intern).collect();
        }
        let k = &v["kat"];
        if k["dnskey"]["protocol"].as_u64()? != 3 || k["dnskey"]["algorithm"].as_u64()? != case.sig.algorithm as u64 {
            return None;
        }
        Some(Vector {
            id: k["id"].as_str()?.to_string(),
            key_id: k["key"].as_str()?.to_string(),
            key_kind: k["key_kind"].as_str()?.to_string(),
            key_bits: k["key_bits"].as_u64()? as u32,
            key_note: k["key_note"].as_str().unwrap_or("").to_string(),
            case,
            flags: k["dnskey"]["flags"].as_u64()? as u16,
            public_key: unhex(k["dnskey"]["public_key"].as_str()?),
            signature: unhex(k["signature"].as_str()?),
            tbs: unhex(k["tbs"].as_str()?),
            forged: k["forged"].as_str().map(|s| s.to_string()),
        })
    }

    /// structural discriminator: algorithm and key class
    pub fn sig_key(&self) -> String {
        let a = self.case.sig.algorithm;
        match self.key_kind.as_str() {
            "rsa" if self.key_note.is_empty() => format!("alg{a}|rsa{}", self.key_bits),
            "rsa" => format!("alg{a}|rsa{}|{}", self.key_bits, self.key_note),
            k => format!("alg{a}|{k}"),
        }
    }
}

pub fn load() -> Result<Vec<Vector>, String> {
    let p = data_path();
    let txt = std::fs::read_to_string(&p).map_err(|e| format!("known-answer file {} unreadable: {e}", p.display()))?;
    let v: Value = serde_json::from_str(&txt).map_err(|e| format!("known-answer file {} is not JSON: {e}", p.display()))?;
    let arr = v["vectors"].as_array().ok_or_else(|| "known-answer file has no \"vectors\" list".to_string())?;
    let mut out = Vec::new();
    for (i, x) in arr.iter().enumerate() {
        out.push(Vector::from_json(x).ok_or_else(|| format!("known-answer vector #{i} malformed"))?);
    }
    Ok(out)
}

// ---------------------------------------------------------------------------------------------
// `--kat-emit DIR --kat-keys FILE`: write the to-be-signed bytes of every (RRset, algorithm, key)

pub fn emit(dir: &str, keys_file: &str) -> Result<usize, String> {
    let keys: Value = serde_json::from_str(&std::fs::read_to_string(keys_file).map_err(|e| format!("{keys_file}: {e}"))?).map_err(|e| format!("{keys_file}: {e}"))?;
    let keys = keys.as_array().ok_or("keys file must be a JSON list")?;
    std::fs::create_dir_all(dir).map_err(|e| e.to_string())?;
    let specs = rrsets();
    let mut vectors = Vec::new();
    for spec in &specs {
        for key in keys {
            let kid = key["id"].as_str().ok_or("key.id")?;
            if let Some(only) = key["rrsets"].as_array() {
                if !only.iter().any(|x| x.as_str() == Some(spec.id)) {
                    continue;
                }
            }
            let public_key = unhex(key["public_key"].as_str().ok_or("key.public_key")?);
            let flags = key["flags"].as_u64().ok_or("key.flags")? as u16;
            for alg in key["algorithms"].as_array().ok_or("key.algorithms")? {
                let alg = alg.as_u64().ok_or("algorithm")? as u8;
                let owner: Labels = refwire::labels_of(spec.owner);
                let key_tag = refsign::key_tag(&refsign::dnskey_rdata(flags, alg, &public_key));
                let sig = SigFields {
                    type_covered: spec.rtype,
                    algorithm: alg,
                    labels: spec.labels.unwrap_or(refsign::label_count(&owner) as u8),
                    original_ttl: spec.original_ttl,
                    expiration: spec.expiration,
                    inception: spec.inception,
                    key_tag,
                    signer: refwire::labels_of(spec.signer),
                };
                let case = Case { owner, class: spec.class, rtype: spec.rtype, recs: spec.recs.clone(), sig, features: spec.features.clone() };
                let raws: Vec<Vec<u8>> = case.recs.iter().map(|r| r.0.clone()).collect();
                let tbs = refsign::signed_data(&case.owner, case.class, &case.sig, &raws)?;
                let n = vectors.len();
                let file = format!("{n:04}.tbs");
                std::fs::write(format!("{dir}/{file}"), &tbs).map_err(|e| e.to_string())?;
                let v = Vector {
                    id: format!("{}/alg{}/{}", spec.id, alg, kid),
                    key_id: kid.to_string(),
                    key_kind: key["kind"].as_str().ok_or("key.kind")?.to_string(),
                    key_bits: key["bits"].as_u64().ok_or("key.bits")? as u32,
                    key_note: key["note"].as_str().unwrap_or("").to_string(),
                    case,
                    flags,
                    public_key: public_key.clone(),
                    signature: vec![],
                    tbs,
                    forged: None,
                };
                let mut j = v.to_json();
                j["tbs_file"] = json!(file);
                j["rrset"] = json!(spec.id);
                vectors.push(j);
            }
        }
    }
    let n = vectors.len();
    std::fs::write(format!("{dir}/cases.json"), serde_json::to_string_pretty(&json!({ "vectors": vectors })).unwrap()).map_err(|e| e.to_string())?;
    Ok(n)
}

// ---------------------------------------------------------------------------------------------
// presentation transform (must not matter) and forgeries (must matter)

fn flip_label_case(rng: &mut Rng, labels: &mut Labels) {
    for l in labels.iter_mut() {
        for c in l.iter_mut() {
            if c.is_ascii_alphabetic() && rng.bool() {
                *c ^= 0x20;
            }
        }
    }
}

/// the vector as a resolver might receive it: same RRset, different octets
pub fn present(v: &Vector, rng: &mut Rng) -> Vector {
    let mut p = v.clone();
    let c = &mut p.case;
    if rng.chance(1, 3) {
        let d = rng.pick(&c.recs).clone();
        c.recs.push(d);
    }
    rng.shuffle(&mut c.recs);
    flip_label_case(rng, &mut c.owner);
    flip_label_case(rng, &mut c.sig.signer);
    if refsign::FOLD_TYPES.contains(&c.rtype) {
        for (raw, _) in c.recs.iter_mut() {
            let Ok(spans) = refsign::name_spans(c.rtype, raw) else { continue };
            for (s, e) in spans {
                let mut q = s;
                while q < e {
                    let l = raw[q] as usize;
                    q += 1;
                    for b in &mut raw[q..q + l] {
                        if b.is_ascii_alphabetic() && rng.bool() {
                            *b ^= 0x20;
                        }
                    }
                    q += l;
                }
            }
        }
    }
    if rng.bool() {
        let o = c.sig.original_ttl;
        for r in c.recs.iter_mut() {
            r.1 = *rng.pick(&[o, o / 2, 0, 1, 59, o.saturating_sub(1)]);
        }
    }
    p
}

fn reference_tbs(c: &Case) -> Result<Vec<u8>, String> {
    let raws: Vec<Vec<u8>> = c.recs.iter().map(|r| r.0.clone()).collect();
    refsign::signed_data(&c.owner, c.class, &c.sig, &raws)
}

fn rrsig_rdata(sig: &SigFields, signature: &[u8]) -> Vec<u8> {
    // as received: signer name exactly as presented (not folded)
    let mut out = Vec::new();
    out.extend_from_slice(&sig.type_covered.to_be_bytes());
    out.push(sig.algorithm);
    out.push(sig.labels);
    out.extend_from_slice(&sig.original_ttl.to_be_bytes());
    out.extend_from_slice(&sig.expiration.to_be_bytes());
    out.extend_from_slice(&sig.inception.to_be_bytes());
    out.extend_from_slice(&sig.key_tag.to_be_bytes());
    refwire::put_name(&mut out, &sig.signer);
    out.extend_from_slice(signature);
    out
}

/// hickory's verdict on (RRset, RRSIG, DNSKEY). `wire`: DNSKEY and RRSIG are decoded from their
/// RDATA wire form by hickory instead of being built through the constructors.
/// Ok(Ok) accepted, Ok(Err) rejected with reason, Err = cannot present (RDATA undecodable).
fn hickory_verdict(v: &Vector, wire: bool) -> Result<Result<(), String>, String> {
    let h = to_hickory(&v.case)?;
    let alg = Algorithm::from_u8(v.case.sig.algorithm);
    let res = mon::catch(|| -> Result<(), String> {
        let (dnskey, rrsig) = if wire {
            let kr = refsign::dnskey_rdata(v.flags, v.case.sig.algorithm, &v.public_key);
            let kd = RData::read(BinDecoder::new(&kr), RecordType::DNSKEY).map_err(|e| format!("DNSKEY RDATA decode: {e}"))?;
            let dnskey = DNSKEY::try_borrow(&kd).ok_or("DNSKEY RDATA decoded to another type")?.clone();
            let sr = rrsig_rdata(&v.case.sig, &v.signature);
            let sd = RData::read(BinDecoder::new(&sr), RecordType::RRSIG).map_err(|e| format!("RRSIG RDATA decode: {e}"))?;
            let rrsig = RRSIG::try_borrow(&sd).ok_or("RRSIG RDATA decoded to another type")?.clone();
            (dnskey, rrsig)
        } else {
            (DNSKEY::with_flags(v.flags, PublicKeyBuf::new(v.public_key.clone(), alg)), RRSIG::from_sig(h.input.clone(), v.signature.clone()))
        };
        dnskey.verify_rrsig(&h.name, h.class, &rrsig, h.records.iter()).map_err(|e| e.to_string())
    });
    match res {
        Ok(r) => Ok(r),
        Err(p) => Ok(Err(format!("panic: {} at {}", p.message, p.location))),
    }
}

impl Checker<'_> {
    /// A vector that is expected to be rejected (replay of a forgery witness, or step (d)).
    fn kat_expect_rejected(&mut self, f: &Vector) {
        let kind = f.forged.clone().unwrap_or_else(|| "forged".into());
        self.rep.eval();
        match hickory_verdict(f, false) {
            Err(_) => self.rep.count(&format!("kat/forged_{kind}_unpresentable")),
            Ok(Err(_)) => self.rep.count(&format!("kat/forged_{kind}_rejected")),
            Ok(Ok(())) => {
                let sig = format!("{}|{kind}", f.sig_key());
                self.rep.violation("third-party-forgery-accepted", &sig, f.to_json(), json!("verify_rrsig Err (signed data or signature altered)"), json!("Ok"));
            }
        }
    }

    /// Judge one vector as presented. Returns false when the vector (not hickory) is at fault.
    pub fn check_kat(&mut self, v: &Vector, rng: &mut Rng) -> bool {
        if v.forged.is_some() {
            // replay of a forgery witness: the reference must also see a difference
            let differs = reference_tbs(&v.case).map(|t| t != v.tbs).unwrap_or(true) || !refsign::verify(v.case.sig.algorithm, &v.public_key, &v.tbs, &v.signature);
            if differs {
                self.kat_expect_rejected(v);
            }
            return true;
        }
        let alg = v.case.sig.algorithm;
        if !Algorithm::from_u8(alg).is_supported() {
            self.rep.count(&format!("kat/skipped_unsupported/alg{alg}"));
            return true;
        }
        // (a) reference encoder reproduces the stored to-be-signed bytes
        match reference_tbs(&v.case) {
            Ok(t) if t == v.tbs => {}
            other => {
                self.rep.count("kat/harness_tbs_mismatch");
                self.rep.inconclusive(&format!(
                    "known-answer vector {}: stored to-be-signed bytes differ from the reference encoder ({})",
                    v.id,
                    other.map(|_| "bytes differ".to_string()).unwrap_or_else(|e| e)
                ));
                return false;
            }
        }
        // (b) ring, directly
        if !refsign::verify(alg, &v.public_key, &v.tbs, &v.signature) {
            self.rep.count("kat/harness_ring_rejects");
            self.rep.inconclusive(&format!("known-answer vector {}: ring (called directly) rejects the stored signature", v.id));
            return false;
        }
        // (c) hickory: bytes, then verification both ways
        let cls = self.check_tbs(&v.case);
        self.rep.eval();
        self.rep.breadcrumb(|| v.to_json());
        let mut rejected: Vec<String> = Vec::new();
        for wire in [false, true] {
            match hickory_verdict(v, wire) {
                Err(e) => {
                    // the committed RDATA decodes on the unchanged tree; if it does not, hickory
                    // cannot even be shown the RRset: nothing to judge here (check_tbs counted it)
                    self.rep.count("kat/unpresentable");
                    let _ = e;
                    return true;
                }
                Ok(Ok(())) => {}
                Ok(Err(e)) => rejected.push(format!("{}: {e}", if wire { "wire-decoded DNSKEY/RRSIG" } else { "constructed DNSKEY/RRSIG" })),
            }
        }
        self.rep.count("kat/cases_judged");
        self.rep.count(&format!("kat/alg{alg}"));
        self.rep.count(&format!("kat/key/{}", v.key_id));
        if rejected.is_empty() {
            self.rep.count("kat/cases_verified");
            self.rep.nontrivial(fnv64(format!("kat|{}", v.id).as_bytes()));
        } else if cls.is_some() {
            // consequence of the byte mismatch already reported for this very case
            self.rep.count("kat/rejected_explained_by_tbs_mismatch");
        } else {
            self.rep.violation("third-party-rejected", &v.sig_key(), v.to_json(), json!("verify_rrsig Ok (conforming third-party RRSIG, signed data byte-equal)"), json!(rejected));
        }
        // (d) forgeries
        let mut f = v.clone();
        f.forged = Some("sig-bit".into());
        let bit = rng.usize_below(f.signature.len() * 8);
        f.signature[bit / 8] ^= 1 << (bit % 8);
        if refsign::verify(alg, &f.public_key, &f.tbs, &f.signature) {
            self.rep.count("kat/forged_sig-bit_still_valid");
        } else {
            self.kat_expect_rejected(&f);
        }
        for _ in 0..16 {
            let mut f = v.clone();
            f.forged = Some("rdata-bit".into());
            let ri = rng.usize_below(f.case.recs.len());
            let raw = &mut f.case.recs[ri].0;
            if raw.is_empty() {
                continue;
            }
            let bit = rng.usize_below(raw.len() * 8);
            raw[bit / 8] ^= 1 << (bit % 8);
            // must still be a presentable RRset whose signed data really changed (a flipped
            // letter-case bit inside a folded name, or a record turned into a duplicate of
            // another one, may leave it unchanged)
            match reference_tbs(&f.case) {
                Ok(t) if t != v.tbs && to_hickory(&f.case).is_ok() => {
                    self.kat_expect_rejected(&f);
                    break;
                }
                _ => self.rep.count("kat/forged_rdata-bit_retry"),
            }
        }
        true
    }
}

/// the known-answer pass of a normal run
pub fn run(ctx: &Ctx, ck: &mut Checker<'_>) {
    // thresholds first: whatever goes wrong below, the part cannot vanish silently
    let supported = |a: u8| Algorithm::from_u8(a).is_supported();
    let mut total = 0;
    for (a, n) in EXPECT_PER_ALG {
        if supported(*a) {
            ck.rep.must(&format!("kat/alg{a}"), *n);
            total += n;
        } else {
            ck.rep.count(&format!("kat/unsupported_algorithm/alg{a}"));
        }
    }
    for (k, algs, n) in EXPECT_PER_KEY {
        let m = algs.iter().filter(|a| supported(**a)).count() as u64 * n;
        if m > 0 {
            ck.rep.must(&format!("kat/key/{k}"), m);
        }
    }
    ck.rep.must("kat/cases_judged", total);
    ck.rep.must("kat/forged_sig-bit_rejected", total / 2);
    ck.rep.must("kat/forged_rdata-bit_rejected", total / 2);
    let vectors = match load() {
        Ok(v) => v,
        Err(e) => {
            ck.rep.inconclusive(&e);
            return;
        }
    };
    ck.rep.note("kat_vectors_in_file", json!(vectors.len()));
    let mut rng = ctx.rng("kat");
    for (i, v) in vectors.iter().enumerate() {
        if !ctx.mine(i as u64) {
            continue;
        }
        let p = present(v, &mut rng);
        ck.check_kat(&p, &mut rng);
    }
}
