//! Server path, third observation point: the realistic producer of signed responses.
//!
//! `Catalog` over a `SqliteZoneHandler` (in-memory journal, updates on, `AxfrPolicy::AllowSigned`,
//! one TSIG key) behind `Server::verif_handle_request` and the real `ResponseHandle`. The harness
//! signs the requests itself (`reftsig`, independent RFC 8945 implementation) with the wall-clock
//! time — the hook runs the catalog on `TokioTime`, i.e. `SystemTime::now()`:
//!   * AXFR of a generated zone whose transfer is tiny / 1–60 KB / larger than 65 535 octets, with
//!     EDNS payload absent … 65 535, over TCP and over UDP (hickory answers AXFR over UDP and puts
//!     the whole transfer into one message);
//!   * one UPDATE adding an address record (the reply has no records but the TSIG).
//! `Catalog::zone_transfer` / `update` call `MessageResponse::set_signature` with the signer's TSIG
//! record, so these are the responses a deployed server sends with a signature.
//!
//! Judged by `judge_pair` like every other server-path exchange. The two answers are produced at
//! two instants, so their TSIG records may differ in time-signed and MAC: both fields are blanked
//! (same length) in both byte strings before judging. Whether the MAC of a truncated response
//! verifies is not C03's subject (don't-care, not looked at).
//!
//! Observed, outside the statement (counted `tsigcat_axfr_not_granted`, not judged): when the
//! complete-or-truncated encoding of a signed response ends within ~100 octets of 65 535 the server
//! answers SERVFAIL without TSIG instead — `TSigner::encode_response_tbs` assembles request MAC +
//! response + TSIG variables in a `BinEncoder` with the default 65 535 limit, the signing step
//! fails with `MaxBufferSizeExceeded` and `Catalog` falls back to an error response (seen for the
//! 300 x 255-octet TXT zone with no `a.` records). The SERVFAIL is within every limit and well
//! formed, so no clause of C03 is concerned.

use std::path::Path;
use std::sync::Arc;
use std::time::{SystemTime, UNIX_EPOCH};

use hickory_net::runtime::TokioRuntimeProvider;
use hickory_proto::rr::rdata::tsig::TsigAlgorithm;
use hickory_proto::rr::rdata::{A, NS, TXT};
use hickory_proto::rr::{LowerName, Name, RData, Record, RecordSet, RrKey, TSigner};
use hickory_server::dnssec::NxProofKind;
use hickory_server::store::in_memory::InMemoryZoneHandler;
use hickory_server::store::sqlite::{Journal, SqliteZoneHandler};
use hickory_server::zone_handler::{AxfrPolicy, Catalog, ZoneHandler, ZoneType};
use hickory_server::Server;
use serde_json::{json, Value};

use super::reftsig::{self, Alg, Key};
use super::{exchange, judge_pair, request_bytes, soa_record, udp_limit_of, Verdicts, ORIGIN, PAYLOADS};
use vh::mon::{hex, unhex};
use vh::prng::Rng;
use vh::refwire;

#[derive(Clone, Debug)]
pub struct ZoneShape {
    n_txt: usize,
    txt_size: usize,
    n_a: usize,
}

fn build(shape: &ZoneShape, key: &Key, rt: &tokio::runtime::Runtime) -> Result<Server<Catalog>, String> {
    let origin = Name::from_ascii(ORIGIN).map_err(|e| e.to_string())?;
    let mut records: std::collections::BTreeMap<RrKey, RecordSet> = Default::default();
    let mut add = |rec: Record| {
        let k = RrKey::new(LowerName::from(&rec.name), rec.record_type());
        records.entry(k).or_insert_with(|| RecordSet::new(rec.name.clone(), rec.record_type(), 0)).insert(rec, 0);
    };
    add(soa_record());
    let ns = Name::from_ascii("ns.z.test.").map_err(|e| e.to_string())?;
    add(Record::from_rdata(origin.clone(), 3600, RData::NS(NS(ns.clone()))));
    add(Record::from_rdata(ns, 3600, RData::A(A::new(192, 0, 2, 53))));
    let a_owner = Name::from_ascii(format!("a.{ORIGIN}")).map_err(|e| e.to_string())?;
    for i in 0..shape.n_a {
        add(Record::from_rdata(a_owner.clone(), 300, RData::A(A::from(std::net::Ipv4Addr::from(0x0a00_0000u32 + i as u32)))));
    }
    let t_owner = Name::from_ascii(format!("t.{ORIGIN}")).map_err(|e| e.to_string())?;
    for i in 0..shape.n_txt {
        let s: Vec<u8> = (0..shape.txt_size).map(|k| b'a' + ((i + k) % 26) as u8).collect();
        let tag = format!("{i:04}").into_bytes();
        add(Record::from_rdata(t_owner.clone(), 300, RData::TXT(TXT::from_bytes(vec![&tag, &s]))));
    }
    // the store applies its own transfer policy before asking the in-memory handler
    let in_memory: InMemoryZoneHandler<TokioRuntimeProvider> = InMemoryZoneHandler::new(origin.clone(), records, ZoneType::Primary, AxfrPolicy::AllowAll, None::<NxProofKind>)?;
    let mut h = SqliteZoneHandler::new(in_memory, AxfrPolicy::AllowSigned, true, false);
    let alg = match key.alg {
        Alg::Sha256 => TsigAlgorithm::HmacSha256,
        Alg::Sha384 => TsigAlgorithm::HmacSha384,
        Alg::Sha512 => TsigAlgorithm::HmacSha512,
    };
    let key_name = Name::from_ascii(refwire::show(&key.name)).map_err(|e| e.to_string())?;
    h.set_tsig_signers(vec![TSigner::new(key.secret.clone(), alg, key_name, 300).map_err(|e| e.to_string())?]);
    let journal = Journal::from_file(Path::new(":memory:")).map_err(|e| e.to_string())?;
    rt.block_on(h.set_journal(journal));
    let mut cat = Catalog::new();
    cat.upsert(LowerName::from(&origin), vec![Arc::new(h) as Arc<dyn ZoneHandler>]);
    Ok(Server::new(cat))
}

fn now() -> u64 {
    SystemTime::now().duration_since(UNIX_EPOCH).map_or(0, |d| d.as_secs())
}

/// Blank time-signed and MAC of a trailing TSIG record (lengths unchanged).
fn blank_tsig(msg: &[u8]) -> Vec<u8> {
    let mut out = msg.to_vec();
    let Ok(w) = refwire::walk(msg) else { return out };
    let Some(last) = w.sections[2].last() else { return out };
    if last.rtype != reftsig::T_TSIG {
        return out;
    }
    let Ok((_alg, p)) = refwire::read_name(msg, last.rdata_off) else { return out };
    let end = last.rdata_off + last.rdata_len;
    if p + 10 > end {
        return out;
    }
    let mac_len = u16::from_be_bytes([msg[p + 8], msg[p + 9]]) as usize;
    if p + 10 + mac_len > end {
        return out;
    }
    out[p..p + 6].fill(0);
    out[p + 10..p + 10 + mac_len].fill(0);
    out
}

fn update_bytes(id: u16, payload: Option<u16>, k: u8) -> Vec<u8> {
    let mut b = Vec::new();
    refwire::put_header(&mut b, &refwire::WHeader { id, flags: 0x2800, qd: 1, an: 0, ns: 1, ar: payload.is_some() as u16 });
    refwire::put_question(&mut b, &refwire::labels_of(ORIGIN), 6, 1);
    refwire::put_record(&mut b, &refwire::labels_of(&format!("u{k}.{ORIGIN}")), 1, 1, 300, &[10, 9, 8, k]);
    if let Some(p) = payload {
        refwire::put_record(&mut b, &[], 41, p, 0, &[]);
    }
    b
}

fn alg_code(a: Alg) -> u16 {
    match a {
        Alg::Sha256 => 256,
        Alg::Sha384 => 384,
        Alg::Sha512 => 512,
    }
}

#[allow(clippy::too_many_arguments)]
fn case_of(v: &mut Verdicts, rt: &tokio::runtime::Runtime, server: &Server<Catalog>, shape: &ZoneShape, key: &Key, op: &str, unsigned: &[u8], payload: Option<u16>) {
    let case = |proto: &str| {
        json!({
            "kind": "server-tsigcat", "op": op, "protocol": proto, "payload": payload, "request_unsigned": hex(unsigned),
            "zone": {"n_txt": shape.n_txt, "txt_size": shape.txt_size, "n_a": shape.n_a},
            "key": {"name": refwire::show(&key.name), "alg": alg_code(key.alg), "secret": hex(&key.secret)},
            "note": "the request is signed with the wall-clock time when the case runs; time-signed and MAC of the answers' TSIG records are blanked before judging",
        })
    };
    let req = reftsig::sign_request(unsigned, key, now(), 300);
    let Some((tcp, udp)) = exchange(v, rt, server, "tsigcat", "+tsig", &req, &case) else {
        return;
    };
    let (tcp, udp) = (blank_tsig(&tcp), blank_tsig(&udp));
    // what the server made of the request (TCP answer): granted and signed?
    let (granted, tcp_signed) = match refwire::walk(&tcp) {
        Ok(w) => (w.header.rcode_low() == 0, w.sections[2].last().is_some_and(|r| r.rtype == reftsig::T_TSIG) || w.header.tc()),
        Err(_) => (false, false),
    };
    if granted {
        v.rep.count(&format!("tsigcat_{op}_granted"));
    } else {
        v.rep.count(&format!("tsigcat_{op}_not_granted"));
    }
    let Some(seen) = judge_pair(v, "tsigcat", "+tsig", &tcp, &udp, udp_limit_of(payload), &case) else {
        return;
    };
    if !(granted && tcp_signed) {
        return;
    }
    v.rep.count(&format!("tsigcat_{op}_udp_judged"));
    match (seen.udp_truncated, seen.udp_has_tsig) {
        (true, true) => v.rep.count(&format!("tsigcat_{op}_udp_truncated_tsig_kept")),
        (true, false) => v.rep.count(&format!("tsigcat_{op}_udp_truncated_tsig_dropped")),
        (false, true) => v.rep.count(&format!("tsigcat_{op}_udp_complete_with_tsig")),
        (false, false) => v.rep.count(&format!("tsigcat_{op}_udp_complete_without_tsig")),
    }
    if !seen.has_reference {
        v.rep.count(&format!("tsigcat_{op}_udp_without_reference"));
    }
}

fn gen_key(rng: &mut Rng) -> Key {
    let name = match rng.below(3) {
        0 => "xfer.".to_string(),
        1 => format!("key-{}.{ORIGIN}", "k".repeat(rng.urange(1, 40))),
        _ => "transfer-key.example.com.".to_string(),
    };
    Key { name: refwire::labels_of(&name), alg: *rng.pick(&[Alg::Sha256, Alg::Sha256, Alg::Sha384, Alg::Sha512]), secret: rng.bytes(32) }
}

fn gen_shape(rng: &mut Rng) -> ZoneShape {
    match rng.below(6) {
        0 => ZoneShape { n_txt: rng.urange(0, 2), txt_size: rng.urange(1, 50), n_a: rng.urange(0, 5) },
        1 => ZoneShape { n_txt: 300, txt_size: 255, n_a: rng.urange(0, 3) },
        2 => ZoneShape { n_txt: rng.urange(0, 3), txt_size: rng.urange(1, 255), n_a: rng.urange(20, 400) },
        _ => ZoneShape { n_txt: rng.urange(3, 200), txt_size: *rng.pick(&[50usize, 120, 200, 255]), n_a: rng.urange(0, 30) },
    }
}

pub fn run(v: &mut Verdicts, rt: &tokio::runtime::Runtime, rng: &mut Rng, n_req: u64) {
    let per_zone = 12u64;
    let n_zones = n_req.div_ceil(per_zone).max(1);
    for z in 0..n_zones {
        let (shape, key) = (gen_shape(rng), gen_key(rng));
        let server = match build(&shape, &key, rt) {
            Ok(s) => s,
            Err(e) => {
                v.rep.count("tsigcat_setup_failed");
                v.rep.note("tsigcat_setup_error", json!(e));
                continue;
            }
        };
        if z == 0 {
            v.rep.sample(|| json!({"workload": "server-tsigcat", "zone": format!("{shape:?}"), "key": refwire::show(&key.name)}));
        }
        for i in 0..per_zone {
            let payload = if rng.chance(1, 4) { Some(rng.urange(512, 3000) as u16) } else { *rng.pick(PAYLOADS) };
            // the update comes last: every transfer of this zone sees the generated contents
            if i + 1 == per_zone {
                case_of(v, rt, &server, &shape, &key, "update", &update_bytes(rng.u16(), payload, rng.u8()), payload);
            } else {
                case_of(v, rt, &server, &shape, &key, "axfr", &request_bytes(rng.u16(), ORIGIN, 252, payload, false, false), payload);
            }
        }
    }
}

pub fn replay(v: &mut Verdicts, rt: &tokio::runtime::Runtime, c: &Value) {
    let z = &c["zone"];
    let n = |x: &Value| x.as_u64().unwrap_or(0) as usize;
    let shape = ZoneShape { n_txt: n(&z["n_txt"]), txt_size: n(&z["txt_size"]), n_a: n(&z["n_a"]) };
    let k = &c["key"];
    let alg = match k["alg"].as_u64() {
        Some(384) => Alg::Sha384,
        Some(512) => Alg::Sha512,
        _ => Alg::Sha256,
    };
    let key = Key { name: refwire::labels_of(k["name"].as_str().unwrap_or("xfer.")), alg, secret: unhex(k["secret"].as_str().unwrap_or("")) };
    let payload = c["payload"].as_u64().map(|p| p as u16);
    let unsigned = unhex(c["request_unsigned"].as_str().unwrap_or(""));
    match build(&shape, &key, rt) {
        Ok(server) => case_of(v, rt, &server, &shape, &key, c["op"].as_str().unwrap_or("axfr"), &unsigned, payload),
        Err(e) => v.rep.inconclusive(&format!("replay: cannot build the zone handler: {e}")),
    }
}
