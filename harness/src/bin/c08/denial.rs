//! Genuine NSEC / NSEC3 chains of a reference zone, the *claims* a negative or wildcard-expanded
//! response makes (DESIGN App. A.4) and the pieces of the counter-model test (App. A.5) that are
//! evaluated on the slow, trusted `refzone` model. Plain types only; built on `refzone`.
//!
//! Semantics (two-level model, App. A.1): a world is the zone Z plus an *arbitrary* child zone under
//! every cut of Z. A claim about a name at or below a cut (other than "no DS at the cut") is false
//! in the world whose child zone holds that RRset, whatever Z's own records say – RFC 6840 §4.1
//! ("ancestor delegation" NSEC RRs must not be used to assume non-existence of anything at or below
//! the cut except DS) and §4.4.
#![allow(dead_code)]

use std::collections::{BTreeMap, BTreeSet};

use serde_json::{json, Value};

use crate::refzone::{self, child, fold, is_strict_subdomain, is_subdomain, suffix, ty, wildcard_of, CName, Name, Zone};

pub const T_RRSIG: u16 = 46;
pub const T_NSEC: u16 = 47;
pub const T_NSEC3: u16 = 50;

// ---------------------------------------------------------------------------------------------
// NSEC chain (App. A.3)

#[derive(Clone, Debug, PartialEq, Eq, PartialOrd, Ord)]
pub struct Nsec {
    pub owner: Name,
    pub next: Name,
    pub types: BTreeSet<u16>,
}

impl Nsec {
    pub fn to_json(&self) -> Value {
        json!({"owner": refzone::show(&self.owner), "next": refzone::show(&self.next), "types": self.types.iter().map(|t| refzone::type_name(*t)).collect::<Vec<_>>()})
    }
    pub fn from_json(v: &Value) -> Option<Nsec> {
        let owner = refzone::name(v["owner"].as_str()?);
        let next = refzone::name(v["next"].as_str()?);
        let mut types = BTreeSet::new();
        for t in v["types"].as_array()? {
            types.insert(refzone::type_code(t.as_str()?)?);
        }
        Some(Nsec { owner, next, types })
    }
    pub fn show(&self) -> String {
        format!("{} NSEC {} ({})", refzone::show(&self.owner), refzone::show(&self.next), self.types.iter().map(|t| refzone::type_name(*t)).collect::<Vec<_>>().join(" "))
    }
}

/// types shown in the denial bitmap at `n` (n owns visible data)
fn bitmap_types(z: &Zone, n: &[Vec<u8>], self_type: u16) -> BTreeSet<u16> {
    let mut t: BTreeSet<u16> = BTreeSet::new();
    if let Some(node) = z.node(n) {
        if z.is_delegation(n) {
            // RFC 4035 §2.3: at a delegation point only the bits for NS and for the RRsets the parent
            // is authoritative for (DS) are set; everything else at the cut name is occluded data
            for k in node.keys() {
                if *k == ty::NS || *k == ty::DS {
                    t.insert(*k);
                }
            }
        } else {
            t.extend(node.keys().copied());
        }
    }
    t.insert(T_RRSIG);
    if self_type == T_NSEC {
        t.insert(T_NSEC);
    }
    t
}

pub fn nsec_chain(z: &Zone) -> Vec<Nsec> {
    let owners: Vec<Name> = z.owners().filter(|o| z.in_zone(o) && !z.occluded(o)).cloned().collect();
    let mut out = Vec::new();
    for (i, o) in owners.iter().enumerate() {
        let next = owners[(i + 1) % owners.len()].clone();
        out.push(Nsec { owner: o.clone(), next, types: bitmap_types(z, o, T_NSEC) });
    }
    out
}

// ---------------------------------------------------------------------------------------------
// NSEC3 chain (App. A.3) – not used by C08; kept for the NSEC3 twin of this check

#[derive(Clone, Debug, PartialEq, Eq, PartialOrd, Ord)]
pub struct Nsec3Params {
    pub salt: Vec<u8>,
    pub iterations: u16,
    pub opt_out: bool,
}

#[derive(Clone, Debug, PartialEq, Eq, PartialOrd, Ord)]
pub struct Nsec3 {
    /// hash of the owner (20 bytes)
    pub hash: Vec<u8>,
    pub next: Vec<u8>,
    pub types: BTreeSet<u16>,
    pub opt_out: bool,
    /// the original owner name (not part of the record; for witnesses)
    pub of: Name,
}

/// RFC 5155 §5: IH(salt, x, 0) = H(x || salt); IH(salt, x, k) = H(IH(salt, x, k-1) || salt)
pub fn nsec3_hash(name: &[Vec<u8>], salt: &[u8], iterations: u16) -> Vec<u8> {
    let mut data = refzone::wire_name(&fold(name));
    data.extend_from_slice(salt);
    let mut h = ring::digest::digest(&ring::digest::SHA1_FOR_LEGACY_USE_ONLY, &data).as_ref().to_vec();
    for _ in 0..iterations {
        let mut d = h.clone();
        d.extend_from_slice(salt);
        h = ring::digest::digest(&ring::digest::SHA1_FOR_LEGACY_USE_ONLY, &d).as_ref().to_vec();
    }
    h
}

pub fn base32hex(b: &[u8]) -> Vec<u8> {
    const A: &[u8; 32] = b"0123456789abcdefghijklmnopqrstuv";
    let mut out = Vec::new();
    let mut acc: u32 = 0;
    let mut bits = 0;
    for x in b {
        acc = (acc << 8) | *x as u32;
        bits += 8;
        while bits >= 5 {
            out.push(A[((acc >> (bits - 5)) & 31) as usize]);
            bits -= 5;
        }
    }
    if bits > 0 {
        out.push(A[((acc << (5 - bits)) & 31) as usize]);
    }
    out
}

/// names that get an NSEC3 record: every existing name incl. ENTs; under opt-out, insecure
/// delegations (cut without DS) are omitted — and so are ENTs that exist only because of them.
pub fn nsec3_names(z: &Zone, opt_out: bool) -> Vec<Name> {
    let mut set: BTreeMap<CName, ()> = BTreeMap::new();
    set.insert(CName(z.apex.clone()), ());
    for o in z.owners() {
        if !z.in_zone(o) || z.occluded(o) {
            continue;
        }
        if opt_out && z.is_delegation(o) && z.rrset(o, ty::DS).is_none() {
            continue;
        }
        let mut k = o.len();
        while k > z.apex.len() {
            set.insert(CName(suffix(o, k)), ());
            k -= 1;
        }
    }
    set.into_keys().map(|c| c.0).collect()
}

pub fn nsec3_chain(z: &Zone, p: &Nsec3Params) -> Vec<Nsec3> {
    let mut v: Vec<(Vec<u8>, Name)> = nsec3_names(z, p.opt_out).into_iter().map(|n| (nsec3_hash(&n, &p.salt, p.iterations), n)).collect();
    v.sort();
    let mut out = Vec::new();
    for i in 0..v.len() {
        let (h, n) = &v[i];
        let next = v[(i + 1) % v.len()].0.clone();
        let types = if z.node(n).is_some() { bitmap_types(z, n, T_NSEC3) } else { BTreeSet::new() };
        // RFC 5155 §7.1: the RRSIG bit is only set when an authoritative RRset exists at the name
        let mut types = types;
        if z.node(n).is_none() || (z.is_delegation(n) && z.rrset(n, ty::DS).is_none()) {
            types.remove(&T_RRSIG);
        }
        if *n == z.apex {
            types.insert(51); // NSEC3PARAM at the apex
        }
        out.push(Nsec3 { hash: h.clone(), next, types, opt_out: p.opt_out, of: n.clone() });
    }
    out
}

pub fn nsec3_subset_of_chain(s: &[Nsec3], z: &Zone, p: &Nsec3Params) -> bool {
    let chain = nsec3_chain(z, p);
    s.iter().all(|r| chain.iter().any(|c| c.hash == r.hash && c.next == r.next && c.types == r.types && c.opt_out == r.opt_out))
}

// ---------------------------------------------------------------------------------------------
// claims (App. A.4)

#[derive(Clone, Copy, Debug, PartialEq, Eq, Hash, PartialOrd, Ord)]
pub enum Claim {
    /// rcode NXDOMAIN
    NxDomain,
    /// rcode NOERROR, no answer
    NoData,
    /// rcode NOERROR, answer RRset of the query type whose RRSIG has Labels = `labels`, i.e.
    /// synthesised from `*.`(rightmost `labels` labels of qname)
    Expansion { labels: usize },
}

impl Claim {
    pub fn as_str(&self) -> &'static str {
        match self {
            Claim::NxDomain => "nxdomain",
            Claim::NoData => "nodata",
            Claim::Expansion { .. } => "expansion",
        }
    }
}

/// Why a claim is false (ordered: the order is the priority used when several counter-models of the
/// same size exist, so that signatures are stable).
#[derive(Clone, Copy, Debug, PartialEq, Eq, Hash, PartialOrd, Ord)]
pub enum Reason {
    QnameExists,
    WildcardMatches,
    TypePresent,
    CnamePresent,
    CloserEncloser,
    AtCut,
    BelowCut,
    MatchedNodeIsCut,
    OutsideZone,
}

impl Reason {
    pub const ALL: [Reason; 9] = [
        Reason::QnameExists,
        Reason::WildcardMatches,
        Reason::TypePresent,
        Reason::CnamePresent,
        Reason::CloserEncloser,
        Reason::AtCut,
        Reason::BelowCut,
        Reason::MatchedNodeIsCut,
        Reason::OutsideZone,
    ];
    pub fn tag(&self) -> &'static str {
        match self {
            Reason::QnameExists => "qname-exists",
            Reason::WildcardMatches => "wildcard-matches",
            Reason::TypePresent => "type-present",
            Reason::CnamePresent => "cname-present",
            Reason::CloserEncloser => "closer-encloser-exists",
            Reason::AtCut => "at-cut",
            Reason::BelowCut => "below-cut",
            Reason::MatchedNodeIsCut => "matched-node-is-cut",
            Reason::OutsideZone => "outside-zone",
        }
    }
    pub fn text(&self) -> &'static str {
        match self {
            Reason::QnameExists => "the query name exists",
            Reason::WildcardMatches => "a wildcard at the closest encloser would match",
            Reason::TypePresent => "the type is present at the matched node",
            Reason::CnamePresent => "a CNAME is present at the matched node",
            Reason::CloserEncloser => "a closer encloser than the expanded wildcard's parent exists",
            Reason::AtCut => "the query name is a zone cut and the claim is not DS-NODATA: the child zone decides",
            Reason::BelowCut => "the query name is below a zone cut: the child zone decides",
            Reason::MatchedNodeIsCut => "the matched node is a zone cut",
            Reason::OutsideZone => "the query name is outside the zone",
        }
    }
    pub fn from_index(i: u8) -> Reason {
        Reason::ALL[i as usize]
    }
    pub fn index(&self) -> u8 {
        Reason::ALL.iter().position(|r| r == self).unwrap() as u8
    }
}

#[derive(Clone, Copy, Debug, PartialEq, Eq)]
pub enum Truth {
    True,
    /// unambiguously false in the zone itself
    False(Reason),
    /// at or below a zone cut (and not DS-NODATA at the cut): false in the world whose child zone
    /// holds the RRset, so parent-side records cannot entail it
    NotEntailable(Reason),
    /// not what the zone would answer, but not one of the unambiguous falsifications of App. A.5
    /// (e.g. NODATA claimed where NXDOMAIN is the truth) – never alarmed on
    Ambiguous,
}

impl Truth {
    pub fn falsified(&self) -> Option<Reason> {
        match self {
            Truth::False(r) | Truth::NotEntailable(r) => Some(*r),
            _ => None,
        }
    }
}

/// Is the claim true of zone `z`?
pub fn claim_truth(z: &Zone, q: &[Vec<u8>], t: u16, claim: &Claim) -> Truth {
    if !z.in_zone(q) {
        return Truth::NotEntailable(Reason::OutsideZone);
    }
    if z.occluded(q) {
        return Truth::NotEntailable(Reason::BelowCut);
    }
    if z.is_delegation(q) && !(t == ty::DS && *claim == Claim::NoData) {
        return Truth::NotEntailable(Reason::AtCut);
    }
    match claim {
        Claim::NxDomain => {
            if z.exists(q) {
                return Truth::False(Reason::QnameExists);
            }
            let w = z.source_of_synthesis(q);
            if z.exists(&w) {
                return Truth::False(Reason::WildcardMatches);
            }
            Truth::True
        }
        Claim::NoData => {
            let node = if z.exists(q) {
                fold(q)
            } else {
                let w = z.source_of_synthesis(q);
                if !z.exists(&w) {
                    // neither qname nor a matching wildcard exists: NXDOMAIN is the truth
                    return Truth::Ambiguous;
                }
                w
            };
            if z.is_delegation(&node) && t != ty::DS {
                return Truth::NotEntailable(Reason::MatchedNodeIsCut);
            }
            let auth = z.authoritative_types(&node);
            if auth.contains(&t) {
                return Truth::False(Reason::TypePresent);
            }
            if auth.contains(&ty::CNAME) && t != ty::CNAME {
                return Truth::False(Reason::CnamePresent);
            }
            Truth::True
        }
        Claim::Expansion { labels } => {
            if *labels + 1 == q.len() && refzone::is_wildcard(q) {
                // the "expanded" owner is the wildcard owner itself: a plain positive answer, no denial
                return Truth::Ambiguous;
            }
            if z.exists(q) {
                return Truth::False(Reason::QnameExists);
            }
            let ce = z.closest_encloser(q);
            if ce.len() > *labels {
                return Truth::False(Reason::CloserEncloser);
            }
            if ce.len() < *labels {
                // the claimed wildcard's parent does not exist: its RRSIG could not be genuine here
                return Truth::Ambiguous;
            }
            Truth::True
        }
    }
}

/// The positive half of an expansion response is evidence too: the answer RRset with an RRSIG whose
/// Labels field is `labels` is genuine only in zones where `*.`(rightmost `labels` labels of q) is an
/// authoritative owner of the type.
pub fn expansion_evidence(z: &Zone, q: &[Vec<u8>], t: u16, labels: usize) -> bool {
    if labels >= q.len() || labels < z.apex.len() {
        return false;
    }
    let w = wildcard_of(&suffix(q, labels));
    z.in_zone(&w) && !z.occluded(&w) && !z.is_delegation(&w) && z.rrset(&w, t).is_some()
}

pub fn nsec_subset_of_chain(s: &[Nsec], z: &Zone) -> bool {
    let chain = nsec_chain(z);
    s.iter().all(|r| chain.contains(r))
}

// ---------------------------------------------------------------------------------------------
// applying the edits of a counter-model on the slow model

pub fn filler_rdata(t: u16, apex: &[Vec<u8>]) -> Vec<u8> {
    match t {
        x if x == ty::A => refzone::rd_a(200),
        x if x == ty::AAAA => refzone::rd_aaaa(200),
        x if x == ty::MX => refzone::rd_mx(5, apex),
        x if x == ty::CNAME || x == ty::NS => refzone::rd_name(&child(b"ns", apex)),
        x if x == ty::DS => refzone::rd_ds(77),
        x if x == ty::SOA => refzone::rd_soa(&refzone::name("ns.y."), &refzone::name("h.z."), 10, 3600, 600, 86400, 300),
        x if x == ty::TXT => refzone::rd_txt("counter-model"),
        // DNSKEY and anything else: opaque but well-formed for DNSKEY (flags 256, proto 3, alg 15, 32 octets)
        _ => {
            let mut v = vec![1, 0, 3, 15];
            v.extend_from_slice(&[7u8; 32]);
            v
        }
    }
}

/// Replace the content of node `n` by exactly the given types (filler RDATA; RDATA never matters
/// for chains or claims).
pub fn set_node(z: &mut Zone, n: &[Vec<u8>], types: &[u16]) {
    let apex = z.apex.clone();
    z.remove_name(n);
    for t in types {
        z.add(n, *t, filler_rdata(*t, &apex));
    }
}

pub fn is_sub(n: &[Vec<u8>], a: &[Vec<u8>]) -> bool {
    is_subdomain(n, a)
}
pub fn is_strict_sub(n: &[Vec<u8>], a: &[Vec<u8>]) -> bool {
    is_strict_subdomain(n, a)
}
