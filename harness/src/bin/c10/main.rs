//! C10 — authoritative answers follow RFC 1034 §4.3.2 (+ RFC 4592 wildcards, RFC 2308 negative
//! answers, RFC 4035 §3.1 DO=1 additions).
//!
//! Observation point: the wire bytes `Catalog::handle_request(Request::from_bytes(query))` hands
//! to a recording `ResponseHandler`, decoded with the harness' own wire walker (`vh::refwire`).
//! Oracle: `refzone::ref_auth` (independent model, plain types), compared on a projection:
//!   rcode · AA · answer section as a set of (owner, type, RDATA) incl. the CNAME chain ·
//!   authority = SOA (negative) / the cut's NS set (referral) · nothing from below a cut except
//!   address glue in additional · DO=1 on a zone signed by hickory: every authoritative RRset in
//!   answer/authority has ≥ 1 RRSIG covering its type, every negative or wildcard-synthesised
//!   answer has ≥ 1 NSEC/NSEC3 (`denial-missing`) and – when rcode, answer kind and content already
//!   agree with RefAuth – the NSEC/NSEC3 records present are an adequate proof by ROLE
//!   (`denial-inadequate`: match / cover of qname, closest encloser, next closer name, wildcard as
//!   RFC 4035 §3.1.3 / RFC 5155 §7.2 prescribe for the reference outcome; table, signature scheme
//!   and don't-cares in `adequacy.rs`). Whole-chain comparison, signature validity and what a
//!   validator makes of the proof stay with C08/C09/C05/C06.
//!
//! Don't-cares (nothing below is ever reported):
//!   * denial proofs: see the list in `adequacy.rs` (opt-out corner cases the reference chain cannot
//!     prove either, proofs for the final name of a CNAME chase, extra records, bitmap bits other
//!     than QTYPE/CNAME, responses whose kind already deviates);
//!   * additional section, except: records must be zone data (literal or wildcard-synthesised) and
//!     anything from at/below a cut must be an address record;
//!   * QTYPE=ANY: any non-empty subset of the matched node's RRsets (RFC 8482);
//!   * TTLs (incl. the negative SOA's), record order, name case, EDNS content of the response;
//!   * glue and DS/NSEC presence in referrals; RRSIGs over non-authoritative data (hickory signs
//!     delegation NS sets and glue – RFC 4035 §2.2 says it should not, but C10's statement only
//!     demands signatures on authoritative RRsets);
//!   * CNAME chains whose complete answer would hold more than 8 RRsets: a prefix of ≥ 1 correct
//!     links is accepted (implementation depth bound);
//!   * the end of a CNAME chase: rcode NOERROR or NXDOMAIN when the final in-zone target does not
//!     exist (RFC 1034 §4.3.2 3c "if the name is original … otherwise just exit" vs RFC 6604 §3);
//!     SOA / denial proof / referral NS in authority for the *final* name of a chase (RFC 1034
//!     puts nothing there, RFC 2308 §2.1/§2.2 would) – counted under `dontcare/*`;
//!   * authority content of positive answers beyond "zone data, nothing occluded" (hickory adds the
//!     apex NS to SOA answers and NSEC3 records to positive answers);
//!   * SOA serial in signed zones: s or s+1 (hickory bumps the serial when it signs);
//!   * AA on REFUSED.

mod adequacy;
mod refzone;

use std::collections::BTreeSet;
use std::future::Future;
use std::io;
use std::net::SocketAddr;
use std::pin::Pin;
use std::sync::{Arc, Mutex};
use std::time::Duration;

use hickory_net::runtime::{RuntimeProvider, Time, TokioRuntimeProvider};
use hickory_net::xfer::Protocol;
use hickory_net::NetError;
use hickory_proto::dnssec::crypto::Ed25519SigningKey;
use hickory_proto::dnssec::rdata::DNSKEY;
use hickory_proto::dnssec::{DnssecSigner, SigningKey};
use hickory_proto::rr::{LowerName, RData, Record, RecordType};
use hickory_proto::serialize::binary::{BinDecoder, BinEncoder};
use hickory_server::dnssec::NxProofKind;
use hickory_server::server::{Request, RequestHandler, ResponseHandler, ResponseInfo};
use hickory_server::store::in_memory::InMemoryZoneHandler;
use hickory_server::zone_handler::{AxfrPolicy, Catalog, MessageResponse, ZoneHandler, ZoneType};
use serde_json::{json, Value};

use refzone::{ty, ChainEnd, Kind, Name, Outcome, Rr, Zone};
use vh::hk;
use vh::mon::{self, hex, unhex, Ctx, Reporter};
use vh::prng::fnv64;
use vh::refwire::{self, WHeader, WMessage, WRecord};

/// complete answers with more RRsets than this may be truncated by the implementation
const DEPTH_DONTCARE: usize = 8;
const TTL: u32 = 300;
/// fixed signing clock (2001-09-09); signatures are never verified here, only their presence
const NOW: u64 = 1_000_000_000;

// ---------------------------------------------------------------------------------------------
// runtime provider with a fixed clock (signing time), as in the P1 prototype

#[derive(Clone, Copy)]
pub struct VTime;
#[async_trait::async_trait]
impl Time for VTime {
    async fn delay_for(d: Duration) {
        tokio::time::sleep(d).await
    }
    async fn timeout<F: 'static + Future + Send>(d: Duration, f: F) -> Result<F::Output, io::Error> {
        tokio::time::timeout(d, f).await.map_err(|_| io::Error::new(io::ErrorKind::TimedOut, "t"))
    }
    fn current_time() -> u64 {
        NOW
    }
}

#[derive(Clone)]
struct VRuntime(TokioRuntimeProvider);
impl RuntimeProvider for VRuntime {
    type Handle = <TokioRuntimeProvider as RuntimeProvider>::Handle;
    type Timer = VTime;
    type Udp = <TokioRuntimeProvider as RuntimeProvider>::Udp;
    type Tcp = <TokioRuntimeProvider as RuntimeProvider>::Tcp;
    fn create_handle(&self) -> Self::Handle {
        self.0.create_handle()
    }
    fn connect_tcp(&self, _: SocketAddr, _: Option<SocketAddr>, _: Option<Duration>) -> Pin<Box<dyn Send + Future<Output = Result<Self::Tcp, io::Error>>>> {
        Box::pin(async { Err(io::Error::other("no net")) })
    }
    fn bind_udp(&self, _: SocketAddr, _: SocketAddr) -> Pin<Box<dyn Send + Future<Output = Result<Self::Udp, io::Error>>>> {
        Box::pin(async { Err(io::Error::other("no net")) })
    }
}

#[derive(Clone, Default)]
struct Rec(Arc<Mutex<Vec<Vec<u8>>>>);
#[async_trait::async_trait]
impl ResponseHandler for Rec {
    async fn send_response<'a>(
        &mut self,
        response: MessageResponse<
            '_,
            'a,
            impl Iterator<Item = &'a Record> + Send + 'a,
            impl Iterator<Item = &'a Record> + Send + 'a,
            impl Iterator<Item = &'a Record> + Send + 'a,
            impl Iterator<Item = &'a Record> + Send + 'a,
        >,
    ) -> Result<ResponseInfo, NetError> {
        let mut buf = Vec::new();
        let mut enc = BinEncoder::new(&mut buf);
        let info = response.destructive_emit(&mut enc)?;
        self.0.lock().unwrap().push(buf);
        Ok(info)
    }
}

// ---------------------------------------------------------------------------------------------
// the zone inside hickory

#[derive(Clone, Debug, PartialEq, Eq)]
enum Sign {
    None,
    Nsec,
    Nsec3 { iterations: u16, salt: Vec<u8>, opt_out: bool },
}

impl Sign {
    fn tag(&self) -> &'static str {
        match self {
            Sign::None => "unsigned",
            Sign::Nsec => "nsec",
            Sign::Nsec3 { .. } => "nsec3",
        }
    }
    fn ref_mode(&self) -> adequacy::RefMode {
        match self {
            Sign::None => adequacy::RefMode::None,
            Sign::Nsec => adequacy::RefMode::Nsec,
            Sign::Nsec3 { iterations, salt, opt_out } => adequacy::RefMode::Nsec3 { salt: salt.clone(), iterations: *iterations, opt_out: *opt_out },
        }
    }
    fn opt_out(&self) -> bool {
        matches!(self, Sign::Nsec3 { opt_out: true, .. })
    }
    fn to_json(&self) -> Value {
        match self {
            Sign::None => json!({"sign": "none"}),
            Sign::Nsec => json!({"sign": "nsec"}),
            Sign::Nsec3 { iterations, salt, opt_out } => json!({"sign": "nsec3", "iterations": iterations, "salt": hex(salt), "opt_out": opt_out}),
        }
    }
    fn from_json(v: &Value) -> Sign {
        match v["sign"].as_str().unwrap_or("none") {
            "nsec" => Sign::Nsec,
            "nsec3" => Sign::Nsec3 {
                iterations: v["iterations"].as_u64().unwrap_or(0) as u16,
                salt: unhex(v["salt"].as_str().unwrap_or("")),
                opt_out: v["opt_out"].as_bool().unwrap_or(false),
            },
            _ => Sign::None,
        }
    }
}

/// Ed25519 PKCS#8 v2 document, fixed so that runs are reproducible bit for bit.
const KEY_PKCS8: &str = "3051020101300506032b657004220420ccca7de7774f637cfc31eb065c31c05a553f186ea189b1beb95972051aaae5178121003edf63caff0192ba3ce098c9e5c8300e5ff0fad262cd33be0933331c8fe9111d";

fn signer(origin: &hickory_proto::rr::Name) -> Result<DnssecSigner, String> {
    let key = if KEY_PKCS8.is_empty() {
        let doc = Ed25519SigningKey::generate_pkcs8().map_err(|e| e.to_string())?;
        Ed25519SigningKey::from_pkcs8(&doc).map_err(|e| e.to_string())?
    } else {
        Ed25519SigningKey::from_pkcs8(&unhex(KEY_PKCS8).into()).map_err(|e| e.to_string())?
    };
    let pubk = key.to_public_key().map_err(|e| e.to_string())?;
    Ok(DnssecSigner::new(DNSKEY::from_key(&pubk), Box::new(key), origin.clone(), Duration::from_secs(86400 * 30)))
}

fn to_record(owner: &Name, t: u16, rd: &[u8]) -> Result<Record, String> {
    let name = hk::to_name(owner)?;
    let mut dec = BinDecoder::new(rd);
    let sub = dec.split_off(rd.len()).map_err(|e| format!("rdata slice: {e}"))?;
    let data = RData::read(sub, RecordType::from(t)).map_err(|e| format!("rdata of type {t}: {e}"))?;
    Ok(Record::from_rdata(name, TTL, data))
}

fn build_catalog(z: &Zone, sign: &Sign) -> Result<Catalog, String> {
    let origin = hk::to_name(&z.apex)?;
    let nx = match sign {
        Sign::None => None,
        Sign::Nsec => Some(NxProofKind::Nsec),
        Sign::Nsec3 { iterations, salt, opt_out } => {
            Some(NxProofKind::Nsec3 { algorithm: Default::default(), salt: Arc::from(salt.clone().into_boxed_slice()), iterations: *iterations, opt_out: *opt_out })
        }
    };
    let mut h: InMemoryZoneHandler<VRuntime> = InMemoryZoneHandler::empty(origin.clone(), ZoneType::Primary, AxfrPolicy::Deny, nx);
    let serial = z
        .rrset(&z.apex, ty::SOA)
        .and_then(|v| refzone::soa_serial_offset(&v[0]).map(|o| u32::from_be_bytes([v[0][o], v[0][o + 1], v[0][o + 2], v[0][o + 3]])))
        .ok_or("zone without SOA")?;
    // SOA first (the handler reads TTL/serial from it), then everything else
    let mut recs = z.records();
    recs.sort_by_key(|(_, t, _)| *t != ty::SOA);
    for (o, t, rd) in &recs {
        let r = to_record(o, *t, rd)?;
        if !h.upsert_mut(r, serial) {
            return Err(format!("hickory refused {} {}", refzone::show(o), refzone::type_name(*t)));
        }
    }
    if *sign != Sign::None {
        h.add_zone_signing_key_mut(signer(&origin)?).map_err(|e| format!("add key: {e}"))?;
        h.secure_zone_mut().map_err(|e| format!("sign zone: {e}"))?;
    }
    let mut cat = Catalog::new();
    cat.upsert(LowerName::from(&origin), vec![Arc::new(h) as Arc<dyn ZoneHandler>]);
    Ok(cat)
}

// ---------------------------------------------------------------------------------------------
// query / response plumbing

#[derive(Clone, Debug)]
struct Query {
    /// labels as sent (possibly mixed case)
    qname: Name,
    qtype: u16,
    /// None: no OPT record; Some(do)
    edns: Option<bool>,
}

impl Query {
    fn do_bit(&self) -> bool {
        self.edns == Some(true)
    }
    fn wire(&self, id: u16) -> Vec<u8> {
        let mut b = Vec::new();
        refwire::put_header(&mut b, &WHeader { id, flags: 0, qd: 1, an: 0, ns: 0, ar: self.edns.is_some() as u16 });
        refwire::put_question(&mut b, &self.qname, self.qtype, 1);
        if let Some(d) = self.edns {
            // OPT: root owner, type 41, class = payload size, ttl = ext-rcode/version/flags
            b.push(0);
            b.extend_from_slice(&ty::OPT.to_be_bytes());
            b.extend_from_slice(&4096u16.to_be_bytes());
            b.extend_from_slice(&[0, 0, if d { 0x80 } else { 0 }, 0]);
            b.extend_from_slice(&0u16.to_be_bytes());
        }
        b
    }
    fn to_json(&self) -> Value {
        json!({"qname": refzone::show(&self.qname), "qtype": refzone::type_name(self.qtype), "edns": self.edns.is_some(), "do": self.do_bit()})
    }
    fn from_json(v: &Value) -> Option<Query> {
        // keep the case of the labels as recorded
        let qname: Name = v["qname"].as_str()?.split('.').filter(|l| !l.is_empty()).map(|l| l.as_bytes().to_vec()).collect();
        let qtype = refzone::type_code(v["qtype"].as_str()?)?;
        let edns = if v["edns"].as_bool().unwrap_or(false) { Some(v["do"].as_bool().unwrap_or(false)) } else { None };
        Some(Query { qname, qtype, edns })
    }
}

fn src() -> SocketAddr {
    "192.0.2.9:5353".parse().unwrap()
}

/// Run one query through the real server path. Ok(list of response messages handed to the handler).
fn ask(rt: &tokio::runtime::Runtime, cat: &Catalog, wire: Vec<u8>) -> Result<Vec<Vec<u8>>, String> {
    let r = mon::catch(|| {
        rt.block_on(async {
            let req = Request::from_bytes(wire, src(), Protocol::Tcp).map_err(|e| format!("request did not parse: {e}"))?;
            let rec = Rec::default();
            cat.handle_request::<_, VTime>(&req, rec.clone()).await;
            let out = std::mem::take(&mut *rec.0.lock().unwrap());
            Ok::<_, String>(out)
        })
    });
    match r {
        Ok(x) => x,
        Err(p) => Err(format!("PANIC {} at {}", p.message, p.site())),
    }
}

/// the projection of a response the oracle looks at
#[derive(Debug, Default)]
struct Obs {
    rcode: u16,
    aa: bool,
    tc: bool,
    /// answer / authority / additional without RRSIG and OPT, names folded, RDATA decompressed
    sec: [Vec<Rr>; 3],
    /// (owner, type covered) per section
    sigs: [Vec<(Name, u16)>; 3],
}

fn canon_rdata(msg: &[u8], r: &WRecord) -> Result<Vec<u8>, String> {
    let raw = r.rdata(msg);
    let end = r.rdata_off + r.rdata_len;
    let name_at = |off: usize| -> Result<(Vec<u8>, usize), String> {
        let (n, next) = refwire::read_name(msg, off)?;
        if next > end {
            return Err("name runs past RDATA".into());
        }
        Ok((refzone::wire_name(&n.labels), next))
    };
    Ok(match r.rtype {
        ty::NS | ty::CNAME | ty::PTR => name_at(r.rdata_off)?.0,
        ty::NSEC => {
            // next domain name (never compressed by a conforming sender; decompressed all the same) + type bitmaps
            let (mut v, o) = name_at(r.rdata_off)?;
            v.extend_from_slice(&msg[o..end]);
            v
        }
        ty::MX => {
            if raw.len() < 3 {
                return Err("short MX".into());
            }
            let mut v = raw[..2].to_vec();
            v.extend(name_at(r.rdata_off + 2)?.0);
            v
        }
        ty::SOA => {
            let (m, o) = name_at(r.rdata_off)?;
            let (rn, o2) = name_at(o)?;
            if o2 + 20 != end {
                return Err("bad SOA length".into());
            }
            let mut v = m;
            v.extend(rn);
            v.extend_from_slice(&msg[o2..end]);
            v
        }
        _ => raw.to_vec(),
    })
}

fn project(msg: &[u8], w: &WMessage) -> Result<Obs, String> {
    let mut o = Obs { rcode: w.header.rcode_low() as u16, aa: w.header.aa(), tc: w.header.tc(), ..Default::default() };
    for (i, s) in w.sections.iter().enumerate() {
        for r in s {
            let owner = refzone::fold(&r.owner.labels);
            if r.rtype == ty::OPT {
                o.rcode |= ((r.ttl >> 24) as u16) << 4;
                continue;
            }
            if r.class != 1 {
                return Err(format!("record of class {}", r.class));
            }
            if r.rtype == ty::RRSIG {
                let rd = r.rdata(msg);
                if rd.len() < 18 {
                    return Err("short RRSIG".into());
                }
                o.sigs[i].push((owner, u16::from_be_bytes([rd[0], rd[1]])));
                continue;
            }
            o.sec[i].push((owner, r.rtype, canon_rdata(msg, r)?));
        }
    }
    Ok(o)
}

fn obs_json(o: &Obs) -> Value {
    let s = |v: &Vec<Rr>| v.iter().map(refzone::show_rr).collect::<Vec<_>>();
    let g = |v: &Vec<(Name, u16)>| v.iter().map(|(n, t)| format!("{} RRSIG({})", refzone::show(n), refzone::type_name(*t))).collect::<Vec<_>>();
    json!({"rcode": o.rcode, "aa": o.aa, "tc": o.tc,
        "answer": s(&o.sec[0]), "authority": s(&o.sec[1]), "additional": s(&o.sec[2]),
        "answer_rrsigs": g(&o.sigs[0]), "authority_rrsigs": g(&o.sigs[1])})
}

// ---------------------------------------------------------------------------------------------
// the oracle

/// If (owner, t, rd) can be explained as wildcard synthesis, the parent P of the deepest `*.P`
/// (P an ancestor of owner) that literally holds (t, rd).
fn synth_parent(z: &Zone, owner: &Name, t: u16, rd: &[u8]) -> Option<Name> {
    let mut k = owner.len();
    while k > z.apex.len() {
        k -= 1;
        let p = refzone::suffix(owner, k);
        if z.has(&refzone::wildcard_of(&p), t, rd) {
            return Some(p);
        }
    }
    None
}

fn dnssec_meta(t: u16) -> bool {
    matches!(t, ty::NSEC | ty::NSEC3 | ty::NSEC3PARAM | ty::DNSKEY)
}

/// same SOA up to the serial (signed zones: hickory bumps the serial by one when signing)
fn soa_matches(z: &Zone, rd: &[u8], signed: bool) -> bool {
    let Some(mine) = z.rrset(&z.apex, ty::SOA).and_then(|v| v.first()) else { return false };
    if mine.as_slice() == rd {
        return true;
    }
    if !signed || mine.len() != rd.len() {
        return false;
    }
    let Some(o) = refzone::soa_serial_offset(mine) else { return false };
    let s = u32::from_be_bytes([mine[o], mine[o + 1], mine[o + 2], mine[o + 3]]).wrapping_add(1);
    let mut bumped = mine.clone();
    bumped[o..o + 4].copy_from_slice(&s.to_be_bytes());
    bumped.as_slice() == rd
}

/// don't-care: SOA serial s+1 in signed zones is mapped back to the zone's SOA
fn normalize_soa(o: &mut Obs, z: &Zone, signed: bool) {
    let Some(mine) = z.rrset(&z.apex, ty::SOA).and_then(|v| v.first()).cloned() else { return };
    for s in o.sec.iter_mut() {
        for r in s.iter_mut() {
            if r.1 == ty::SOA && r.0 == z.apex && soa_matches(z, &r.2, signed) {
                r.2 = mine.clone();
            }
        }
    }
}

/// Structural classification of what a response does *at one name* given the answer-section
/// records not yet accounted for. Uses only zone content, never RefAuth's verdict. Applied to the
/// query name (whole answer section) and to every CNAME target of a chase.
fn observed_step(z: &Zone, name: &Name, t: u16, rest: &[Rr], signed: bool) -> &'static str {
    if rest.is_empty() {
        return "none";
    }
    if t != ty::CNAME {
        if let Some((_, _, rd)) = rest.iter().find(|(ow, tt, _)| ow == name && *tt == ty::CNAME) {
            let literal = z.has(name, ty::CNAME, rd);
            let synth = synth_parent(z, name, ty::CNAME, rd).is_some();
            return match (t == ty::ANY, literal, synth) {
                // ANY: the CNAME is simply one of the node's RRsets (following it is optional)
                (true, true, _) => "answer",
                (true, false, true) => "wildcard-answer",
                (false, true, _) => "cname-chain",
                (false, false, true) => "wildcard-cname",
                _ => "other-answer",
            };
        }
    }
    if rest.iter().all(|(ow, tt, rd)| *tt == ty::NS && z.is_cut(ow) && refzone::is_subdomain(name, ow) && z.has(ow, *tt, rd)) {
        return "referral-ns-in-answer";
    }
    if rest.iter().all(|(ow, tt, rd)| ow == name && (z.has(ow, *tt, rd) || (signed && t == ty::ANY && dnssec_meta(*tt)))) {
        return "answer";
    }
    if rest.iter().all(|(ow, tt, rd)| ow == name && synth_parent(z, name, *tt, rd).is_some()) {
        return "wildcard-answer";
    }
    "other-answer"
}

fn observed_kind(z: &Zone, q: &Name, t: u16, o: &Obs, signed: bool) -> String {
    if o.rcode == 5 {
        return "refused".into();
    }
    if o.rcode != 0 && o.rcode != 3 {
        return format!("rcode-{}", o.rcode);
    }
    if !o.sec[0].is_empty() {
        return observed_step(z, q, t, &o.sec[0], signed).into();
    }
    if o.rcode == 3 {
        return "nxdomain".into();
    }
    let auth = &o.sec[1];
    if auth.iter().any(|(_, tt, _)| *tt == ty::SOA) {
        return "nodata".into();
    }
    if auth.iter().any(|(ow, tt, _)| *tt == ty::NS && *ow != z.apex) {
        return "referral".into();
    }
    "empty".into()
}

/// on the wire the three NODATA flavours look the same
fn wire_kind(k: Kind) -> &'static str {
    match k {
        Kind::Nodata | Kind::WildcardNodata | Kind::EntNodata => "nodata",
        k => k.as_str(),
    }
}

/// The one structural feature of the situation that goes into a signature ("blocking feature"),
/// computed from the zone, the name looked up and the records the response used – first match:
///  1. `existing-name-blocks-wildcard`: the response was synthesised from `*.P` although the name
///     exists or P is not its closest encloser (RFC 4592 §3.3.1);
///  2. `at-cut` / `below-cut` (+ `:ns` `:any` `:ds` `:soa` for the query types servers special-case);
///  3. `qname-asterisk`: the name's leftmost label is `*`, the name does not exist and should have
///     been synthesised like any other (RFC 4592 §2.3: no special processing of `*` in a query);
///  4. `qtype-any`: QTYPE=ANY where data exists;
///  5. `-`.
fn step_feature(z: &Zone, name: &Name, t: u16, ekind: Kind, okind: &str, rest: &[Rr], direct: bool) -> String {
    if okind.starts_with("wildcard-") {
        let used = rest.iter().filter(|(ow, _, _)| ow == name).filter_map(|(_, tt, rd)| synth_parent(z, name, *tt, rd)).next();
        if let Some(p) = used {
            if z.exists(name) || p != z.closest_encloser(name) {
                return "existing-name-blocks-wildcard".into();
            }
        }
    }
    if let Some(cut) = z.covering_cut(name) {
        let pos = if cut == *name { "at-cut" } else { "below-cut" };
        // the query type only matters for the query name itself, not for the targets of a chase
        let cls = match t {
            ty::NS if direct => ":ns",
            ty::ANY if direct => ":any",
            ty::DS if direct => ":ds",
            ty::SOA if direct => ":soa",
            _ => "",
        };
        return format!("{pos}{cls}");
    }
    if matches!(ekind, Kind::WildcardAnswer | Kind::WildcardCname) && refzone::is_wildcard(name) {
        return "qname-asterisk".into();
    }
    if t == ty::ANY && matches!(ekind, Kind::Answer | Kind::WildcardAnswer) {
        return "qtype-any".into();
    }
    "-".into()
}

struct Case<'a> {
    z: &'a Zone,
    /// hash of the zone's canonical encoding (distinct-case counting)
    zhash: u64,
    sign: &'a Sign,
    query: &'a Query,
    /// reference NSEC / NSEC3 chain of the reference zone for this signing mode (adequacy clause:
    /// guards the role table, never compared with hickory's chain)
    refp: &'a adequacy::RefProofs,
    /// the adequacy plan for this (zone, mode, query name, type) and whether the reference chain
    /// can deliver it, when the caller has already computed them (generation loop); None: compute
    pre: Option<&'a Option<(adequacy::Plan, bool)>>,
}

impl Case<'_> {
    fn json(&self) -> Value {
        json!({"zone": self.z.to_json(), "zone_text": self.z.to_text(), "mode": self.sign.to_json(), "query": self.query.to_json(), "query_wire": hex(&self.query.wire(0x1010))})
    }
}

/// what the adequacy clause looked at; turned into JSON only when a witness or sample needs it
struct Denial {
    plan: adequacy::Plan,
    verdict: adequacy::Verdict,
    recs: Vec<adequacy::Rec>,
    unparsed: Vec<String>,
}

impl Denial {
    fn json(&self, hc: &adequacy::HashCache) -> Value {
        let mut dj = adequacy::table_json(&self.plan, &self.verdict, &self.recs, hc);
        dj["records"] = json!(self.recs.iter().map(adequacy::show_rec).collect::<Vec<_>>());
        if !self.unparsed.is_empty() {
            dj["unparsed_records"] = json!(self.unparsed);
        }
        dj
    }
}

struct Verdicts {
    /// (rule, sig, detail)
    v: Vec<(String, String, String)>,
    dontcare: Vec<&'static str>,
    /// evidence counters of the adequacy clause
    counts: Vec<String>,
    /// attached denial records and the role table (adequacy clause), for witnesses and samples
    denial: Option<Denial>,
    /// the oracle caught itself asking for the impossible: the run must not count as a verdict
    oracle_fault: Option<String>,
}

impl Verdicts {
    fn fail(&mut self, rule: &str, sig: impl Into<String>, detail: impl Into<String>) {
        self.v.push((rule.to_string(), sig.into(), detail.into()));
    }
}

fn as_set(v: &[Rr]) -> BTreeSet<Rr> {
    v.iter().cloned().collect()
}

fn show_rrs<'a>(v: impl IntoIterator<Item = &'a Rr>) -> Vec<String> {
    v.into_iter().map(refzone::show_rr).collect()
}

/// Zone-cut and "only genuine zone data" checks for one section.
/// `content`: also require every record to be zone data (off for the answer section, whose content
/// is compared exactly elsewhere).
fn check_section_genuine(c: &Case, sec_idx: usize, o: &Obs, content: bool, out: &mut Verdicts) {
    let z = c.z;
    let signed = *c.sign != Sign::None;
    let sec_name = ["answer", "authority", "additional"][sec_idx];
    for rr in &o.sec[sec_idx] {
        let (ow, tt, rd) = rr;
        if !z.in_zone(ow) {
            out.fail("non-zone-data", format!("{sec_name}|out-of-zone-owner"), refzone::show_rr(rr));
            continue;
        }
        // Statement: "never data from below a cut". RFC 1034 §4.2.1: data below a cut is not part
        // of the zone; glue travels only as address records in the additional section. At the
        // delegation point itself the parent holds NS (non-authoritative), DS and NSEC/NSEC3.
        if z.occluded(ow) || (z.is_delegation(ow) && !matches!(*tt, ty::NS | ty::DS | ty::NSEC | ty::NSEC3)) {
            let glue_ok = sec_idx == 2 && matches!(*tt, ty::A | ty::AAAA) && z.has(ow, *tt, rd);
            if !glue_ok {
                out.fail("below-cut-data", format!("{sec_name}|{}", refzone::type_name(*tt)), refzone::show_rr(rr));
            }
            continue;
        }
        if !content {
            continue;
        }
        let genuine = z.has(ow, *tt, rd)
            || (signed && dnssec_meta(*tt))
            // additional-section processing may go through the normal lookup, incl. wildcards
            || (sec_idx == 2 && synth_parent(z, ow, *tt, rd).is_some());
        if !genuine {
            out.fail("non-zone-data", format!("{sec_name}|{}", refzone::type_name(*tt)), refzone::show_rr(rr));
        }
    }
}

/// Answer section of a CNAME outcome, verified step by step against RefAuth's steps. A deviation
/// at step i ≥ 1 is reported like a deviation for a direct query of that target, under the rule
/// `chain-step-mismatch` with signature `<expected step kind>><observed step>|<feature>`.
fn check_chain(c: &Case, e: &Outcome, o: &Obs, out: &mut Verdicts) {
    let z = c.z;
    let t = e.qtype;
    let signed = *c.sign != Sign::None;
    let mut rest: Vec<Rr> = o.sec[0].clone();
    let long = e.answer_rrsets() > DEPTH_DONTCARE;
    let end = e.chain_end.expect("chain outcome has an end");
    let mut i = 0usize;
    loop {
        let Some(step) = e.steps.get(i) else {
            // the chase ended after the last link (target out of zone / already visited)
            if !rest.is_empty() {
                let last = refzone::cname_target(&e.chain.last().expect("chain has links").2);
                let ok = observed_step(z, &last, t, &rest, signed);
                out.fail("kind-mismatch", format!("{}>{}|-", end.as_str(), ok), format!("records after the end of the chase: {:?}", show_rrs(&rest)));
            }
            break;
        };
        let cur = &step.qname;
        let mismatch = |out: &mut Verdicts, rest: &[Rr], want: &[Rr]| {
            let ok = observed_step(z, cur, t, rest, signed);
            let ok = if ok == wire_kind(step.kind) || (ok == "none" && step.kind.is_negative()) { "different-rrset" } else { ok };
            // a deviation at a CNAME target is the same deviation as for a direct query of that
            // name, so it is reported under the same rule and signature scheme
            let rule = if i == 0 { "answer-mismatch" } else { "kind-mismatch" };
            out.fail(rule, format!("{}>{}|{}", step.kind.as_str(), ok, step_feature(z, cur, t, step.kind, ok, rest, false)), format!("at {} (step {i}): expected {:?}, remaining answer records {:?}", refzone::show(cur), show_rrs(want), show_rrs(rest)));
        };
        match step.kind {
            Kind::CnameChain | Kind::WildcardCname => {
                let link = &step.rrs[0];
                if let Some(pos) = rest.iter().position(|r| r == link) {
                    rest.remove(pos);
                    i += 1;
                } else {
                    if rest.is_empty() && long && i >= 1 {
                        out.dontcare.push("dontcare/chain-truncated-beyond-depth-bound");
                    } else {
                        mismatch(out, &rest, &step.rrs);
                    }
                    return;
                }
            }
            k => {
                let want: &[Rr] = if matches!(k, Kind::Answer | Kind::WildcardAnswer) { &step.rrs } else { &[] };
                if as_set(&rest) == as_set(want) {
                    // fine
                } else if rest.is_empty() && long {
                    out.dontcare.push("dontcare/chain-truncated-beyond-depth-bound");
                } else {
                    mismatch(out, &rest, want);
                    return;
                }
                break;
            }
        }
    }
    // don't-cares about the final name of the chase (see header)
    match end {
        ChainEnd::Nodata | ChainEnd::WildcardNodata | ChainEnd::EntNodata | ChainEnd::Nxdomain => {
            if !o.sec[1].iter().any(|r| r.1 == ty::SOA) {
                out.dontcare.push("dontcare/chain-end-negative-without-soa");
            }
            if o.rcode == 3 {
                out.dontcare.push("dontcare/chain-end-nxdomain-rcode3");
            }
        }
        ChainEnd::Referral => {
            if !o.sec[1].iter().any(|r| r.1 == ty::NS) {
                out.dontcare.push("dontcare/chain-end-referral-without-ns");
            }
        }
        _ => {}
    }
}

fn judge(c: &Case, e: &Outcome, o: &Obs) -> Verdicts {
    let z = c.z;
    let q = &e.qname;
    let t = e.qtype;
    let signed = *c.sign != Sign::None;
    let mut out = Verdicts { v: Vec::new(), dontcare: Vec::new(), counts: Vec::new(), denial: None, oracle_fault: None };

    if o.tc {
        out.fail("truncated", "-", "TC=1 on a stream-sized response");
        return out;
    }
    let okind = observed_kind(z, q, t, o, signed);
    let ekind = wire_kind(e.kind);
    if okind != ekind {
        // RFC 1034 §4.3.2 (steps 2–4), RFC 4592 §3.3 (wildcards: closest encloser / source of
        // synthesis; §2.2 existence incl. empty non-terminals; §4.9), RFC 2308 §2 (negative
        // answers) prescribe `e.kind`; the response has the shape `okind`.
        let sig = format!("{}>{}|{}", e.kind.as_str(), okind, step_feature(z, q, t, e.kind, &okind, &o.sec[0], true));
        out.fail("kind-mismatch", sig, format!("expected {} observed {}", e.kind.as_str(), okind));
        return out;
    }

    // rcode (observed_kind only looked at 0/3/5 coarsely)
    if o.rcode != e.rcode as u16 && Some(o.rcode) != e.alt_rcode.map(|r| r as u16) {
        out.fail("rcode-mismatch", format!("{}|{}", e.kind.as_str(), o.rcode), format!("expected rcode {}", e.rcode));
    }

    if e.kind == Kind::Refused {
        if o.sec.iter().any(|s| !s.is_empty()) {
            out.fail("non-zone-data", "refused-with-records", "REFUSED response carries records");
        }
        return out;
    }

    // AA. RFC 1034 §6.2.6 shows the referral response without AA; RFC 1035 §4.1.1: AA "specifies
    // that the responding name server is an authority for the domain name in question section";
    // RFC 2181 §6.1: NS RRs at a zone cut are not authoritative data of the parent. For a name at
    // or below a cut the server is not an authority.
    if e.kind == Kind::Referral {
        if o.aa {
            out.fail("aa-on-referral", "-", "AA=1 on a referral");
        }
    } else if !o.aa {
        // RFC 1034 §4.3.2 steps 3a/3c: answers and name errors from authoritative data are authoritative
        out.fail("aa-missing", e.kind.as_str(), "AA=0 on an authoritative answer");
    }

    // ---- answer section
    match e.kind {
        Kind::CnameChain | Kind::WildcardCname => check_chain(c, e, o, &mut out),
        Kind::Answer | Kind::WildcardAnswer => {
            let got = as_set(&o.sec[0]);
            let want = as_set(&e.answers);
            if e.any {
                // any non-empty subset of the node's RRsets (signed zones: DNSSEC types too); if the
                // node holds a CNAME the server may also have followed it – whatever else is there
                // must at least be zone data (literal or synthesised)
                let has_cname = e.answers.iter().any(|r| r.1 == ty::CNAME);
                let bad: Vec<&Rr> = got
                    .iter()
                    .filter(|r| {
                        let node_data = want.contains(*r) || (signed && dnssec_meta(r.1) && r.0 == *q);
                        let chased = has_cname && (z.has(&r.0, r.1, &r.2) || synth_parent(z, &r.0, r.1, &r.2).is_some());
                        !(node_data || chased)
                    })
                    .collect();
                if has_cname && got.iter().any(|r| !want.contains(r)) && bad.is_empty() {
                    out.dontcare.push("dontcare/any-cname-followed");
                }
                if got.is_empty() || !bad.is_empty() {
                    out.fail("answer-mismatch", format!("{}>not-a-subset|{}", e.kind.as_str(), step_feature(z, q, t, e.kind, &okind, &o.sec[0], true)), format!("not RRsets of the matched node: {:?}", show_rrs(bad)));
                }
            } else if got != want {
                let class = match (want.difference(&got).count() > 0, got.difference(&want).count() > 0) {
                    (true, true) => "different-rrset",
                    (true, false) => "missing-records",
                    _ => "extra-records",
                };
                out.fail(
                    "answer-mismatch",
                    format!("{}>{class}|{}", e.kind.as_str(), step_feature(z, q, t, e.kind, &okind, &o.sec[0], true)),
                    format!("missing {:?} extra {:?}", show_rrs(want.difference(&got)), show_rrs(got.difference(&want))),
                );
            }
        }
        _ => {
            // kinds agree ⇒ empty already (observed_kind looks at the answer section first)
        }
    }
    let answer_ok = !out.v.iter().any(|(r, _, _)| r == "answer-mismatch" || r == "kind-mismatch");

    // ---- authority section
    if e.soa {
        // RFC 2308 §3: "Name servers authoritative for a zone MUST include the SOA record of the
        // zone in the authority section of the response when reporting an NXDOMAIN or indicating
        // that no data of the requested type exists."
        let soas: Vec<&Rr> = o.sec[1].iter().filter(|r| r.1 == ty::SOA).collect();
        if soas.is_empty() {
            out.fail("soa-missing", e.kind.as_str(), "negative answer without SOA in authority");
        } else if !soas.iter().all(|r| z.has(&r.0, r.1, &r.2)) {
            out.fail("soa-wrong", e.kind.as_str(), format!("{:?}", show_rrs(soas)));
        }
        if o.sec[1].iter().any(|r| r.1 == ty::NS) {
            out.fail("authority-mismatch", format!("{}|ns-in-negative", e.kind.as_str()), "NS records in the authority section of a negative answer");
        }
    }
    let mut referral_ns_ok = true;
    if e.kind == Kind::Referral {
        // RFC 1034 §4.3.2 step 3b: "If a match would take us out of the authoritative data, we
        // have a referral. ... Copy the NS RRs for the subzone into the authority section of the
        // reply." – the NS set of the first cut met going down from the apex, nothing else.
        let got: BTreeSet<Rr> = o.sec[1].iter().filter(|r| r.1 == ty::NS).cloned().collect();
        let want = as_set(&e.ns);
        if got != want {
            referral_ns_ok = false;
            let cut = e.cut.clone().unwrap_or_default();
            // hickory adds the apex NS set to every positive SOA-type answer, referrals included:
            // classify the rest separately so the two deviations keep separate signatures
            let apex_extra = got.iter().any(|r| r.0 == z.apex && !want.contains(r));
            let core: BTreeSet<&Rr> = got.iter().filter(|r| r.0 != z.apex || want.contains(*r)).collect();
            let owners: BTreeSet<&Name> = core.iter().map(|r| &r.0).collect();
            let base = if core.len() == want.len() && core.iter().all(|r| want.contains(*r)) {
                "cut-ns"
            } else if owners.len() == 1 && **owners.iter().next().unwrap() != cut {
                let ow = *owners.iter().next().unwrap();
                if refzone::is_strict_subdomain(ow, &cut) {
                    "deeper-ns-owner"
                } else if refzone::is_strict_subdomain(&cut, ow) {
                    "shallower-ns-owner"
                } else {
                    "unrelated-ns-owner"
                }
            } else {
                "set-differs"
            };
            let class = format!("{base}{}", if apex_extra { "+apex-ns" } else { "" });
            let pos = if cut == *q { "at-cut" } else { "below-cut" };
            out.fail("referral-ns-mismatch", format!("{class}|{pos}"), format!("want {:?} got {:?}", show_rrs(&want), show_rrs(&got)));
        }
        for r in o.sec[1].iter().filter(|r| !matches!(r.1, ty::NS | ty::DS | ty::NSEC | ty::NSEC3)) {
            out.fail("authority-mismatch", format!("referral|{}", refzone::type_name(r.1)), refzone::show_rr(r));
        }
        for r in o.sec[1].iter().filter(|r| r.1 == ty::DS) {
            if !e.ds.contains(r) {
                out.fail("authority-mismatch", "referral|wrong-ds", refzone::show_rr(r));
            }
        }
    }
    // zone cuts / genuine data, unless a more specific rule already explained the section
    if answer_ok {
        check_section_genuine(c, 0, o, false, &mut out);
    }
    if referral_ns_ok {
        check_section_genuine(c, 1, o, true, &mut out);
    }
    check_section_genuine(c, 2, o, true, &mut out);

    // ---- DO=1 on a signed zone (RFC 4035 §3.1.1: RRSIGs accompany every authoritative RRset in
    // answer and authority; §3.1.3: NSEC with No Data / Name Error / wildcard(-no-data) answers;
    // RFC 5155 §7.2 likewise with NSEC3). Presence of RRSIGs; presence and adequacy of the denial.
    // (referrals always carry the AA deviation on this tree; it does not disturb these checks)
    if signed && c.query.do_bit() && out.v.iter().all(|(r, _, _)| r == "aa-on-referral") {
        for i in 0..2 {
            let sec_name = ["answer", "authority"][i];
            let rrsets: BTreeSet<(Name, u16)> = o.sec[i].iter().map(|r| (r.0.clone(), r.1)).collect();
            for (ow, tt) in rrsets {
                if tt == ty::NS && z.is_cut(&ow) {
                    continue; // delegation NS: not authoritative – don't care whether it is signed
                }
                if !o.sigs[i].iter().any(|(n, cov)| *n == ow && *cov == tt) {
                    out.fail("rrsig-missing", format!("{sec_name}|{}|{}", refzone::type_name(tt), e.kind.as_str()), format!("no RRSIG covering {} {}", refzone::show(&ow), refzone::type_name(tt)));
                }
            }
        }
        if e.kind.is_negative() || matches!(e.kind, Kind::WildcardAnswer | Kind::WildcardCname) {
            let want = if *c.sign == Sign::Nsec { ty::NSEC } else { ty::NSEC3 };
            if !o.sec[1].iter().any(|r| r.1 == want) {
                out.fail("denial-missing", format!("{}|{}|{}", e.kind.as_str(), c.sign.tag(), if t == ty::SOA { "qtype-soa" } else { "-" }), format!("no {} record in the authority section", refzone::type_name(want)));
            } else {
                check_adequacy(c, e, o, want, &mut out);
            }
        }
    }
    out
}

/// Adequacy of the denial proof (see `adequacy.rs` for the role table and its don't-cares). Only
/// reached when rcode, answer kind, answer content, SOA and RRSIG presence already agree with
/// RefAuth and at least one NSEC/NSEC3 is present.
fn check_adequacy(c: &Case, e: &Outcome, o: &Obs, want: u16, out: &mut Verdicts) {
    let z = c.z;
    let mode = c.sign.tag();
    let nsec3 = want == ty::NSEC3;
    // the role table must be satisfiable on the reference chain of the reference zone; where it is
    // not (opt-out: a name to be matched exists only because of insecure delegations) nothing is judged
    let (plan, provable) = match c.pre {
        Some(None) => return,
        Some(Some((p, ok))) => (p.clone(), *ok),
        None => {
            let Some(p) = adequacy::plan(z, e, nsec3, c.sign.opt_out(), c.refp) else { return };
            let ok = adequacy::evaluate(&p, &c.refp.recs, &z.apex, &c.refp.hc).ok;
            (p, ok)
        }
    };
    let key = format!("{}|{}", plan.claim, mode);
    if !provable {
        if c.sign.opt_out() {
            out.dontcare.push("dontcare/adequacy-not-provable-under-opt-out");
        } else {
            out.oracle_fault = Some(format!("adequacy role table not satisfiable on the reference chain: {} for {} {}", key, refzone::show(&e.qname), refzone::type_name(e.qtype)));
        }
        return;
    }
    let mut recs: Vec<adequacy::Rec> = Vec::new();
    let mut unparsed: Vec<String> = Vec::new();
    for rr in o.sec[1].iter().filter(|r| r.1 == want) {
        match if nsec3 { adequacy::parse_nsec3(rr) } else { adequacy::parse_nsec(rr) } {
            Ok(r) => recs.push(r),
            Err(err) => {
                out.counts.push("adequacy/unparsed_record".into());
                unparsed.push(format!("{}: {err}", refzone::show_rr(rr)));
            }
        }
    }
    let hc = &c.refp.hc;
    let v = adequacy::evaluate(&plan, &recs, &z.apex, hc);
    out.counts.push(format!("adequacy/eval/{key}"));
    out.counts.push(format!("adequacy/kind/{}|{mode}", e.kind.as_str()));
    out.counts.push("adequacy/evaluations".into());
    out.counts.push(format!("adequacy/records_attached/{}", recs.len().min(4)));
    for (role, _, res) in &v.table {
        match res {
            Ok((_, how)) => {
                out.counts.push(format!("adequacy/role_ok/{role}|{mode}"));
                out.counts.push("adequacy/roles_satisfied".into());
                match how {
                    Some(adequacy::CoverHow::WrapLow) => out.counts.push(format!("adequacy/cover_by_ring_closing_record/before_first_owner|{mode}")),
                    Some(adequacy::CoverHow::WrapHigh) => out.counts.push(format!("adequacy/cover_by_ring_closing_record/after_last_owner|{mode}")),
                    _ => {}
                }
            }
            Err(m) => out.counts.push(format!("adequacy/role_missing/{m}|{mode}")),
        }
    }
    if v.ok {
        out.counts.push(format!("adequacy/ok/{key}"));
        out.counts.push("adequacy/adequate".into());
        if v.alt.is_some_and(|a| a > 0) {
            out.counts.push("adequacy/ok_by_alternative_proof".into());
        }
    } else {
        let roles: Vec<String> = plan.alts[0].iter().map(|r| format!("{}({})", r.role, refzone::show(&r.target))).collect();
        out.fail(
            "denial-inadequate",
            format!("{}|{}|missing={}|{}", plan.claim, mode, v.missing.join(","), if c.sign.opt_out() { "optout" } else { "plain" }),
            format!("the {} records in the authority section do not prove the {}: required {} - not satisfied: {}", refzone::type_name(want), plan.claim, roles.join(" + "), v.missing.join(", ")),
        );
    }
    out.denial = Some(Denial { plan, verdict: v, recs, unparsed });
}

// ---------------------------------------------------------------------------------------------
// driving

/// result of running one query through hickory and the oracle
struct Evaluation {
    /// (rule, sig, detail)
    v: Vec<(String, String, String)>,
    dontcare: Vec<&'static str>,
    okind: String,
    observed: Value,
    obs: Option<Obs>,
    counts: Vec<String>,
    denial: Option<Denial>,
    oracle_fault: Option<String>,
}

fn evaluate(rt: &tokio::runtime::Runtime, cat: &Catalog, c: &Case, e: &Outcome) -> Evaluation {
    let mut ev = Evaluation { v: Vec::new(), dontcare: Vec::new(), okind: String::new(), observed: Value::Null, obs: None, counts: Vec::new(), denial: None, oracle_fault: None };
    let msgs = match ask(rt, cat, c.query.wire(0x1010)) {
        Ok(m) => m,
        Err(err) => {
            let (rule, sig) = if let Some(rest) = err.strip_prefix("PANIC ") {
                ("panic", rest.rsplit(" at ").next().unwrap_or("").to_string())
            } else {
                ("no-response", "request-rejected".to_string())
            };
            ev.observed = json!(err);
            ev.v.push((rule.into(), sig, err));
            return ev;
        }
    };
    if msgs.len() != 1 {
        ev.observed = json!({"responses": msgs.len()});
        ev.v.push(("response-count".into(), format!("{}", msgs.len().min(2)), format!("{} responses", msgs.len())));
        return ev;
    }
    let msg = &msgs[0];
    let signed = *c.sign != Sign::None;
    let obs = refwire::walk(msg).and_then(|w| if w.end != msg.len() { Err(format!("{} trailing bytes", msg.len() - w.end)) } else { project(msg, &w) });
    let obs = match obs {
        Ok(mut o) => {
            normalize_soa(&mut o, c.z, signed);
            o
        }
        Err(err) => {
            ev.observed = json!({"error": err, "hex": hex(msg)});
            ev.v.push(("malformed-response".into(), "walk".into(), err));
            return ev;
        }
    };
    ev.okind = observed_kind(c.z, &e.qname, e.qtype, &obs, signed);
    let verdicts = judge(c, e, &obs);
    ev.v = verdicts.v;
    ev.dontcare = verdicts.dontcare;
    ev.counts = verdicts.counts;
    ev.oracle_fault = verdicts.oracle_fault;
    ev.observed = json!({"kind": ev.okind, "response": obs_json(&obs), "hex": hex(msg)});
    if let (Some(d), false) = (&verdicts.denial, ev.v.is_empty()) {
        ev.observed["denial"] = d.json(&c.refp.hc);
    }
    ev.denial = verdicts.denial;
    ev.obs = Some(obs);
    ev
}

/// at most this many `rep.violation` calls per (rule, sig) and shard; the surplus is only counted
/// (`capped/<rule>|<sig>`). The reporter keeps the first 10 000 violations of a shard with their
/// witness paths – without the cap the flood from the known wildcard deviations would push the first
/// occurrence of any other signature out of that list.
const MAX_REPORTS_PER_SIG: u64 = 25;

struct Runner<'a> {
    rep: &'a mut Reporter,
    rt: tokio::runtime::Runtime,
    reported: std::collections::BTreeMap<String, u64>,
}

impl Runner<'_> {
    /// one query against one built zone: run, decode, judge, record
    fn run_query(&mut self, cat: &Catalog, c: &Case, e: &Outcome) {
        self.rep.breadcrumb(|| json!({"zone": c.z.to_json(), "mode": c.sign.to_json(), "query": c.query.to_json()}));
        self.rep.eval();
        self.rep.count(&format!("kind/{}", e.kind.as_str()));
        if let Some(end) = e.chain_end {
            self.rep.count(&format!("chain_end/{}", end.as_str()));
        }
        self.rep.count(&format!("mode/{}", c.sign.tag()));
        self.rep.count(&format!("qtype/{}", refzone::type_name(e.qtype)));
        let signed = *c.sign != Sign::None;
        if signed {
            self.rep.count("signed_zone_queries");
            if c.query.do_bit() {
                self.rep.count("signed_zone_do1_queries");
            }
        }
        if e.kind != Kind::Refused {
            let mut h = c.zhash.to_le_bytes().to_vec();
            h.extend_from_slice(c.sign.tag().as_bytes());
            h.extend_from_slice(&c.query.wire(0x1010));
            self.rep.nontrivial(fnv64(&h));
        }
        let ev = evaluate(&self.rt, cat, c, e);
        if !ev.okind.is_empty() {
            self.rep.count(&format!("observed/{}", ev.okind));
        }
        for d in &ev.dontcare {
            self.rep.count(d);
        }
        for k in &ev.counts {
            self.rep.count(k);
        }
        if let Some(f) = &ev.oracle_fault {
            self.rep.count("adequacy/oracle_fault");
            self.rep.inconclusive(f);
        }
        if ev.v.is_empty() {
            self.rep.count("agree");
            self.rep.count(&format!("agree/{}", e.kind.as_str()));
            if let Some(obs) = &ev.obs {
                if c.query.do_bit() && signed {
                    self.rep.count("do1_checked");
                    if e.kind.is_negative() || matches!(e.kind, Kind::WildcardAnswer | Kind::WildcardCname) {
                        self.rep.count("do1_denial_present");
                    }
                    if e.kind == Kind::Referral {
                        let has = obs.sec[1].iter().any(|r| matches!(r.1, ty::DS | ty::NSEC | ty::NSEC3));
                        self.rep.count(if has { "info/referral_do1_with_ds_or_denial" } else { "info/referral_do1_without_ds_or_denial" });
                    }
                }
                if e.kind == Kind::Referral && !e.glue.is_empty() {
                    let has = e.glue.iter().any(|g| obs.sec[2].contains(g));
                    self.rep.count(if has { "info/referral_with_glue" } else { "info/referral_glue_omitted" });
                }
                self.rep.sample(|| json!({"mode": c.sign.tag(), "query": c.query.to_json(), "expected_kind": e.kind.as_str(), "observed": obs_json(obs), "denial": ev.denial.as_ref().map(|d| d.json(&c.refp.hc)), "zone_records": c.z.records().len()}));
            }
        }
        for (rule, sig, detail) in ev.v {
            self.rep.count("deviations");
            let n = self.reported.entry(format!("{rule}|{sig}")).or_insert(0);
            *n += 1;
            if *n > MAX_REPORTS_PER_SIG {
                self.rep.count(&format!("capped/{rule}|{sig}"));
                continue;
            }
            let mut exp = e.to_json();
            exp["violated"] = json!(detail);
            self.rep.violation(&rule, &sig, c.json(), exp, ev.observed.clone());
        }
    }
}

fn upper(n: &Name) -> Name {
    n.iter().map(|l| l.to_ascii_uppercase()).collect()
}

/// `--replay FILE minimize=1`: greedily drop records (and signing, EDNS) from the witness' zone while
/// the same (rule, sig) – and nothing new – is still produced; the result is written as a violation
/// file into --out. Tooling for producing small committed witnesses, not part of any verdict.
fn minimize(rt: &tokio::runtime::Runtime, z: &Zone, sign: &Sign, query: &Query, target: &(String, String)) -> (Zone, Sign, Query) {
    let sigs_of = |z: &Zone, sign: &Sign, query: &Query| -> Option<Vec<(String, String)>> {
        let cat = build_catalog(z, sign).ok()?;
        let e = refzone::ref_auth(z, &query.qname, query.qtype);
        let refp = adequacy::RefProofs::build(z, &sign.ref_mode());
        let ev = evaluate(rt, &cat, &Case { z, zhash: 0, sign, query, refp: &refp, pre: None }, &e);
        Some(ev.v.into_iter().map(|(r, s, _)| (r, s)).collect())
    };
    let good = |s: &Option<Vec<(String, String)>>, max: usize| s.as_ref().is_some_and(|v| v.contains(target) && v.len() <= max);
    let mut z = z.clone();
    let mut sign = sign.clone();
    let mut query = query.clone();
    let base = sigs_of(&z, &sign, &query).map(|v| v.len()).unwrap_or(1).max(1);
    // simpler mode / query first
    if sign != Sign::None {
        let q2 = Query { edns: None, qname: refzone::fold(&query.qname), ..query.clone() };
        if good(&sigs_of(&z, &Sign::None, &q2), base) {
            sign = Sign::None;
            query = q2;
        }
    }
    let q2 = Query { qname: refzone::fold(&query.qname), ..query.clone() };
    if good(&sigs_of(&z, &sign, &q2), base) {
        query = q2;
    }
    if sign == Sign::None && query.edns.is_some() {
        let q2 = Query { edns: None, ..query.clone() };
        if good(&sigs_of(&z, &sign, &q2), base) {
            query = q2;
        }
    }
    loop {
        let mut changed = false;
        // whole owners first, then single records
        let owners: Vec<Name> = z.owners().filter(|o| **o != z.apex).cloned().collect();
        for o in owners {
            let mut z2 = z.clone();
            z2.remove_name(&o);
            if good(&sigs_of(&z2, &sign, &query), base) {
                z = z2;
                changed = true;
            }
        }
        for (o, t, rd) in z.records() {
            if o == z.apex && (t == ty::SOA || (t == ty::NS && z.rrset(&o, t).map_or(0, |v| v.len()) == 1)) {
                continue;
            }
            let mut z2 = z.clone();
            if let Some(set) = z2.nodes.get_mut(&refzone::CName(o.clone())).and_then(|s| s.get_mut(&t)) {
                set.retain(|x| *x != rd);
                if set.is_empty() {
                    z2.remove_rrset(&o, t);
                }
            }
            if good(&sigs_of(&z2, &sign, &query), base) {
                z = z2;
                changed = true;
            }
        }
        if !changed {
            break;
        }
    }
    (z, sign, query)
}

fn main() {
    let ctx = Ctx::from_args("C10");
    mon::install_panic_monitor();
    let mut rep = Reporter::new(&ctx);
    // the reference model must agree with the RFCs' own examples before it judges anything
    refzone::selftest();
    adequacy::selftest();
    let rt = tokio::runtime::Builder::new_current_thread().enable_time().build().expect("tokio runtime");

    if ctx.extra.contains_key("genkey") {
        let doc = Ed25519SigningKey::generate_pkcs8().unwrap();
        println!("{}", hex(doc.secret_pkcs8_der()));
        return;
    }

    if let Some(w) = ctx.replay_case() {
        let c = &w["case"];
        let mut z = Zone::from_json(&c["zone"]).unwrap_or_else(|e| {
            eprintln!("bad replay zone: {e}");
            std::process::exit(3)
        });
        let mut sign = Sign::from_json(&c["mode"]);
        let mut query = Query::from_json(&c["query"]).unwrap_or_else(|| {
            eprintln!("bad replay query");
            std::process::exit(3)
        });
        if ctx.extra.contains_key("minimize") {
            let target = (w["rule"].as_str().unwrap_or("").to_string(), w["sig"].as_str().unwrap_or("").to_string());
            (z, sign, query) = minimize(&rt, &z, &sign, &query, &target);
        }
        let cat = build_catalog(&z, &sign).unwrap_or_else(|e| {
            eprintln!("cannot build zone: {e}");
            std::process::exit(3)
        });
        let e = refzone::ref_auth(&z, &query.qname, query.qtype);
        let zhash = fnv64(&z.canonical_bytes());
        let mut r = Runner { rep: &mut rep, rt, reported: Default::default() };
        let refp = adequacy::RefProofs::build(&z, &sign.ref_mode());
        r.run_query(&cat, &Case { z: &z, zhash, sign: &sign, query: &query, refp: &refp, pre: None }, &e);
        rep.replay_finish();
    }

    for k in Kind::ALL {
        rep.must(&format!("kind/{}", k.as_str()), 100);
    }
    // the oracle agreed with hickory at least sometimes for every kind hickory can get right
    rep.must("agree", 10_000);
    rep.must("signed_zone_do1_queries", 10_000);
    rep.must("do1_checked", 10_000);
    rep.must("do1_denial_present", 1000);
    rep.must("mode/nsec", 10_000);
    rep.must("mode/nsec3", 10_000);
    // adequacy clause (quick tier, seeds 1..5, sees >= 10x these numbers)
    rep.must("adequacy/evaluations", 100_000);
    rep.must("adequacy/roles_satisfied", 200_000);
    rep.must("adequacy/adequate", 100_000);
    for mode in ["nsec", "nsec3"] {
        rep.must(&format!("adequacy/kind/nxdomain|{mode}"), 30_000);
        rep.must(&format!("adequacy/kind/nodata|{mode}"), 3_000);
        rep.must(&format!("adequacy/kind/ent-nodata|{mode}"), 3_000);
        rep.must(&format!("adequacy/kind/wildcard-answer|{mode}"), 3_000);
        rep.must(&format!("adequacy/kind/wildcard-cname|{mode}"), 2_000);
        rep.must(&format!("adequacy/kind/wildcard-nodata|{mode}"), 30_000);
        rep.must(&format!("adequacy/role_ok/match-wc|{mode}"), 5_000);
        rep.must(&format!("adequacy/role_ok/cover-wc|{mode}"), 30_000);
        rep.must(&format!("adequacy/role_ok/match-qname|{mode}"), 3_000);
        // covers that only the ring-closing record can provide
        rep.must(&format!("adequacy/cover_by_ring_closing_record/after_last_owner|{mode}"), 8_000);
    }
    rep.must("adequacy/role_ok/cover-qname|nsec", 30_000);
    rep.must("adequacy/role_ok/match-ce|nsec3", 30_000);
    rep.must("adequacy/role_ok/cover-nc|nsec3", 30_000);
    // hashes that sort before the first NSEC3 owner (nothing sorts before the apex in an NSEC chain)
    rep.must("adequacy/cover_by_ring_closing_record/before_first_owner|nsec3", 8_000);

    let mut rng = ctx.rng("zones");
    let cfg = refzone::GenCfg::default();
    let apex = refzone::default_apex();
    let mut qnames = refzone::query_names(&apex, cfg.depth, refzone::FRESH_LABEL);
    qnames.extend(refzone::out_of_zone_names());
    let n_zones = ctx.budget(1600, 100_000);
    let mut r = Runner { rep: &mut rep, rt, reported: Default::default() };
    for zi in 0..n_zones {
        let mut z = refzone::gen_zone(&mut rng, &cfg);
        if zi % 50 == 23 {
            // a zone that consists of its apex only (single-record NSEC / NSEC3 chain)
            let others: Vec<refzone::Name> = z.owners().filter(|o| **o != z.apex).cloned().collect();
            for o in others {
                z.remove_name(&o);
            }
            r.rep.count("apex_only_zones");
        }
        let zhash = fnv64(&z.canonical_bytes());
        r.rep.count("zones");
        r.rep.add("zone_records", z.records().len() as u64);
        if z.owners().any(|o| z.is_cut(o) && z.occluded(o)) {
            r.rep.count("zones_with_nested_ns");
        }
        // expected outcomes once per zone
        let mut exp: Vec<(usize, u16, Outcome)> = Vec::with_capacity(qnames.len() * refzone::QTYPES.len());
        for (qi, qn) in qnames.iter().enumerate() {
            for t in refzone::QTYPES {
                exp.push((qi, t, refzone::ref_auth(&z, qn, t)));
            }
        }
        let nsec3 = Sign::Nsec3 {
            iterations: [0u16, 1, 5][rng.usize_below(3)],
            salt: match rng.below(3) {
                0 => Vec::new(),
                1 => vec![0xab],
                _ => rng.bytes(8),
            },
            opt_out: rng.chance(1, 4),
        };
        for sign in [Sign::None, Sign::Nsec, nsec3] {
            let cat = match build_catalog(&z, &sign) {
                Ok(c) => c,
                Err(err) => {
                    // the generator only emits well-formed zones; a refusal is a harness problem
                    r.rep.inconclusive(&format!("zone {zi} could not be loaded into hickory ({}): {err}", sign.tag()));
                    r.rep.count("zone_build_failed");
                    continue;
                }
            };
            let refp = adequacy::RefProofs::build(&z, &sign.ref_mode());
            // Adequacy plans once per (zone, mode, query name, type), with the oracle's self-check,
            // independent of hickory: whatever the clause may ask for must be deliverable by the
            // reference chain of this zone – also where hickory answers with a different kind and
            // the clause never gets to judge a response.
            let mut pre: Vec<Option<(adequacy::Plan, bool)>> = Vec::with_capacity(exp.len());
            for (_, _, e) in &exp {
                if sign == Sign::None {
                    pre.push(None);
                    continue;
                }
                let Some(plan) = adequacy::plan(&z, e, sign.tag() == "nsec3", sign.opt_out(), &refp) else {
                    pre.push(None);
                    continue;
                };
                let v = adequacy::evaluate(&plan, &refp.recs, &z.apex, &refp.hc);
                r.rep.count("adequacy/selfcheck/plans");
                if v.ok {
                    r.rep.count("adequacy/selfcheck/provable_on_reference_chain");
                } else if sign.opt_out() {
                    r.rep.count("adequacy/selfcheck/not_provable_under_opt_out");
                } else {
                    r.rep.count("adequacy/oracle_fault");
                    r.rep.inconclusive(&format!("adequacy role table not satisfiable on the reference chain: {}|{} missing {:?} for {} {} in zone {}", plan.claim, sign.tag(), v.missing, refzone::show(&e.qname), refzone::type_name(e.qtype), z.to_text().replace('\n', "; ")));
                }
                pre.push(Some((plan, v.ok)));
            }
            for (ei, (qi, t, e)) in exp.iter().enumerate() {
                // DO settings: unsigned: plain queries (1/8 also with DO=1, nothing extra to check);
                // signed: DO=1 always, DO=0 for a quarter
                let pick = rng.below(8);
                let mut variants: Vec<Option<bool>> = Vec::new();
                if sign == Sign::None {
                    variants.push(if pick == 1 { Some(false) } else { None });
                    if pick == 0 {
                        variants.push(Some(true));
                    }
                } else {
                    variants.push(Some(true));
                    if pick < 2 {
                        variants.push(if pick == 0 { None } else { Some(false) });
                    }
                }
                for edns in variants {
                    let qname = if rng.chance(1, 8) { upper(&qnames[*qi]) } else { qnames[*qi].clone() };
                    let query = Query { qname, qtype: *t, edns };
                    r.run_query(&cat, &Case { z: &z, zhash, sign: &sign, query: &query, refp: &refp, pre: Some(&pre[ei]) }, e);
                }
            }
        }
    }

    std::process::exit(rep.finish().min(0));
}
