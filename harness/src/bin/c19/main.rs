//! C19 — recursive resolution ignores out-of-bailiwick data, honours the address filters and
//! always terminates; the stub resolver's alias chasing terminates.
//!
//! Observation points: the value returned by `Recursor::resolve` (Ok message or error payload),
//! the set of (server address, query) datagrams a simulated network saw, and later resolutions
//! on the same recursor (cache). The simulated internet, the territory computation and the
//! address-filter model are independent plain-typed code (world.rs / net.rs / oracle.rs).
//!
//! Oracle clauses (rule ids):
//!  * `poison-returned`            marked record with an owner outside the injector's territory in
//!                                 any section of an Ok message (main query or later probe)
//!  * `poison-returned-in-error`   same, inside the record payload of the returned error
//!  * `poison-used-as-ns-address`  a datagram/TCP connect went to a marker address whose only
//!                                 source is an out-of-bailiwick record
//!  * `server-filter`              a contacted address is denied by allow_server/deny_server
//!  * `answer-filter`              an A/AAAA in ANY section of an Ok message (first resolution, or a
//!                                 later probe served from the cache) is denied by allow/deny_answers;
//!                                 signature = section of the returned message
//!  * `answer-filter-in-error`     same in an error payload; signature = error variant
//!  * `answer-filter-contacted`    a datagram / TCP connect went to an address the answer filter
//!                                 excludes (every address but the root hints was learned from a
//!                                 record of some upstream response, and the filter removes such
//!                                 records from every section of every response); signature =
//!                                 transport | family | how the address is published (referral glue /
//!                                 name-server address lookup / injection only)
//!  * `termination-budget`         more than B = 16 x (recursion_limit + ns_recursion_limit + 64)
//!                                 datagrams for one top-level query
//!  * `termination-alias-depth`    more than recursion_limit + 1 links of a cross-zone alias chain
//!                                 (one upstream query each) were resolved for one top-level query
//!  * `termination-virtual-time`   resolve still pending after one hour of virtual time
//!  * `depth-exact`                limit schedule (depth.rs): on an acyclic alias / glueless chain the
//!                                 resolution got deeper (`over`) or less deep (`under`) than the
//!                                 configured limits admit, or resolved / failed against the model;
//!                                 signature `depth|<graph kind>|limit=<binding limit>|over|under`
//!  * `depth-growth`               limit schedule: upstream datagrams of a cycle family exceed the
//!                                 measured constant, fall when the limit grows, or at limit 255
//!                                 exceed the line through the values at 8 and 24
//!  * `fanout-alias-budget`        hostile CNAME fan-out (fanout.rs): more than MAX_CNAME_LOOKUPS = 64
//!                                 alias targets looked up upstream for one request
//!  * `fanout-budget`              fan-out: more than 2 x (64 + 1) + zone cuts + 8 upstream queries for
//!                                 one request, whatever the number of CNAME records per response
//!  * `fanout-growth`              fan-out: among response sizes whose alias tree exceeds the alias
//!                                 budget the upstream queries grow with the response size; signature
//!                                 of the three `fanout|own=<qname|other>|sec=<layout>|<flat|nested>`
//!  * `stub-alias-budget`          Resolver::lookup needs more than 16 upstream queries
//!  * `panic`                      (includes `depth += 1` overflowing at limit 255)
//!
//! Workloads: generic worlds (gen::generate; every fifth one under a limit pair from
//! {1,2,3,8,24,255}^2), answer-filter worlds (gen::generate_af: filter class x element x section x
//! family x response kind, see gen.rs), limit schedule (depth.rs), hostile CNAME fan-out families
//! (fanout.rs: k CNAME records in one response, k in {2..200}, nested 1..6, any section, TCP after
//! truncation), stub alias chasing (stub.rs); opt-in (`C19_NSFAN=1`): hostile NS fan-out (nsfan.rs,
//! k glueless NS records in one referral - the unchanged tree exceeds `termination-budget` there).
//!
//! Don't-cares (not judged): which error a failing resolution returns; whether a resolution
//! that *could* succeed does succeed (availability is C18's business) - in particular whether an
//! address rescued by allow_answers / permitted by both filters is actually returned or contacted
//! (counted: `af_returned_permitted/*`, `af_contacted_permitted/*`, with must-observe minima so that
//! the silence about denied addresses is known to be the filter's doing); what the filter makes of
//! a response it emptied (NXDOMAIN error or empty Ok message); TTLs; the order and duplication of
//! records; anything an injector says about names inside its own territory (its zone,
//! descendants, and zones whose name-server names live inside it); the root hints are subject to
//! neither filter (never placed in a denied range); in cycle families only the traffic of the
//! first (cold) request is compared over the limits, repeats on warm caches are judged on the
//! generic clauses only.

mod depth;
mod fanout;
mod gen;
mod net;
mod nsfan;
mod oracle;
mod stub;
mod world;

use std::collections::{BTreeMap, BTreeSet};
use std::net::IpAddr;
use std::str::FromStr;
use std::sync::atomic::{AtomicU64, Ordering};
use std::sync::Arc;
use std::time::{Duration, Instant};

use hickory_net::runtime::TokioHandle;
use hickory_net::{DnsError, NetError};
use hickory_proto::op::{Message, Query};
use hickory_proto::rr::{Name, Record, RecordType};
use hickory_resolver::recursor::{QNameMinimization, Recursor, RecursorError, RecursorOptions};
use serde_json::{json, Value};

use vh::mon::{self, Ctx, Reporter};
use vh::prng::fnv64;

use net::{Net, SimRuntime};
use oracle::{addr_class, denied, in_territory, see, territory};
use world::{marker_of_ip, World};

pub static HEARTBEAT: AtomicU64 = AtomicU64::new(0);

fn start_watchdog(limit_s: u64) {
    std::thread::spawn(move || {
        let mut last = HEARTBEAT.load(Ordering::Relaxed);
        let mut since = Instant::now();
        loop {
            std::thread::sleep(Duration::from_millis(500));
            let now = HEARTBEAT.load(Ordering::Relaxed);
            if now != last {
                last = now;
                since = Instant::now();
            } else if since.elapsed().as_secs() >= limit_s {
                eprintln!("C19: per-case wall-clock watchdog fired after {limit_s}s (case #{now}); inconclusive");
                std::process::exit(4);
            }
        }
    });
}

fn rtype_of(t: &str) -> RecordType {
    match t {
        "A" => RecordType::A,
        "AAAA" => RecordType::AAAA,
        "NS" => RecordType::NS,
        "CNAME" => RecordType::CNAME,
        "TXT" => RecordType::TXT,
        "SOA" => RecordType::SOA,
        _ => RecordType::A,
    }
}

fn ipnets(v: &[String]) -> Vec<ipnet::IpNet> {
    v.iter().filter_map(|s| s.parse().ok()).collect()
}

pub(crate) enum Outcome {
    Ok(Message),
    Err(RecursorError),
    VirtualTimeout,
}

pub(crate) struct TopResult {
    pub outcome: Outcome,
    /// upstream messages: datagrams + queries over accepted TCP connections
    pub sent: u64,
    /// datagrams answered TC=1 (each followed by the same query over TCP; fan-out worlds only)
    pub truncated: u64,
    pub cap_hit: bool,
    pub vt_ms: u64,
}

pub(crate) struct WorldRun {
    pub tops: Vec<TopResult>,
    pub net: Net,
}

pub fn budget(w: &World) -> u64 {
    16 * (w.opts.recursion_limit as u64 + w.opts.ns_recursion_limit as u64 + 64)
}

fn run_world(w: &World) -> Result<WorldRun, String> {
    let rt = tokio::runtime::Builder::new_current_thread().enable_time().start_paused(true).build().map_err(|e| e.to_string())?;
    let world = Arc::new(w.clone());
    let net = Net::new(world.clone(), budget(w) + 64);
    let net2 = net.clone();
    let tops = rt.block_on(async move {
        let provider = SimRuntime { handle: TokioHandle::default(), net: net2.clone() };
        let mut o = RecursorOptions::default();
        o.recursion_limit = world.opts.recursion_limit;
        o.ns_recursion_limit = world.opts.ns_recursion_limit;
        o.deny_server = ipnets(&world.opts.deny_server);
        o.allow_server = ipnets(&world.opts.allow_server);
        o.deny_answers = ipnets(&world.opts.deny_answers);
        o.allow_answers = ipnets(&world.opts.allow_answers);
        o.case_randomization = world.opts.case_randomization;
        o.qname_minimization = if world.opts.relaxed_qmin { QNameMinimization::Relaxed } else { QNameMinimization::Strict };
        let roots: Vec<IpAddr> = world.roots.iter().filter_map(|s| s.parse().ok()).collect();
        let rec = Recursor::with_options(&roots, o, provider).map_err(|e| format!("Recursor::with_options: {e}"))?;
        let mut tops = vec![];
        for (i, (name, t)) in world.queries.iter().enumerate() {
            HEARTBEAT.fetch_add(1, Ordering::Relaxed);
            net2.begin_top(i);
            let Ok(n) = Name::from_str(name) else { continue };
            let q = Query::new(n, rtype_of(t));
            let t0 = tokio::time::Instant::now();
            let r = tokio::time::timeout(Duration::from_secs(3600), rec.resolve(q, Instant::now(), false)).await;
            let vt_ms = t0.elapsed().as_millis() as u64;
            let (sent, truncated, cap_hit) = {
                let st = net2.st.lock().unwrap();
                (st.sent_this_top, st.truncated_this_top, st.cap_hit)
            };
            let outcome = match r {
                Ok(Ok(m)) => Outcome::Ok(m),
                Ok(Err(e)) => Outcome::Err(e),
                Err(_) => Outcome::VirtualTimeout,
            };
            tops.push(TopResult { outcome, sent, truncated, cap_hit, vt_ms });
        }
        Ok::<_, String>(tops)
    })?;
    Ok(WorldRun { tops, net })
}

/// records carried by an error value, with the name of the variant that carried them
fn err_records(e: &RecursorError) -> (String, Vec<Record>) {
    let mut v = vec![];
    let var;
    match e {
        RecursorError::Negative(a) => {
            var = "Negative".to_string();
            if let Some(au) = &a.authorities {
                v.extend(au.iter().cloned());
            }
        }
        RecursorError::ForwardNS(list) => {
            var = "ForwardNS".to_string();
            for f in list.iter() {
                v.push(f.ns.clone());
                v.extend(f.glue.iter().cloned());
            }
        }
        RecursorError::Net(NetError::Dns(DnsError::NoRecordsFound(nr))) => {
            var = "Net-NoRecordsFound".to_string();
            if let Some(au) = &nr.authorities {
                v.extend(au.iter().cloned());
            }
            if let Some(ns) = &nr.ns {
                for f in ns.iter() {
                    v.push(f.ns.clone());
                    v.extend(f.glue.iter().cloned());
                }
            }
        }
        other => {
            let s = format!("{other:?}");
            let end = s.find(|c: char| !(c.is_alphanumeric() || c == '_')).unwrap_or(s.len());
            var = s[..end].to_string();
        }
    }
    (var, v)
}

struct InjInfo {
    kind: String,
    section: u8,
    cause_owner: String,
    terr: Vec<String>,
    server: String,
}

fn sec_name(s: u8) -> &'static str {
    gen::SECTIONS[(s as usize).min(2)]
}

/// Judge one executed world. Returns number of violations raised.
fn judge(w: &World, run: &WorldRun, rep: &mut Reporter, widx: u64) {
    let mut info: BTreeMap<u32, InjInfo> = BTreeMap::new();
    for (s, i) in w.all_injections() {
        info.insert(i.m, InjInfo { kind: i.kind.clone(), section: i.section, cause_owner: i.cause_owner.clone(), terr: territory(w, &s.ip), server: s.ip.clone() });
    }
    let b = budget(w);
    let st = run.net.st.lock().unwrap();
    let world_json = w.to_json();
    let world_hash = fnv64(world_json.to_string().as_bytes());
    let mut raised: BTreeSet<String> = BTreeSet::new();
    let loop_tags: Vec<&str> = w.tags.iter().map(|s| s.as_str()).filter(|t| gen::LOOP_KINDS.contains(t)).collect();
    let loop_sig = if !loop_tags.is_empty() {
        loop_tags.join("+")
    } else if w.fan.is_some() {
        "fanout".to_string()
    } else if let Some(t) = w.tags.iter().find(|t| t.starts_with("ns-fanout-")) {
        t.clone()
    } else {
        "none".to_string()
    };

    let viol = |rep: &mut Reporter, raised: &mut BTreeSet<String>, rule: &str, sig: String, top: usize, exp: Value, obs: Value| {
        if !raised.insert(format!("{rule}|{sig}")) {
            return;
        }
        let q = w.queries.get(top).cloned().unwrap_or_default();
        rep.violation(rule, &sig, json!({"world": world_json.clone(), "at_query": top, "query": format!("{} {}", q.0, q.1), "world_index": widx}), exp, obs);
    };

    // deliveries
    for d in &st.delivered {
        if let Some(i) = info.get(&d.m) {
            rep.count(&format!("inj_delivered/{}/{}", sec_name(i.section), i.kind));
        }
    }
    for (k, n) in &st.resp_kinds {
        rep.add(&format!("net_response/{k}"), *n);
    }
    for (k, n) in &st.af_seen {
        rep.add(&format!("af_delivered/{k}"), *n);
        // "<class>/<section>/<kind>" -> per class x section
        let mut it = k.split('/');
        if let (Some(c), Some(sec)) = (it.next(), it.next()) {
            rep.add(&format!("af_class_section/{c}/{sec}"), *n);
        }
    }
    rep.add("net_datagrams", st.log.iter().filter(|c| !c.tcp).count() as u64);
    rep.add("net_tcp_connects", st.log.iter().filter(|c| c.tcp && c.qname.is_empty()).count() as u64);
    if w.fan.is_some() {
        rep.add("net_tcp_queries", st.log.iter().filter(|c| c.tcp && !c.qname.is_empty()).count() as u64);
    }

    let known_ips: BTreeSet<&str> = w.servers.iter().map(|s| s.ip.as_str()).collect();

    for (top, tr) in run.tops.iter().enumerate() {
        rep.eval();
        let (qn, qt) = &w.queries[top];
        // ---- distinct zone depths whose servers were contacted (delegation levels traversed)
        let mut depths: BTreeSet<usize> = BTreeSet::new();
        for c in st.log.iter().filter(|c| c.top == top) {
            if let Some(s) = w.server(&c.ip.to_string()) {
                if let Some(z) = s.zones.first() {
                    depths.insert(world::labels(z).len());
                }
            }
        }
        if depths.len() >= 3 {
            rep.count("tops_ge2_delegation_levels");
            rep.nontrivial(world_hash ^ fnv64(format!("{top}").as_bytes()));
        }
        rep.max("max_datagrams_per_top", tr.sent as f64);
        rep.max("max_virtual_ms_per_top", tr.vt_ms as f64);
        if tr.sent == 0 {
            rep.count("tops_served_from_cache");
        }

        // ---- termination
        if tr.sent > b || tr.cap_hit {
            viol(rep, &mut raised, "termination-budget", loop_sig.clone(), top, json!(format!("<= {b} upstream datagrams for one top-level query")), json!({"datagrams": tr.sent, "query": format!("{qn} {qt}")}));
        }
        // ---- alias depth: the cname-long feature builds a chain c0 -> c1 -> ... whose links
        // alternate between two zones, so every hop needs its own upstream query; the number of
        // distinct links asked for in one top-level query is bounded by recursion_limit
        if w.tags.iter().any(|t| t == "cname-long") {
            let hops: BTreeSet<&str> = st
                .log
                .iter()
                .filter(|c| c.top == top && c.qtype == *qt && c.qname.starts_with('c') && c.qname[1..].split('.').next().map(|d| !d.is_empty() && d.bytes().all(|b| b.is_ascii_digit())).unwrap_or(false))
                .map(|c| c.qname.as_str())
                .collect();
            rep.max("max_alias_links_queried_per_top", hops.len() as f64);
            if hops.len() as u64 > w.opts.recursion_limit as u64 + 1 {
                viol(rep, &mut raised, "termination-alias-depth", "cname-long".to_string(), top, json!(format!("<= recursion_limit + 1 = {} alias links resolved upstream", w.opts.recursion_limit as u64 + 1)), json!({"links_queried": hops.len(), "query": format!("{qn} {qt}")}));
            }
        }
        let check_rec = |rep: &mut Reporter, raised: &mut BTreeSet<String>, r: &Record, outsec: &str, in_error: Option<&str>| {
            let s = see(r);
            if let Some(m) = s.marker {
                if let Some(i) = info.get(&m) {
                    if in_territory(&s.owner, &i.terr) {
                        rep.count("marked_in_bailiwick_records_returned");
                    } else {
                        let (rule, sig) = match in_error {
                            None => ("poison-returned", format!("{}|inj-{}|out-{}", i.kind, sec_name(i.section), outsec)),
                            // one root cause whatever the record kind: the error payload is built from the
                            // raw negative response, so the discriminator is (section, error variant)
                            Some(var) => ("poison-returned-in-error", format!("inj-{}|{}", sec_name(i.section), var)),
                        };
                        viol(
                            rep,
                            raised,
                            rule,
                            sig,
                            top,
                            json!(format!("no record marked by injector {} with an owner outside its territory {:?}", i.server, i.terr)),
                            json!({"record": format!("{} {} {}", s.owner, s.rtype, s.data), "section": outsec, "marker": m}),
                        );
                    }
                } else {
                    rep.count("marked_record_without_injection");
                }
            }
            if let Some(ip) = s.ip {
                if denied(&ip, &w.opts.deny_answers, &w.opts.allow_answers) {
                    let (rule, sig) = match in_error {
                        None => ("answer-filter", format!("out-{outsec}")),
                        Some(var) => ("answer-filter-in-error", var.to_string()),
                    };
                    viol(rep, raised, rule, sig, top, json!({"deny_answers": w.opts.deny_answers, "allow_answers": w.opts.allow_answers}), json!({"record": format!("{} {} {}", s.owner, s.rtype, s.data)}));
                } else if !w.opts.deny_answers.is_empty() {
                    rep.count("addresses_returned_under_answer_filter");
                    let c = addr_class(&ip, &w.opts);
                    if c != "plain" {
                        // permitted classes do come back: the silence about the denied ones is the filter's work
                        rep.count(&format!("af_returned_permitted/{c}/{}", if in_error.is_some() { "error" } else { outsec }));
                    }
                }
            }
        };
        match &tr.outcome {
            Outcome::Ok(m) => {
                rep.count("resolve_ok");
                if !m.answers.is_empty() {
                    rep.count("resolve_ok_with_answer");
                }
                for r in &m.answers {
                    check_rec(rep, &mut raised, r, "answer", None);
                }
                for r in &m.authorities {
                    check_rec(rep, &mut raised, r, "authority", None);
                }
                for r in &m.additionals {
                    check_rec(rep, &mut raised, r, "additional", None);
                }
            }
            Outcome::Err(e) => {
                let (var, recs) = err_records(e);
                rep.count(&format!("resolve_err/{var}"));
                for r in &recs {
                    check_rec(rep, &mut raised, r, "error", Some(&var));
                }
            }
            Outcome::VirtualTimeout => {
                viol(rep, &mut raised, "termination-virtual-time", loop_sig.clone(), top, json!("resolve completes"), json!({"pending_after_virtual_s": 3600, "datagrams": tr.sent}));
            }
        }

        // ---- contacts
        for c in st.log.iter().filter(|c| c.top == top) {
            if denied(&c.ip, &w.opts.deny_server, &w.opts.allow_server) {
                let fam = if c.ip.is_ipv4() { "v4" } else { "v6" };
                let via = if w.tags.iter().any(|t| t == "denied-ns-ooz") { "ns-address-lookup-or-glue" } else { "glue" };
                viol(
                    rep,
                    &mut raised,
                    "server-filter",
                    format!("{}|{fam}|{via}", if c.tcp { "tcp" } else { "udp" }),
                    top,
                    json!({"deny_server": w.opts.deny_server, "allow_server": w.opts.allow_server}),
                    json!({"contacted": c.ip.to_string(), "qname": c.qname, "qtype": c.qtype, "vt_ms": c.vt_ms}),
                );
            } else if !w.roots.contains(&c.ip.to_string()) && (in_net_any(&c.ip, &w.opts.allow_server)) {
                rep.count("contacts_allowed_by_override");
            }
            // ---- the answer filter also decides what may become a name-server address: every
            // address but the root hints was learned from a record of some upstream response
            if !w.opts.deny_answers.is_empty() && !w.roots.contains(&c.ip.to_string()) {
                let class = addr_class(&c.ip, &w.opts);
                if denied(&c.ip, &w.opts.deny_answers, &w.opts.allow_answers) {
                    let fam = if c.ip.is_ipv4() { "v4" } else { "v6" };
                    let ips = c.ip.to_string();
                    // how the address is published: glue next to the delegation, or only under the
                    // name-server name in another zone (address lookup), or only by an injection
                    let mut via = "injected";
                    for z in &w.zones {
                        for r in z.recs.iter().filter(|r| (r.rtype == "A" || r.rtype == "AAAA") && r.data.parse::<IpAddr>().map(|a| a.to_string() == ips).unwrap_or(false)) {
                            let is_glue = z.recs.iter().any(|n| n.rtype == "NS" && n.data == r.owner && n.owner != z.apex);
                            if is_glue {
                                via = "referral-glue";
                            } else if via == "injected" {
                                via = "ns-address-lookup";
                            }
                        }
                    }
                    viol(
                        rep,
                        &mut raised,
                        "answer-filter-contacted",
                        format!("{}|{fam}|{via}", if c.tcp { "tcp" } else { "udp" }),
                        top,
                        json!({"deny_answers": w.opts.deny_answers, "allow_answers": w.opts.allow_answers, "never_contacted": "an address the answer filter removes from every upstream response"}),
                        json!({"contacted": ips, "qname": c.qname, "qtype": c.qtype, "vt_ms": c.vt_ms, "filter_class": class}),
                    );
                } else if class != "plain" {
                    rep.count(&format!("af_contacted_permitted/{class}"));
                }
            }
            if let Some(m) = marker_of_ip(&c.ip) {
                if let Some(i) = info.get(&m) {
                    if in_territory(&i.cause_owner, &i.terr) {
                        rep.count("contacts_to_in_bailiwick_marker_address");
                    } else {
                        // "for-own-zone": the marker address was only ever asked about names the
                        // injector legitimately controls (it gained nothing it could not have had by
                        // lying in bailiwick) - still a record with a foreign owner used as a
                        // name-server address, but kept apart from real cross-zone poisoning
                        let sig = if c.tcp {
                            format!("inj-{}|tcp-connect", sec_name(i.section))
                        } else if in_territory(&c.qname, &i.terr) {
                            format!("inj-{}|for-own-zone", sec_name(i.section))
                        } else {
                            format!("{}|inj-{}|for-foreign-zone", i.kind, sec_name(i.section))
                        };
                        viol(
                            rep,
                            &mut raised,
                            "poison-used-as-ns-address",
                            sig,
                            top,
                            json!(format!("address {} is only published by injector {} in a record owned by {} (outside its territory {:?})", c.ip, i.server, i.cause_owner, i.terr)),
                            json!({"contacted": c.ip.to_string(), "tcp": c.tcp, "qname": c.qname, "qtype": c.qtype, "vt_ms": c.vt_ms}),
                        );
                    }
                }
            } else if !known_ips.contains(c.ip.to_string().as_str()) {
                rep.count("contacts_to_unknown_address");
                rep.note("last_unknown_contact", json!({"ip": c.ip.to_string(), "qname": c.qname, "qtype": c.qtype, "world_index": widx, "tags": w.tags}));
            }
        }
    }
    if std::env::var_os("C19_TRACE").is_some() {
        for (top, tr) in run.tops.iter().enumerate() {
            let res = match &tr.outcome {
                Outcome::Ok(m) => format!("Ok ans={:?} auth={:?} add={:?}", m.answers.iter().map(oracle::text).collect::<Vec<_>>(), m.authorities.iter().map(oracle::text).collect::<Vec<_>>(), m.additionals.iter().map(oracle::text).collect::<Vec<_>>()),
                Outcome::Err(e) => format!("Err {e} {:?}", err_records(e).1.iter().map(oracle::text).collect::<Vec<_>>()),
                Outcome::VirtualTimeout => "virtual timeout".to_string(),
            };
            eprintln!("TOP {top} {:?} sent={} vt={}ms -> {res}", w.queries[top], tr.sent, tr.vt_ms);
            for c in st.log.iter().filter(|c| c.top == top) {
                eprintln!("    {} {} {} {}", c.ip, if c.tcp { "tcp" } else { "udp" }, c.qname, c.qtype);
            }
        }
    }
    for t in &w.tags {
        rep.count(&format!("world_tag/{t}"));
    }
    if w.tags.iter().any(|t| t == "limit-schedule") {
        // limit value x loop kind of the generic worlds
        for t in &loop_tags {
            rep.count(&format!("limit_schedule/{t}/rec={}", w.opts.recursion_limit));
            rep.count(&format!("limit_schedule/{t}/ns={}", w.opts.ns_recursion_limit));
        }
    }
    if st.undecodable_queries > 0 {
        rep.add("net_undecodable_queries", st.undecodable_queries);
    }
}

fn in_net_any(ip: &IpAddr, nets: &[String]) -> bool {
    nets.iter().any(|n| oracle::in_net(ip, n))
}

pub(crate) fn do_world(w: &World, rep: &mut Reporter, widx: u64) -> Option<WorldRun> {
    HEARTBEAT.fetch_add(1, Ordering::Relaxed);
    rep.breadcrumb(|| json!({"world": w.to_json(), "world_index": widx}));
    mon::set_quiet(true);
    let r = mon::catch(|| run_world(w));
    mon::set_quiet(false);
    match r {
        Ok(Ok(run)) => {
            rep.count("worlds");
            judge(w, &run, rep, widx);
            Some(run)
        }
        Ok(Err(e)) => {
            rep.count("world_setup_errors");
            rep.note("last_setup_error", json!(e));
            None
        }
        Err(p) => {
            rep.eval();
            rep.violation("panic", &p.site(), json!({"world": w.to_json(), "world_index": widx}), json!("resolve returns Ok or Err"), json!({"panic": p.message, "at": p.location, "recursion_limit": w.opts.recursion_limit, "ns_recursion_limit": w.opts.ns_recursion_limit}));
            None
        }
    }
}

fn main() {
    // deep-but-bounded recursion is legitimate with limits up to 255: give the (single) working
    // thread a stack that cannot be the reason for an abort
    let t = std::thread::Builder::new().name("c19".into()).stack_size(1 << 30).spawn(real_main).expect("spawn");
    let _ = t.join();
    // real_main exits the process itself; getting here means it panicked (harness bug)
    std::process::exit(101);
}

fn real_main() {
    let ctx = Ctx::from_args("C19");
    mon::install_panic_monitor();
    let mut rep = Reporter::new(&ctx);
    start_watchdog(120);

    if let Some(case) = ctx.replay_case() {
        let c = &case["case"];
        if c.get("stub").is_some() {
            stub::replay(c, &mut rep);
        } else if c.get("depth").is_some() {
            depth::replay(c, &mut rep);
        } else if c.get("fanout").is_some() {
            fanout::replay(c, &mut rep);
        } else if let Some(w) = World::from_json(&c["world"]) {
            let _ = do_world(&w, &mut rep, c["world_index"].as_u64().unwrap_or(0));
        } else {
            eprintln!("C19: replay file has no world");
            std::process::exit(3);
        }
        rep.replay_finish();
    }

    // must-observe (App. B): every injection section x record kind delivered; every loop kind;
    // >= 2 delegation levels; successful resolutions
    for s in gen::SECTIONS {
        for k in gen::KINDS {
            rep.must(&format!("inj_delivered/{s}/{k}"), 20);
        }
    }
    for f in gen::FEATURES {
        rep.must(&format!("world_tag/{f}"), 20);
    }
    rep.must("world_tag/glueless-inzone", 10);
    rep.must("world_tag/ns-ooz-glueless", 20);
    rep.must("tops_ge2_delegation_levels", 1000);
    rep.must("resolve_ok_with_answer", 1000);
    rep.must("tops_served_from_cache", 100);
    rep.must("marked_in_bailiwick_records_returned", 10);
    rep.must("net_response/lame", 100);
    rep.must("net_response/referral", 10_000);
    rep.must("net_response/nxdomain", 1000);
    rep.must("net_response/nodata", 1000);
    rep.must("contacts_allowed_by_override", 50);
    rep.must("addresses_returned_under_answer_filter", 100);
    // answer filter: filter class x section x response kind (thresholds >= 3x below seeds 1..5)
    for s in gen::SECTIONS {
        for k in ["answer", "referral", "nodata", "nxdomain", "answerless"] {
            if !(*s == "answer" && k == "answerless") {
                rep.must(&format!("af_delivered/ans-deny/{s}/{k}"), 200);
            }
        }
        for c in oracle::AF_CLASSES {
            rep.must(&format!("af_class_section/{c}/{s}"), 1000);
        }
        // the permitted classes do get through in every section (so the absence of the denied ones is the filter's doing)
        rep.must(&format!("af_returned_permitted/ans-allow/{s}"), 700);
        rep.must(&format!("af_returned_permitted/srv-deny/{s}"), 700);
    }
    rep.must("af_contacted_permitted/ans-allow", 5000);
    rep.must("net_response/answerless", 3000);
    for t in ["af-v4", "af-v6", "af-glue", "af-glue-ooz", "af-host", "af-moved", "af-markers-denied"] {
        rep.must(&format!("world_tag/{t}"), 2000);
    }
    // limit schedule: limit value x loop kind in the generic worlds, exact-depth cases and cycle families
    for f in gen::LOOP_KINDS {
        for l in gen::LIMIT_VALUES {
            rep.must(&format!("limit_schedule/{f}/rec={l}"), 40);
            rep.must(&format!("limit_schedule/{f}/ns={l}"), 40);
        }
    }
    depth::musts(&mut rep);
    fanout::musts(&mut rep);
    nsfan::musts(&mut rep);
    rep.must("stub_lookups", 100);
    rep.must("stub_loop_lookups", 30);
    rep.must("stub_ok", 30);

    let n = ctx.budget(16_000, 8_000_000);
    let mut rng = ctx.rng("worlds");
    for k in 0..n {
        // global world index: keeps the (kind, section, feature) rotation uniform over shards
        let widx = k * ctx.nshards + ctx.shard;
        let mut r = rng.fork();
        // rotation index for the (kind, section) x feature schedule: every shard walks all combinations
        let w = gen::generate(&mut r, k + ctx.shard * 5);
        if k < 2 {
            let wj = w.to_json();
            rep.sample(|| json!({"world_index": widx, "tags": w.tags, "queries": wj["queries"].clone(), "n_zones": w.zones.len(), "n_servers": w.servers.len()}));
        }
        let _ = do_world(&w, &mut rep, widx);
    }

    // answer-filter worlds: filter class x element x section x family x response kind
    let n = ctx.budget(6_000, 3_000_000);
    let mut rng = ctx.rng("af-worlds");
    for k in 0..n {
        let widx = k * ctx.nshards + ctx.shard;
        let mut r = rng.fork();
        let w = gen::generate_af(&mut r, k + ctx.shard * 7);
        if k < 1 {
            let wj = w.to_json();
            rep.sample(|| json!({"af_world_index": widx, "tags": w.tags, "queries": wj["queries"].clone(), "opts": wj["opts"].clone()}));
        }
        let _ = do_world(&w, &mut rep, widx);
    }

    depth::run(&ctx, &mut rep);

    fanout::run(&ctx, &mut rep);

    // opt-in (C19_NSFAN=1): hostile NS fan-out, see nsfan.rs
    nsfan::run(&ctx, &mut rep);

    stub::run(&ctx, &mut rep);

    std::process::exit(rep.finish().min(0));
}
