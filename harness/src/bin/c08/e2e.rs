//! End-to-end plumbing: a reference zone loaded into hickory's `InMemoryZoneHandler`, signed by
//! hickory with an NSEC chain, served through `Catalog::handle_request`, and validated by the real
//! `DnssecDnsHandle` over an in-process `DnsHandle` that answers every upstream query (the original
//! one, DNSKEY, DS, NS) from that Catalog. Trust anchor = the zone key. One clock for signer and
//! validator (`CLOCK`).
#![allow(dead_code)]

use std::collections::BTreeSet;
use std::future::Future;
use std::io;
use std::net::SocketAddr;
use std::pin::Pin;
use std::sync::atomic::{AtomicU64, Ordering};
use std::sync::{Arc, Mutex};
use std::time::Duration;

use futures::stream::{self, Stream, StreamExt};
use hickory_net::dnssec::DnssecDnsHandle;
use hickory_net::runtime::{RuntimeProvider, Time, TokioRuntimeProvider};
use hickory_net::xfer::{DnsHandle, Protocol};
use hickory_net::{DnsError, NetError};
use hickory_proto::dnssec::crypto::Ed25519SigningKey;
use hickory_proto::dnssec::rdata::{DNSSECRData, DNSKEY};
use hickory_proto::dnssec::{DnssecSigner, Proof, SigningKey, TrustAnchors};
use hickory_proto::op::{DnsRequest, DnsRequestOptions, DnsResponse, Query};
use hickory_proto::rr::{LowerName, RData, Record, RecordType};
use hickory_proto::serialize::binary::{BinDecoder, BinEncodable, BinEncoder};
use hickory_server::dnssec::NxProofKind;
use hickory_server::server::{Request, RequestHandler, ResponseHandler, ResponseInfo};
use hickory_server::store::in_memory::InMemoryZoneHandler;
use hickory_server::zone_handler::{AxfrPolicy, Catalog, MessageResponse, ZoneHandler, ZoneType};

use vh::hk;
use vh::mon::{self, unhex};

use crate::denial::Nsec;
use crate::refzone::{self, ty, Name, Zone};

pub const TTL: u32 = 300;
/// signing time (2001-09-09); the validator runs one hour later
pub const T_SIGN: u64 = 1_000_000_000;
pub static CLOCK: AtomicU64 = AtomicU64::new(T_SIGN);

#[derive(Clone, Copy)]
pub struct VTime;
#[async_trait::async_trait]
impl Time for VTime {
    async fn delay_for(d: Duration) {
        tokio::time::sleep(d).await
    }
    async fn timeout<F: 'static + Future + Send>(d: Duration, f: F) -> Result<F::Output, io::Error> {
        tokio::time::timeout(d, f).await.map_err(|_| io::Error::new(io::ErrorKind::TimedOut, "t"))
    }
    fn current_time() -> u64 {
        CLOCK.load(Ordering::SeqCst)
    }
}

#[derive(Clone)]
pub struct VRuntime(TokioRuntimeProvider);
impl RuntimeProvider for VRuntime {
    type Handle = <TokioRuntimeProvider as RuntimeProvider>::Handle;
    type Timer = VTime;
    type Udp = <TokioRuntimeProvider as RuntimeProvider>::Udp;
    type Tcp = <TokioRuntimeProvider as RuntimeProvider>::Tcp;
    fn create_handle(&self) -> Self::Handle {
        self.0.create_handle()
    }
    fn connect_tcp(&self, _: SocketAddr, _: Option<SocketAddr>, _: Option<Duration>) -> Pin<Box<dyn Send + Future<Output = Result<Self::Tcp, io::Error>>>> {
        Box::pin(async { Err(io::Error::other("no net")) })
    }
    fn bind_udp(&self, _: SocketAddr, _: SocketAddr) -> Pin<Box<dyn Send + Future<Output = Result<Self::Udp, io::Error>>>> {
        Box::pin(async { Err(io::Error::other("no net")) })
    }
}

#[derive(Clone, Default)]
struct Rec(Arc<Mutex<Vec<Vec<u8>>>>);
#[async_trait::async_trait]
impl ResponseHandler for Rec {
    async fn send_response<'a>(
        &mut self,
        response: MessageResponse<
            '_,
            'a,
            impl Iterator<Item = &'a Record> + Send + 'a,
            impl Iterator<Item = &'a Record> + Send + 'a,
            impl Iterator<Item = &'a Record> + Send + 'a,
            impl Iterator<Item = &'a Record> + Send + 'a,
        >,
    ) -> Result<ResponseInfo, NetError> {
        let mut buf = Vec::new();
        let mut enc = BinEncoder::new(&mut buf);
        let info = response.destructive_emit(&mut enc)?;
        self.0.lock().unwrap().push(buf);
        Ok(info)
    }
}

/// Ed25519 PKCS#8 v2 document, fixed so that runs are reproducible bit for bit (same as C10).
const KEY_PKCS8: &str = "3051020101300506032b657004220420ccca7de7774f637cfc31eb065c31c05a553f186ea189b1beb95972051aaae5178121003edf63caff0192ba3ce098c9e5c8300e5ff0fad262cd33be0933331c8fe9111d";

fn signing_key() -> Result<Ed25519SigningKey, String> {
    Ed25519SigningKey::from_pkcs8(&unhex(KEY_PKCS8).into()).map_err(|e| e.to_string())
}

fn to_record(owner: &Name, t: u16, rd: &[u8]) -> Result<Record, String> {
    let name = hk::to_name(owner)?;
    let mut dec = BinDecoder::new(rd);
    let sub = dec.split_off(rd.len()).map_err(|e| format!("rdata slice: {e}"))?;
    let data = RData::read(sub, RecordType::from(t)).map_err(|e| format!("rdata of type {t}: {e}"))?;
    Ok(Record::from_rdata(name, TTL, data))
}

pub fn rdata_record(owner: &Name, t: u16, rd: &[u8]) -> Result<Record, String> {
    to_record(owner, t, rd)
}

pub struct Served {
    pub cat: Arc<Catalog>,
    /// the NSEC chain hickory generated (owner, next, type bitmap), canonical order of owners
    pub chain: Vec<Nsec>,
    pub trust: Arc<TrustAnchors>,
}

/// Load `z` (without DNSKEY; hickory adds its own) into hickory, sign with NSEC, wrap in a Catalog.
pub fn serve(z: &Zone) -> Result<Served, String> {
    CLOCK.store(T_SIGN, Ordering::SeqCst);
    let origin = hk::to_name(&z.apex)?;
    let mut h: InMemoryZoneHandler<VRuntime> = InMemoryZoneHandler::empty(origin.clone(), ZoneType::Primary, AxfrPolicy::Deny, Some(NxProofKind::Nsec));
    let serial = z
        .rrset(&z.apex, ty::SOA)
        .and_then(|v| refzone::soa_serial_offset(&v[0]).map(|o| u32::from_be_bytes([v[0][o], v[0][o + 1], v[0][o + 2], v[0][o + 3]])))
        .ok_or("zone without SOA")?;
    let mut recs = z.records();
    recs.sort_by_key(|(_, t, _)| *t != ty::SOA);
    for (o, t, rd) in &recs {
        if *t == ty::DNSKEY {
            continue;
        }
        let r = to_record(o, *t, rd)?;
        if !h.upsert_mut(r, serial) {
            return Err(format!("hickory refused {} {}", refzone::show(o), refzone::type_name(*t)));
        }
    }
    let key = signing_key()?;
    let pubk = key.to_public_key().map_err(|e| e.to_string())?;
    let mut trust = TrustAnchors::empty();
    trust.insert(&pubk);
    let signer = DnssecSigner::new(DNSKEY::from_key(&pubk), Box::new(key), origin.clone(), Duration::from_secs(86400 * 30));
    h.add_zone_signing_key_mut(signer).map_err(|e| format!("add key: {e}"))?;
    h.secure_zone_mut().map_err(|e| format!("sign zone: {e}"))?;
    let mut chain = Vec::new();
    for rrset in h.records_get_mut().values() {
        if rrset.record_type() != RecordType::NSEC {
            continue;
        }
        for r in rrset.records_without_rrsigs() {
            if let RData::DNSSEC(DNSSECRData::NSEC(n)) = &r.data {
                let types: BTreeSet<u16> = n.type_bit_maps().map(u16::from).collect();
                chain.push(Nsec { owner: refzone::fold(&hk::labels_of(&r.name)), next: refzone::fold(&hk::labels_of(n.next_domain_name())), types });
            }
        }
    }
    chain.sort_by(|a, b| refzone::canonical_cmp(&a.owner, &b.owner));
    let mut cat = Catalog::new();
    cat.upsert(LowerName::from(&origin), vec![Arc::new(h) as Arc<dyn ZoneHandler>]);
    CLOCK.store(T_SIGN + 3600, Ordering::SeqCst);
    Ok(Served { cat: Arc::new(cat), chain, trust: Arc::new(trust) })
}

fn src() -> SocketAddr {
    "192.0.2.9:5353".parse().unwrap()
}

async fn ask_async(cat: &Catalog, wire: Vec<u8>) -> Result<Vec<u8>, String> {
    let req = Request::from_bytes(wire, src(), Protocol::Tcp).map_err(|e| format!("request did not parse: {e}"))?;
    let rec = Rec::default();
    cat.handle_request::<_, VTime>(&req, rec.clone()).await;
    let mut out = std::mem::take(&mut *rec.0.lock().unwrap());
    if out.len() != 1 {
        return Err(format!("{} responses", out.len()));
    }
    Ok(out.pop().unwrap())
}

/// one raw query through the server path (DO=1); the wire response
pub fn ask(rt: &tokio::runtime::Runtime, cat: &Catalog, qname: &Name, qtype: u16) -> Result<Vec<u8>, String> {
    let mut b = Vec::new();
    vh::refwire::put_header(&mut b, &vh::refwire::WHeader { id: 0x0808, flags: 0, qd: 1, an: 0, ns: 0, ar: 1 });
    vh::refwire::put_question(&mut b, qname, qtype, 1);
    b.push(0);
    b.extend_from_slice(&ty::OPT.to_be_bytes());
    b.extend_from_slice(&4096u16.to_be_bytes());
    b.extend_from_slice(&[0, 0, 0x80, 0]);
    b.extend_from_slice(&0u16.to_be_bytes());
    match mon::catch(|| rt.block_on(ask_async(cat, b))) {
        Ok(r) => r,
        Err(p) => Err(format!("PANIC {} at {}", p.message, p.site())),
    }
}

/// upstream of the validator: every query is answered by the Catalog
#[derive(Clone)]
pub struct CatHandle {
    cat: Arc<Catalog>,
    /// (qname, qtype) of every upstream query, for witnesses
    pub log: Arc<Mutex<Vec<(String, u16)>>>,
}

impl DnsHandle for CatHandle {
    type Response = Pin<Box<dyn Stream<Item = Result<DnsResponse, NetError>> + Send>>;
    type Runtime = VRuntime;
    fn send(&self, request: DnsRequest) -> Self::Response {
        let cat = self.cat.clone();
        let log = self.log.clone();
        Box::pin(stream::once(async move {
            let (mut msg, _) = request.into_parts();
            msg.metadata.id = 0x0809;
            if let Some(q) = msg.queries.first() {
                log.lock().unwrap().push((q.name.to_string(), u16::from(q.query_type)));
            }
            let wire = msg.to_bytes().map_err(|e| NetError::from(format!("cannot encode upstream query: {e}")))?;
            let resp = ask_async(&cat, wire).await.map_err(NetError::from)?;
            DnsResponse::from_buffer(resp).map_err(|e| NetError::from(format!("undecodable server response: {e}")))
        }))
    }
}

pub fn validator(s: &Served) -> (DnssecDnsHandle<CatHandle>, CatHandle) {
    let up = CatHandle { cat: s.cat.clone(), log: Default::default() };
    (DnssecDnsHandle::with_trust_anchor(up.clone(), s.trust.clone()), up)
}

#[derive(Debug, Clone)]
pub struct Validated {
    /// Ok(response) from the validator
    pub ok: bool,
    /// "ok", "nsec-proof:<proof>", "error:<kind>"
    pub class: String,
    pub detail: String,
    pub rcode: u16,
    /// (owner, type, proof) of the non-RRSIG records
    pub answers: Vec<(Name, u16, Proof)>,
    pub authority: Vec<(Name, u16, Proof)>,
}

impl Validated {
    /// accepted = returned Ok and every answer/authority record carries a Secure proof
    pub fn accepted(&self) -> bool {
        self.ok && self.answers.iter().chain(self.authority.iter()).all(|(_, _, p)| *p == Proof::Secure)
    }
    pub fn reject_class(&self) -> String {
        if !self.ok {
            return self.class.clone();
        }
        let bad = |v: &Vec<(Name, u16, Proof)>, sec: &str| v.iter().find(|(_, _, p)| *p != Proof::Secure).map(|(_, t, p)| format!("rrset-{p}:{sec}:{}", refzone::type_name(*t)).to_lowercase());
        bad(&self.answers, "answer").or_else(|| bad(&self.authority, "authority")).unwrap_or_else(|| "ok".into())
    }
}

fn proofs(v: &[Record]) -> Vec<(Name, u16, Proof)> {
    v.iter().filter(|r| r.record_type() != RecordType::RRSIG).map(|r| (refzone::fold(&hk::labels_of(&r.name)), u16::from(r.record_type()), r.proof)).collect()
}

pub fn validate(rt: &tokio::runtime::Runtime, v: &DnssecDnsHandle<CatHandle>, qname: &Name, qtype: u16) -> Result<Validated, mon::PanicRecord> {
    let name = hk::to_name(qname).expect("qname");
    let q = Query::new(name, RecordType::from(qtype));
    mon::catch(|| {
        let r = rt.block_on(async { v.lookup(q, DnsRequestOptions::default()).next().await });
        match r {
            Some(Ok(resp)) => Validated { ok: true, class: "ok".into(), detail: String::new(), rcode: u16::from(resp.response_code), answers: proofs(&resp.answers), authority: proofs(&resp.authorities) },
            Some(Err(NetError::Dns(DnsError::Nsec { proof, response, .. }))) => Validated {
                ok: false,
                class: format!("nsec-proof:{proof}").to_lowercase(),
                detail: format!("validator: denial proof judged {proof}"),
                rcode: u16::from(response.response_code),
                answers: proofs(&response.answers),
                authority: proofs(&response.authorities),
            },
            Some(Err(e)) => {
                let s = e.to_string();
                let kind: String = s.chars().take_while(|c| c.is_alphanumeric() || *c == ' ' || *c == '_').take(40).collect();
                Validated { ok: false, class: format!("error:{}", kind.trim().replace(' ', "-")).to_lowercase(), detail: s.chars().take(200).collect(), rcode: 0xffff, answers: vec![], authority: vec![] }
            }
            None => Validated { ok: false, class: "error:empty-stream".into(), detail: String::new(), rcode: 0xffff, answers: vec![], authority: vec![] },
        }
    })
}
