//! The C18 oracle: judges one scenario execution (history checker over the recorded upstream
//! events + the callers' observed results and virtual completion times).
//!
//! Rule ids (one per clause of the statement):
//!   deadline       (i)   a caller's lookup completes ≤ timeout (+1 ms) after it started
//!   wrong-answer   (ii)  an Ok / NXDOMAIN result carries the marker of an exchange that really
//!                        happened for that query on a slot scripted to give that reply; never a
//!                        TC=1 message when the same server's TCP slot is scripted to answer
//!   availability   (iii) conservative: every server is "fast answering" (every configured slot
//!                        answers, directly or via truncated-UDP→TCP, within timeout/2), "failing at
//!                        once" (io error / refused connect / untrusted NXDOMAIN with zero delay,
//!                        Busy back-pressure) or "trusted NXDOMAIN at once", and ≥ 1 is fast
//!                        ⇒ the result is an answer (or the trusted NXDOMAIN)
//!   tc-retry             a server that replied TC=1 is not asked over UDP again in the same lookup
//!   nx-untrusted   (iv)  a lookup that ends with the NXDOMAIN of an untrusted server has tried
//!                        every server first (the NXDOMAIN did not end the search)
//!   sharing        (v)   callers that start while an identical lookup is in flight complete at
//!                        the same instant with the same outcome; k callers cause exactly the
//!                        upstream exchanges of one caller with the same script; no caller gets a
//!                        result received before the shared lookup it took part in started; a
//!                        later identical query reaches upstream again
//!   panic / stuck / runaway  harness-level safety nets
//!
//! Don't-cares (never judged):
//!   * which healthy server wins, and the order servers are tried in;
//!   * scenarios in which anything consumes time without answering (timeouts, delayed errors,
//!     delayed NXDOMAIN, slow answers > timeout/2) are judged on (i), (ii), (iv), (v) only;
//!   * a server that is Busy k times and then answers is accepted as the source of an answer
//!     (ii) but nothing is demanded from it (iii): it counts as "failing at once";
//!   * after a truncated reply the pool stops using UDP for this lookup; UDP-only servers are then
//!     skipped even if scripted to answer — not judged (a truncated server whose TCP slot does not
//!     answer takes the scenario out of (iii); (iv) accepts the skip);
//!   * which error is reported when no server answers;
//!   * a TC=1 message handed to the caller when no TCP answer is scripted for that server;
//!   * a caller that starts at the very instant an identical lookup completes may join it or not;
//!   * once a caller that *created* a shared lookup cancels, sharing is no longer judged for that
//!     key (the creator's drop guard legitimately removes the entry while waiters still run).

use std::collections::{BTreeMap, BTreeSet};

use serde_json::{json, Value};
use vh::mon::{self, Reporter};
use vh::prng::fnv64;

use crate::scn::{Beh, Scenario, Server};
use crate::sim::{self, pname, CallRes, Ev, Kind, Outcome, RunOut};

#[derive(Clone, Copy, PartialEq, Debug)]
enum Class {
    Fast,
    Instant,
    TrustedNx,
    Other,
}

fn slot_instant(b: &Beh, half: u64) -> bool {
    match b {
        Beh::IoErr { d: 0, .. } | Beh::ConnFail { d: 0 } | Beh::Nx { d: 0 } => true,
        Beh::Busy { d, .. } => *d <= half,
        _ => false,
    }
}

fn classify(s: &Server, timeout: u64) -> Class {
    let half = timeout / 2;
    let fast = match (&s.udp, &s.tcp) {
        (Some(Beh::Answer { d }), None) | (None, Some(Beh::Answer { d })) => *d <= half,
        (Some(Beh::Answer { d: a }), Some(Beh::Answer { d: b })) => *a <= half && *b <= half,
        (Some(Beh::Trunc { d: a }), Some(Beh::Answer { d: b })) => a + b <= half,
        _ => false,
    };
    if fast {
        return Class::Fast;
    }
    if s.slots().count() > 0 && s.slots().all(|(_, b)| slot_instant(b, half)) {
        let has_nx = s.slots().any(|(_, b)| matches!(b, Beh::Nx { .. }));
        return if has_nx && s.trust_nx { Class::TrustedNx } else { Class::Instant };
    }
    Class::Other
}

fn upstream(k: Kind) -> bool {
    matches!(k, Kind::Send | Kind::Connect | Kind::ConnectFail)
}

fn ev_json(e: &Ev) -> Value {
    json!({"t_us": e.t, "ev": e.kind.name(), "server": e.server, "proto": pname(e.proto), "q": e.q, "seq": e.seq, "driven_by_caller": e.caller})
}

fn call_json(c: &CallRes) -> Value {
    json!({"caller": c.idx, "q": c.q, "start_us": c.start, "end_us": c.end, "outcome": c.outcome.text()})
}

fn observed(out: &RunOut, c: &CallRes) -> Value {
    json!({
        "caller": call_json(c),
        "all_callers": out.calls.iter().chain(out.later.iter()).map(call_json).collect::<Vec<_>>(),
        "upstream_log": out.log.iter().take(80).map(ev_json).collect::<Vec<_>>(),
    })
}

fn outcome_kind(scn: &Scenario, out: &RunOut, o: &Outcome) -> String {
    match o {
        Outcome::Ok { tc: true, .. } => "ok-tc".into(),
        Outcome::Ok { .. } => "ok".into(),
        Outcome::Nx { seq } => {
            let trusted = out
                .log
                .iter()
                .find(|e| e.kind == Kind::ReplyNx && e.seq == *seq)
                .and_then(|e| scn.servers.get(e.server))
                .map(|s| s.trust_nx);
            match trusted {
                Some(true) => "nx-trusted".into(),
                Some(false) => "nx-untrusted".into(),
                None => "nx-unknown".into(),
            }
        }
        Outcome::Err(k) => format!("err-{}", k.split('(').next().unwrap_or(k)),
        Outcome::Cancelled => "cancelled".into(),
    }
}

/// same outcome, ignoring nothing: the shared result is literally one value cloned to all
fn same_outcome(a: &Outcome, b: &Outcome) -> bool {
    a == b
}

struct Judge<'a> {
    rep: &'a mut Reporter,
    scn: &'a Scenario,
    case: Value,
}

impl<'a> Judge<'a> {
    fn viol(&mut self, rule: &str, sig: &str, expected: Value, observed: Value) {
        self.rep.violation(rule, sig, self.case.clone(), expected, observed);
    }

    /// clauses (i)–(iv) + freshness for one completed (non-cancelled) lookup; `win` = [start, end]
    /// of the shared execution this caller was part of; `members` = indices of all callers that
    /// took part in it (every upstream event is tagged with the caller that was driving the shared
    /// future, so the events of this lookup are exactly those tagged with a member). `None` =
    /// attribution impossible (overlapping lookups of one key after a creator cancelled): events
    /// are then taken by key and time window and the log-order clauses are skipped.
    fn lookup(&mut self, out: &RunOut, c: &CallRes, win: (u64, u64), members: Option<&[usize]>) {
        let scn = self.scn;
        let t_us = scn.timeout * 1000;
        self.rep.eval();
        let okind = outcome_kind(scn, out, &c.outcome);
        self.rep.count(&format!("outcome_{okind}"));
        let exact = members.is_some();
        let evs: Vec<&Ev> = out
            .log
            .iter()
            .filter(|e| {
                e.q == c.q as i32
                    && match members {
                        Some(m) => e.caller >= 0 && m.contains(&(e.caller as usize)),
                        None => e.t >= win.0 && e.t <= win.1,
                    }
            })
            .collect();

        // ---- (i) deadline
        let elapsed = c.end - c.start;
        self.rep.max("max_elapsed_over_timeout", elapsed as f64 / t_us as f64);
        if elapsed > t_us + 1000 && !exact {
            // the overrun cannot be classified — not judged (rare)
            self.rep.count("dc_deadline_unjudged_after_creator_cancel");
        } else if elapsed > t_us + 1000 {
            // What was the pool doing when the deadline passed?
            let dl = win.0 + t_us;
            let starts = || evs.iter().filter(|e| matches!(e.kind, Kind::Send | Kind::ConnectStart));
            // (`< win.1`: at the completion instant only zero-time activity can still start)
            let late_start = starts().any(|e| e.t >= dl && e.t < win.1);
            let in_flight = starts().any(|e| {
                e.t < dl
                    && !evs.iter().any(|r| {
                        r.seq == e.seq
                            && r.t <= dl
                            && match e.kind {
                                Kind::Send => !matches!(r.kind, Kind::Send | Kind::ConnectStart | Kind::Connect | Kind::ConnectFail),
                                _ => matches!(r.kind, Kind::Connect | Kind::ConnectFail),
                            }
                    })
            });
            let class = if late_start {
                "exchange-started-after-deadline"
            } else if in_flight {
                "exchange-in-flight-at-deadline"
            } else {
                "idle-at-deadline"
            };
            let over = if elapsed <= 2 * t_us { "overrun-le-1x-timeout" } else { "overrun-gt-1x-timeout" };
            self.viol(
                "deadline",
                &format!("{class}|{over}"),
                json!(format!("lookup completes within timeout {} ms (+1 ms) of virtual time", scn.timeout)),
                json!({"elapsed_us": elapsed, "detail": observed(out, c)}),
            );
        }

        // ---- (ii) no wrong answer (+ freshness, part of (v))
        match &c.outcome {
            Outcome::Ok { server, proto, q, seq, tc, marker, .. } => {
                let slot = scn.servers.get(*server as usize).and_then(|s| s.slot(*proto));
                let reply = out.log.iter().find(|e| e.seq == *seq && matches!(e.kind, Kind::ReplyAnswer | Kind::ReplyTrunc));
                let mut bad: Option<&str> = None;
                if !*marker || slot.is_none() {
                    bad = Some("unknown-marker");
                } else if *q != c.q {
                    bad = Some("answer-for-other-query");
                } else if *tc {
                    let tcp_answers = matches!(
                        scn.servers[*server as usize].tcp,
                        Some(Beh::Answer { .. }) | Some(Beh::Busy { .. }) | Some(Beh::Trunc { .. })
                    );
                    if tcp_answers {
                        bad = Some("tc-message-returned|tcp-answer-scripted");
                    } else {
                        self.rep.count("dc_tc_returned_no_tcp_answer");
                    }
                } else {
                    let answering = match slot.unwrap() {
                        Beh::Answer { d } | Beh::Busy { d, .. } => *d < scn.timeout,
                        Beh::Trunc { d } => *proto == 2 && *d < scn.timeout,
                        _ => false,
                    };
                    if !answering {
                        bad = Some("marker-of-non-answering-slot");
                    }
                }
                if bad.is_none() {
                    match reply {
                        Some(e) if e.server == *server as usize && e.proto == *proto && e.q == c.q as i32 => {
                            if if exact { !evs.iter().any(|x| x.seq == e.seq && x.kind == e.kind) } else { e.t < win.0 } {
                                self.viol(
                                    "sharing",
                                    "stale-result",
                                    json!("a caller's result comes from an exchange of the (shared) lookup it took part in, not from one that completed before"),
                                    json!({"reply_t_us": e.t, "detail": observed(out, c)}),
                                );
                            }
                        }
                        _ => bad = Some("marker-seq-not-in-log"),
                    }
                }
                if let Some(sig) = bad {
                    self.viol(
                        "wrong-answer",
                        sig,
                        json!("Ok result carries the marker of an exchange on a slot scripted to answer this query; no TC=1 message when a TCP answer is scripted"),
                        observed(out, c),
                    );
                }
            }
            Outcome::Nx { seq } => {
                let reply = out.log.iter().find(|e| e.seq == *seq && e.kind == Kind::ReplyNx);
                match reply {
                    Some(e) if e.q == c.q as i32 && matches!(scn.servers.get(e.server).and_then(|s| s.slot(e.proto)), Some(Beh::Nx { .. })) => {
                        if if exact { !evs.iter().any(|x| x.seq == e.seq && x.kind == e.kind) } else { e.t < win.0 } {
                            self.viol(
                                "sharing",
                                "stale-result",
                                json!("a caller's result comes from an exchange of the (shared) lookup it took part in, not from one that completed before"),
                                json!({"reply_t_us": e.t, "detail": observed(out, c)}),
                            );
                        }
                    }
                    _ => self.viol(
                        "wrong-answer",
                        "nxdomain-of-unknown-origin",
                        json!("an NXDOMAIN result stems from a server scripted to answer NXDOMAIN for this query"),
                        observed(out, c),
                    ),
                }
            }
            _ => {}
        }

        // ---- truncated UDP reply is retried over TCP: within one lookup, a server that sent TC=1
        // is never asked over UDP again (judged once per shared lookup, on its creator)
        if exact && c.start == win.0 {
            for (i, e) in evs.iter().enumerate() {
                if e.kind != Kind::ReplyTrunc {
                    continue;
                }
                if let Some(again) = evs[i + 1..].iter().find(|f| f.kind == Kind::Send && f.server == e.server && f.proto == 1) {
                    self.viol(
                        "tc-retry",
                        "udp-again-to-truncating-server",
                        json!("after a TC=1 reply the same server is retried over TCP, not over UDP, within the same lookup"),
                        json!({"truncated_reply": ev_json(e), "udp_again": ev_json(again), "detail": observed(out, c)}),
                    );
                    break;
                }
            }
        }

        // ---- (iii) availability, conservative form
        let classes: Vec<Class> = scn.servers.iter().map(|s| classify(s, scn.timeout)).collect();
        if classes.iter().all(|c| *c != Class::Other) && classes.iter().any(|c| *c == Class::Fast) {
            self.rep.count("avail_applicable");
            let any_trusted_nx = classes.iter().any(|c| *c == Class::TrustedNx);
            let good = okind == "ok" || (any_trusted_nx && okind == "nx-trusted");
            if !good {
                // structural discriminator: what came back, and whether a truncation was involved
                let tc = evs.iter().any(|e| e.kind == Kind::ReplyTrunc);
                self.viol(
                    "availability",
                    &format!("got={okind}{}", if tc { "|after-truncation" } else { "" }),
                    json!("all other servers fail without consuming time and one server answers within timeout/2 ⇒ the lookup returns an answer"),
                    observed(out, c),
                );
            }
        }

        // ---- (iv) an untrusted NXDOMAIN does not end the search
        if okind == "nx-untrusted" {
            self.rep.count("nx_untrusted_final");
            // without exact attribution (a creator cancelled: the shared lookup this caller joined
            // may have started before the caller's own window) any earlier TC=1 for this key counts
            let tc_seen = if exact {
                evs.iter().any(|e| e.kind == Kind::ReplyTrunc)
            } else {
                out.log.iter().any(|e| e.kind == Kind::ReplyTrunc && e.q == c.q as i32 && e.t <= win.1)
            };
            for (i, s) in scn.servers.iter().enumerate() {
                let attempted = if exact {
                    evs.iter().any(|e| upstream(e.kind) && e.server == i)
                } else {
                    out.log.iter().any(|e| upstream(e.kind) && e.server == i && e.q == c.q as i32 && e.t <= win.1)
                };
                let udp_only = s.tcp.is_none();
                if !attempted && !(udp_only && tc_seen) {
                    let cl = match classify(s, scn.timeout) {
                        Class::Fast => "answering-server",
                        _ => "other-server",
                    };
                    self.viol(
                        "nx-untrusted",
                        &format!("search-ended-with-untried-{cl}"),
                        json!("an NXDOMAIN from a server not trusted for negative answers ends the search only after every server was tried"),
                        json!({"untried_server": i, "detail": observed(out, c)}),
                    );
                    break;
                }
            }
        }
    }
}

fn counts(log: &[Ev], upto: u64) -> BTreeMap<(String, usize, u8), u64> {
    let mut m = BTreeMap::new();
    for e in log.iter().filter(|e| upstream(e.kind) && e.t <= upto) {
        *m.entry((e.kind.name().to_string(), e.server, e.proto)).or_insert(0) += 1;
    }
    m
}

fn counts_json(m: &BTreeMap<(String, usize, u8), u64>) -> Value {
    Value::Array(m.iter().map(|((k, s, p), n)| json!({"ev": k, "server": s, "proto": pname(*p), "n": n})).collect())
}

/// Run and judge one scenario.
pub fn judge(rep: &mut Reporter, scn: &Scenario) {
    let case = scn.to_json();
    if scn.nontrivial() {
        rep.nontrivial(fnv64(scn.canonical().as_bytes()));
    }
    rep.count("scenarios");
    let out = match mon::catch(|| sim::run(scn, &scn.callers, scn.later)) {
        Ok(o) => o,
        Err(p) => {
            rep.eval();
            rep.violation("panic", &p.site(), case, json!("no panic"), json!({"message": p.message, "location": p.location}));
            return;
        }
    };
    let mut j = Judge { rep, scn, case };
    if out.stuck {
        j.rep.eval();
        j.viol("stuck", "no-completion-within-100x-timeout", json!("every lookup completes"), json!({"upstream_log": out.log.iter().take(80).map(ev_json).collect::<Vec<_>>()}));
        return;
    }
    if out.runaway {
        j.rep.eval();
        j.viol(
            "runaway",
            "exchange-budget-exhausted",
            json!(format!("a scenario needs far fewer than {} upstream exchanges", sim::EXCHANGE_LIMIT)),
            json!({"upstream_log_head": out.log.iter().take(40).map(ev_json).collect::<Vec<_>>()}),
        );
        return;
    }

    // ---- observations (what the workload actually exercised)
    let strat = scn.strat.name();
    let mut kinds = BTreeSet::new();
    for e in &out.log {
        if !matches!(e.kind, Kind::Send | Kind::Connect | Kind::ConnectStart) {
            kinds.insert(e.kind.name());
        }
    }
    for k in kinds {
        j.rep.count(&format!("beh_{k}_{strat}"));
    }
    j.rep.add("upstream_exchanges", out.log.iter().filter(|e| e.kind == Kind::Send).count() as u64);
    j.rep.count(&format!("servers_{}", scn.servers.len()));
    j.rep.count(&format!("conc_{}", scn.conc));
    let mut tc_retry = false;
    let mut nx_skipped = false;
    for e in &out.log {
        match e.kind {
            Kind::ReplyTrunc => {
                if out.log.iter().any(|f| f.kind == Kind::Send && f.server == e.server && f.proto == 2 && f.q == e.q && f.t >= e.t && f.seq > e.seq) {
                    tc_retry = true;
                }
            }
            Kind::ReplyNx if !scn.servers[e.server].trust_nx => {
                if out.log.iter().any(|f| f.kind == Kind::Send && f.server != e.server && f.q == e.q && f.t >= e.t && f.seq > e.seq) {
                    nx_skipped = true;
                }
            }
            _ => {}
        }
    }
    if tc_retry {
        j.rep.count("tc_then_tcp_retry");
    }
    if nx_skipped {
        j.rep.count("untrusted_nx_skipped");
    }
    j.rep.sample(|| {
        json!({"case": scn.to_json(), "results": out.calls.iter().chain(out.later.iter()).map(call_json).collect::<Vec<_>>(), "upstream_events": out.log.len()})
    });

    // ---- shared lookups ("epochs") per key: who created, who joined (inferred from the observed
    // start/end instants); clauses (i)-(iv) per caller; (v) outcome part
    struct Epoch<'c> {
        creator: &'c CallRes,
        members: Vec<usize>,
        joiners: Vec<&'c CallRes>,
    }
    let mut tainted_any = false;
    let mut epoch0_members: Vec<usize> = Vec::new();
    for key in scn.keys() {
        let mut calls: Vec<&CallRes> = out.calls.iter().filter(|c| c.q == key).collect();
        calls.sort_by_key(|c| (c.start, c.idx));
        let mut epochs: Vec<Epoch> = Vec::new();
        let mut unattributed: Vec<&CallRes> = Vec::new();
        let mut tainted = false;
        for c in calls {
            if tainted {
                if c.outcome != Outcome::Cancelled {
                    unattributed.push(c);
                }
                continue;
            }
            let joins = match epochs.last() {
                Some(ep) => {
                    let e = ep.creator.end;
                    if c.start < e {
                        true
                    } else if c.start == e {
                        j.rep.count("dc_start_at_completion_instant");
                        c.end == e && same_outcome(&c.outcome, &ep.creator.outcome)
                    } else {
                        false
                    }
                }
                None => false,
            };
            if joins {
                let ep = epochs.last_mut().unwrap();
                ep.members.push(c.idx);
                ep.joiners.push(c);
            } else if c.outcome == Outcome::Cancelled {
                // a creator that cancels: don't-care from here on (module comment)
                tainted = true;
                tainted_any = true;
                j.rep.count("dc_creator_cancelled");
            } else {
                epochs.push(Epoch { creator: c, members: vec![c.idx], joiners: Vec::new() });
            }
        }
        for ep in &epochs {
            let cr = ep.creator;
            let (s, e) = (cr.start, cr.end);
            j.lookup(&out, cr, (s, e), Some(&ep.members));
            for c in &ep.joiners {
                let cancel_at = c.cancel.map(|ms| c.start + ms * 1000);
                match cancel_at {
                    Some(ca) if ca < e => j.rep.count("joiner_cancelled_in_flight"),
                    Some(ca) if ca == e => j.rep.count("dc_cancel_at_completion_instant"),
                    _ => {
                        j.rep.eval();
                        j.rep.count("sharing_joiners");
                        if c.end != e || !same_outcome(&c.outcome, &cr.outcome) {
                            let sig = if c.end != e { "joiner-completion-time-differs" } else { "joiner-outcome-differs" };
                            j.viol(
                                "sharing",
                                sig,
                                json!({"all callers of an in-flight identical lookup complete with it": call_json(cr)}),
                                observed(&out, c),
                            );
                        }
                        if c.outcome != Outcome::Cancelled {
                            j.lookup(&out, c, (s, e), Some(&ep.members));
                        }
                    }
                }
            }
        }
        for c in unattributed {
            // (ii)-(iv) on its own time window, by key
            j.lookup(&out, c, (c.start, c.end), None);
        }
        if let Some(ep) = epochs.first() {
            if ep.creator.idx == 0 {
                epoch0_members = ep.members.clone();
            }
        }
    }

    // ---- later identical query: reaches upstream again (active-request map emptied)
    if let Some(l) = &out.later {
        j.lookup(&out, l, (l.start, l.end), Some(&[l.idx]));
        j.rep.eval();
        let n = out.log.iter().filter(|e| upstream(e.kind) && e.caller == l.idx as i32).count();
        if n == 0 {
            j.viol(
                "sharing",
                "later-query-no-upstream-exchange",
                json!("after a shared lookup completed, a later identical query causes a new upstream exchange"),
                observed(&out, l),
            );
        } else {
            j.rep.count("later_query_new_exchange");
        }
    }

    // ---- (v) count part: k callers of one key ≡ one caller with the same script
    let single_key = scn.keys().len() == 1;
    let c0_plain = scn.callers.first().map(|c| c.at == 0 && c.cancel.is_none()).unwrap_or(false);
    if single_key && scn.callers.len() >= 2 && c0_plain && !tainted_any {
        let solo = match mon::catch(|| sim::run(scn, &scn.callers[..1], false)) {
            Ok(o) => o,
            Err(_) => return,
        };
        if solo.stuck || solo.runaway || solo.calls.is_empty() || out.calls.is_empty() {
            return;
        }
        let c0 = &out.calls[0];
        let s0 = &solo.calls[0];
        let e0 = c0.end;
        if epoch0_members.first() != Some(&0) {
            return;
        }
        // a caller starting at the very completion instant may or may not have driven the shared
        // future at that instant: attribution of zero-time events is ambiguous, skip
        if out.calls.iter().skip(1).any(|c| c.start == e0) {
            j.rep.count("dc_start_at_completion_instant_count_skipped");
            return;
        }
        j.rep.eval();
        j.rep.count("sharing_count_compared");
        if epoch0_members.len() > 1 {
            j.rep.count("sharing_count_compared_with_joiners");
        }
        let mine: Vec<Ev> = out.log.iter().filter(|e| e.caller >= 0 && epoch0_members.contains(&(e.caller as usize))).cloned().collect();
        let cm = counts(&mine, u64::MAX);
        let cs = counts(&solo.log, u64::MAX);
        let same_res = c0.end == s0.end && same_outcome(&c0.outcome, &s0.outcome);
        if cm != cs || !same_res {
            let more = cm.iter().any(|(k, n)| cs.get(k).copied().unwrap_or(0) < *n);
            let sig = if cm != cs {
                if more {
                    "more-upstream-exchanges-than-one-caller"
                } else {
                    "fewer-upstream-exchanges-than-one-caller"
                }
            } else {
                "first-caller-result-differs-from-one-caller"
            };
            j.viol(
                "sharing",
                sig,
                json!({"one caller alone": {"result": call_json(s0), "upstream": counts_json(&cs)}}),
                json!({"k callers": {"result": call_json(c0), "upstream_until_first_completion": counts_json(&cm)}, "detail": observed(&out, c0)}),
            );
        } else {
            // diagnostics only: same events at the same virtual instants?
            let tm: Vec<(u64, usize, u8)> = mine.iter().filter(|e| e.kind == Kind::Send).map(|e| (e.t, e.server, e.proto)).collect();
            let ts: Vec<(u64, usize, u8)> = solo.log.iter().filter(|e| e.kind == Kind::Send).map(|e| (e.t, e.server, e.proto)).collect();
            if tm != ts {
                j.rep.count("note_sharing_same_counts_different_times");
            }
        }
    }
}
