//! Simulated internet for the validating-recursor observation point (layout copied from the C19
//! check's `net.rs`): a `RuntimeProvider` whose UDP sockets hand every datagram to ONE authoritative
//! responder per zone (`World::auth`: iterative answers built from the reference zone data and the
//! reference signer), with the tamper layer of `fault.rs` at the responder boundary and a log of
//! every exchange. TCP connects are refused (responses are never truncated: the recursor is given
//! an EDNS payload size of 4096 and every response is checked against it). The validator's clock is
//! the harness clock of `vrt` (signature windows are judged on it); timers run on tokio's paused clock.
#![allow(dead_code)]

use std::collections::VecDeque;
use std::future::Future;
use std::io;
use std::net::{IpAddr, Ipv4Addr, Ipv6Addr, SocketAddr};
use std::pin::Pin;
use std::sync::atomic::Ordering;
use std::sync::{Arc, Mutex};
use std::task::{Context, Poll, Waker};
use std::time::Duration;

use hickory_net::runtime::{DnsTcpStream, DnsUdpSocket, RuntimeProvider, Time, TokioHandle};
use hickory_proto::op::Message;
use serde_json::{json, Value};

use vh::hk;
use vh::refwire::{put_header, put_question, put_record, WHeader};

use crate::fault::{self, Attacker, Env, Fault};
use crate::refzone::{self, fold, is_subdomain, show, ty, Name};
use crate::upstream::Exchange;
use crate::vrt;
use crate::world::{Resp, World, SEC_AN, SEC_AR, SEC_NS};

pub const PAYLOAD: usize = 4096;

// ---------------------------------------------------------------------------------------------
// faults at the responder boundary

/// A fault of `fault.rs` bound to the authoritative server (zone apex) whose responses it rewrites;
/// `server == None`: whichever server answers the (qname, qtype) of its primitives.
#[derive(Clone, Debug, PartialEq)]
pub struct RFault {
    pub server: Option<Name>,
    pub fault: Fault,
}

impl RFault {
    pub fn any(fault: Fault) -> RFault {
        RFault { server: None, fault }
    }
    pub fn at(server: &Name, fault: Fault) -> RFault {
        RFault { server: Some(server.clone()), fault }
    }
    pub fn to_json(&self) -> Value {
        json!({"server": self.server.as_ref().map(|s| show(s)), "fault": self.fault.to_json()})
    }
    pub fn from_json(v: &Value) -> Option<RFault> {
        Some(RFault { server: v["server"].as_str().map(refzone::name), fault: Fault::from_json(&v["fault"])? })
    }
}

// ---------------------------------------------------------------------------------------------
// the authoritative servers

#[derive(Clone, Debug)]
pub struct AuthExchange {
    /// apex of the zone that answered
    pub server: Name,
    pub zone: usize,
    pub ip: IpAddr,
    pub ex: Exchange,
}

pub struct AuthState {
    pub faults: Vec<RFault>,
    pub log: Vec<AuthExchange>,
    pub cap: usize,
    pub cap_hit: bool,
    pub oversize: u64,
    pub tcp_connects: u64,
    pub undecodable_queries: u64,
    pub unrouted: u64,
}

pub struct AuthNet {
    pub world: Arc<World>,
    pub attacker: Arc<Attacker>,
    /// address -> zones served there (a name server address shared by several zones serves them all)
    pub hosts: Vec<(IpAddr, Vec<usize>)>,
    pub st: Mutex<AuthState>,
}

fn ip_of(t: u16, rd: &[u8]) -> Option<IpAddr> {
    match (t, rd.len()) {
        (ty::A, 4) => Some(IpAddr::V4(Ipv4Addr::new(rd[0], rd[1], rd[2], rd[3]))),
        (ty::AAAA, 16) => {
            let mut a = [0u8; 16];
            a.copy_from_slice(rd);
            Some(IpAddr::V6(Ipv6Addr::from(a)))
        }
        _ => None,
    }
}

impl AuthNet {
    pub fn new(world: Arc<World>, attacker: Arc<Attacker>, cap: usize) -> AuthNet {
        let t = &world.truth;
        let mut hosts: Vec<(IpAddr, Vec<usize>)> = Vec::new();
        for (zi, z) in t.zones.iter().enumerate() {
            for rd in z.full.rrset(&z.apex, ty::NS).cloned().unwrap_or_default() {
                let target = refzone::cname_target(&rd);
                let hz = t.zone_of_name(&target);
                for at in [ty::A, ty::AAAA] {
                    for a in t.zones[hz].full.rrset(&target, at).cloned().unwrap_or_default() {
                        let Some(ip) = ip_of(at, &a) else { continue };
                        match hosts.iter_mut().find(|h| h.0 == ip) {
                            Some(h) => {
                                if !h.1.contains(&zi) {
                                    h.1.push(zi)
                                }
                            }
                            None => hosts.push((ip, vec![zi])),
                        }
                    }
                }
            }
        }
        AuthNet { world, attacker, hosts, st: Mutex::new(AuthState { faults: Vec::new(), log: Vec::new(), cap, cap_hit: false, oversize: 0, tcp_connects: 0, undecodable_queries: 0, unrouted: 0 }) }
    }

    /// addresses of the root zone's name servers (the recursor's hints)
    pub fn roots(&self) -> Vec<IpAddr> {
        self.hosts.iter().filter(|h| h.1.contains(&0)).map(|h| h.0).collect()
    }

    pub fn shared_addresses(&self) -> usize {
        self.hosts.iter().filter(|h| h.1.len() > 1).count()
    }

    pub fn begin_step(&self, faults: Vec<RFault>) {
        let mut st = self.st.lock().unwrap();
        st.faults = faults;
        st.log.clear();
        st.cap_hit = false;
    }

    pub fn take_log(&self) -> (Vec<AuthExchange>, bool) {
        let mut st = self.st.lock().unwrap();
        (std::mem::take(&mut st.log), st.cap_hit)
    }

    /// which of the zones served at `ip` answers (qname, qtype): the deepest one enclosing the name,
    /// the parent side for DS at a zone apex when the parent is served here as well
    fn answering_zone(&self, ip: IpAddr, qname: &Name, qtype: u16) -> Option<usize> {
        let t = &self.world.truth;
        let served = &self.hosts.iter().find(|h| h.0 == ip)?.1;
        let mut best: Option<usize> = None;
        for &zi in served {
            if is_subdomain(qname, &t.zones[zi].apex) && best.map_or(true, |b| t.zones[zi].apex.len() > t.zones[b].apex.len()) {
                best = Some(zi);
            }
        }
        let zi = best.or_else(|| served.first().copied())?;
        if qtype == ty::DS && *qname == t.zones[zi].apex {
            if let Some(p) = t.zones[zi].parent {
                if served.contains(&p) {
                    return Some(p);
                }
            }
        }
        Some(zi)
    }

    /// one query at one server address: honest authoritative answer, tamper layer, log
    pub fn respond(&self, ip: IpAddr, qname: &Name, qtype: u16, dnssec: bool) -> Option<Resp> {
        let Some(zi) = self.answering_zone(ip, qname, qtype) else {
            self.st.lock().unwrap().unrouted += 1;
            return None; // nobody listens there
        };
        let w = &self.world;
        let server = w.truth.zones[zi].apex.clone();
        let honest = w.auth(zi, qname, qtype, dnssec);
        let mut st = self.st.lock().unwrap();
        if st.log.len() >= st.cap {
            st.cap_hit = true;
            return None;
        }
        let faults: Vec<Fault> = st.faults.iter().filter(|f| f.server.as_ref().map_or(true, |s| *s == server)).map(|f| f.fault.clone()).collect();
        let h = &w.truth.hier;
        let presented = if faults.is_empty() { honest.clone() } else { fault::apply(&faults, qname, qtype, &honest, &Env { attacker: &self.attacker, zones: &w.truth.zones, inception: h.inception, expiration: h.expiration }) };
        st.log.push(AuthExchange { server, zone: zi, ip, ex: Exchange { qname: qname.clone(), qtype, dnssec, honest, presented: presented.clone(), decodable: true } });
        Some(presented)
    }
}

/// wire form of an authoritative response: id and question echoed, AA as computed, RD/RA clear,
/// OPT (payload 4096, DO echoed) when the query carried one
pub fn wire_auth(id: u16, qname_exact: &[Vec<u8>], qtype: u16, qclass: u16, r: &Resp, edns_do: Option<bool>) -> Vec<u8> {
    let mut b = Vec::new();
    let n = |s: u8| r.recs.iter().filter(|x| x.sec == s).count() as u16;
    let flags: u16 = 0x8000 | if r.aa { 0x0400 } else { 0 } | (r.rcode as u16 & 0xf);
    put_header(&mut b, &WHeader { id, flags, qd: 1, an: n(SEC_AN), ns: n(SEC_NS), ar: n(SEC_AR) + u16::from(edns_do.is_some()) });
    put_question(&mut b, qname_exact, qtype, qclass);
    for s in [SEC_AN, SEC_NS, SEC_AR] {
        for x in r.recs.iter().filter(|x| x.sec == s) {
            put_record(&mut b, &x.owner, x.rtype, x.class, x.ttl, &x.rdata);
        }
    }
    if let Some(d) = edns_do {
        put_record(&mut b, &[], 41, PAYLOAD as u16, if d { 0x8000 } else { 0 }, &[]);
    }
    b
}

// ---------------------------------------------------------------------------------------------
// runtime provider

#[derive(Clone, Copy)]
pub struct VTime;
#[async_trait::async_trait]
impl Time for VTime {
    async fn delay_for(d: Duration) {
        tokio::time::sleep(d).await
    }
    async fn timeout<F: 'static + Future + Send>(d: Duration, f: F) -> Result<F::Output, io::Error> {
        tokio::time::timeout(d, f).await.map_err(|_| io::Error::new(io::ErrorKind::TimedOut, "timeout"))
    }
    fn current_time() -> u64 {
        vrt::CLOCK.load(Ordering::SeqCst)
    }
}

pub struct NoTcp;
impl futures::io::AsyncRead for NoTcp {
    fn poll_read(self: Pin<&mut Self>, _: &mut Context<'_>, _: &mut [u8]) -> Poll<io::Result<usize>> {
        Poll::Ready(Ok(0))
    }
}
impl futures::io::AsyncWrite for NoTcp {
    fn poll_write(self: Pin<&mut Self>, _: &mut Context<'_>, _: &[u8]) -> Poll<io::Result<usize>> {
        Poll::Ready(Err(io::Error::new(io::ErrorKind::BrokenPipe, "no tcp")))
    }
    fn poll_flush(self: Pin<&mut Self>, _: &mut Context<'_>) -> Poll<io::Result<()>> {
        Poll::Ready(Ok(()))
    }
    fn poll_close(self: Pin<&mut Self>, _: &mut Context<'_>) -> Poll<io::Result<()>> {
        Poll::Ready(Ok(()))
    }
}
impl DnsTcpStream for NoTcp {
    type Time = VTime;
}

pub struct SimUdp {
    net: Arc<AuthNet>,
    inbox: Mutex<VecDeque<(Vec<u8>, SocketAddr)>>,
    waker: Mutex<Option<Waker>>,
}

#[async_trait::async_trait]
impl DnsUdpSocket for SimUdp {
    type Time = VTime;
    fn poll_recv_from(&self, cx: &mut Context<'_>, buf: &mut [u8]) -> Poll<io::Result<(usize, SocketAddr)>> {
        match self.inbox.lock().unwrap().pop_front() {
            Some((d, src)) => {
                let n = d.len().min(buf.len());
                buf[..n].copy_from_slice(&d[..n]);
                Poll::Ready(Ok((n, src)))
            }
            None => {
                *self.waker.lock().unwrap() = Some(cx.waker().clone());
                Poll::Pending
            }
        }
    }
    fn poll_send_to(&self, _cx: &mut Context<'_>, buf: &[u8], target: SocketAddr) -> Poll<io::Result<usize>> {
        // the query is read with hickory's decoder: it is hickory's own datagram, not under test here
        let q = match Message::from_vec(buf) {
            Ok(q) if !q.queries.is_empty() => q,
            _ => {
                self.net.st.lock().unwrap().undecodable_queries += 1;
                return Poll::Ready(Ok(buf.len()));
            }
        };
        let exact = hk::labels_of(&q.queries[0].name);
        let qname = fold(&exact);
        let qtype = u16::from(q.queries[0].query_type);
        let qclass = u16::from(q.queries[0].query_class);
        let edns_do = q.edns.as_ref().map(|e| e.flags().dnssec_ok);
        if let Some(resp) = self.net.respond(target.ip(), &qname, qtype, edns_do.unwrap_or(false)) {
            let bytes = wire_auth(q.metadata.id, &exact, qtype, qclass, &resp, edns_do);
            if bytes.len() > PAYLOAD {
                self.net.st.lock().unwrap().oversize += 1;
            }
            self.inbox.lock().unwrap().push_back((bytes, target));
            if let Some(w) = self.waker.lock().unwrap().take() {
                w.wake();
            }
        }
        Poll::Ready(Ok(buf.len()))
    }
}

#[derive(Clone)]
pub struct SimRuntime {
    pub handle: TokioHandle,
    pub net: Arc<AuthNet>,
}

impl RuntimeProvider for SimRuntime {
    type Handle = TokioHandle;
    type Timer = VTime;
    type Udp = SimUdp;
    type Tcp = NoTcp;
    fn create_handle(&self) -> TokioHandle {
        self.handle.clone()
    }
    fn connect_tcp(&self, _server: SocketAddr, _: Option<SocketAddr>, _: Option<Duration>) -> Pin<Box<dyn Send + Future<Output = Result<NoTcp, io::Error>>>> {
        self.net.st.lock().unwrap().tcp_connects += 1;
        Box::pin(async { Err(io::Error::new(io::ErrorKind::ConnectionRefused, "simnet: no tcp")) })
    }
    fn bind_udp(&self, _local: SocketAddr, _server: SocketAddr) -> Pin<Box<dyn Send + Future<Output = Result<SimUdp, io::Error>>>> {
        let net = self.net.clone();
        Box::pin(async move { Ok(SimUdp { net, inbox: Default::default(), waker: Default::default() }) })
    }
}
