//! C18, second observation point ("full stack"): the real `NameServerPool<FsRuntime>` over hickory's
//! OWN connection layer — `impl<P: RuntimeProvider> ConnectionProvider for P`
//! (`connection_provider.rs`, which hands `options.connect_timeout` / `options.timeout` /
//! `max_active_requests` to `TcpClientStream::exchange` / `UdpClientStream::builder`), `NameServer`
//! connection reuse, `UdpClientStream` (retransmissions, per-request timeout), `TcpClientStream` +
//! `DnsMultiplexer` + `DnsExchange` — driven through scripted *sockets*.
//!
//! `FsRuntime` is a `RuntimeProvider` whose timer is tokio time (current-thread runtime,
//! `start_paused(true)`: deterministic virtual time), whose `bind_udp` yields scripted datagram
//! sockets and whose `connect_tcp` RECORDS the `wait_for` it is handed and yields scripted
//! in-memory byte streams (2-byte length framing). Every event at the socket boundary is logged
//! with its virtual time (`FEv`); `fullo.rs` judges results + log.
//!
//! This file: scenario data (self-contained JSON, `"mode":"full"`), the seeded generator, the
//! scripted sockets and the runner.

use std::cell::Cell;
use std::collections::{HashMap, VecDeque};
use std::future::Future;
use std::io;
use std::net::{IpAddr, SocketAddr};
use std::pin::Pin;
use std::sync::{Arc, Mutex};
use std::task::{Context, Poll, Waker};
use std::time::Duration;

use futures::future::join_all;
use futures::stream::{self, Stream, StreamExt};
use hickory_net::runtime::{DnsTcpStream, DnsUdpSocket, RuntimeProvider, Time, TokioHandle};
use hickory_net::xfer::{DnsHandle, RetryDnsHandle};
use hickory_net::NetError;
use hickory_proto::op::{DnsRequest, DnsRequestOptions, DnsResponse, Message, OpCode, Query, ResponseCode};
use hickory_proto::rr::rdata::{A, SOA};
use hickory_proto::rr::{Name, RData, Record, RecordType};
use hickory_resolver::config::{NameServerConfig, ResolverOpts, ServerOrderingStrategy};
use hickory_resolver::{NameServer, NameServerPool, PoolContext, TlsConfig};
use serde_json::{json, Value};
use tokio::time::Instant;
use vh::prng::Rng;

use crate::scn::Strat;
use crate::sim::{classify, Outcome};

/// safety valve: a scenario needs a few dozen datagrams / TCP queries at most
pub const SEND_LIMIT: u32 = 3000;

// ---------------------------------------------------------------------------------------------
// scenario

/// scripted behaviour of a server's UDP port (delays: virtual ms after the datagram was sent;
/// every datagram — also hickory's retransmissions — is treated the same way)
#[derive(Clone, Debug, PartialEq)]
pub enum UdpBeh {
    Answer { d: u64 },
    /// TC=1 reply
    Trunc { d: u64 },
    Nx { d: u64 },
    /// datagrams vanish
    Silent,
    /// `send_to` fails at once (network unreachable)
    SendErr,
    /// `recv_from` fails after `d` (ICMP port unreachable → ECONNREFUSED)
    RecvErr { d: u64 },
}

/// scripted behaviour of a TCP connect
#[derive(Clone, Debug, PartialEq)]
pub enum Conn {
    /// established after `c` (if `c` exceeds the `wait_for` handed to `connect_tcp` the attempt
    /// fails with TimedOut after `wait_for`, exactly like `TokioRuntimeProvider::connect_tcp`)
    Ok { c: u64 },
    /// RST after `c` (same rule for `c > wait_for`)
    Refused { c: u64 },
    /// SYNs vanish: TimedOut after `wait_for`
    Hang,
}

/// scripted reaction of an established TCP connection to each query (delays after the query's
/// last byte was written)
#[derive(Clone, Debug, PartialEq)]
pub enum Reply {
    Answer { l: u64 },
    Nx { l: u64 },
    Silent,
    /// orderly close (FIN) after `l`, no reply
    Close { l: u64 },
    /// RST after `l`, no reply
    Reset { l: u64 },
}

#[derive(Clone, Debug, PartialEq)]
pub struct TcpBeh {
    pub conn: Conn,
    pub reply: Reply,
}

impl UdpBeh {
    pub fn text(&self) -> String {
        match self {
            UdpBeh::Answer { d } => format!("answer:{d}"),
            UdpBeh::Trunc { d } => format!("trunc:{d}"),
            UdpBeh::Nx { d } => format!("nx:{d}"),
            UdpBeh::Silent => "silent".into(),
            UdpBeh::SendErr => "senderr".into(),
            UdpBeh::RecvErr { d } => format!("recverr:{d}"),
        }
    }
    pub fn parse(s: &str) -> Option<UdpBeh> {
        let p: Vec<&str> = s.split(':').collect();
        let n = |i: usize| p.get(i).and_then(|x| x.parse::<u64>().ok());
        Some(match p[0] {
            "answer" => UdpBeh::Answer { d: n(1)? },
            "trunc" => UdpBeh::Trunc { d: n(1)? },
            "nx" => UdpBeh::Nx { d: n(1)? },
            "silent" => UdpBeh::Silent,
            "senderr" => UdpBeh::SendErr,
            "recverr" => UdpBeh::RecvErr { d: n(1)? },
            _ => return None,
        })
    }
    pub fn class(&self) -> &'static str {
        match self {
            UdpBeh::Answer { .. } => "udp-answer",
            UdpBeh::Trunc { .. } => "udp-trunc",
            UdpBeh::Nx { .. } => "udp-nx",
            UdpBeh::Silent => "udp-silent",
            UdpBeh::SendErr => "udp-senderr",
            UdpBeh::RecvErr { .. } => "udp-recverr",
        }
    }
}

impl TcpBeh {
    pub fn text(&self) -> String {
        let r = match &self.reply {
            Reply::Answer { l } => format!("answer:{l}"),
            Reply::Nx { l } => format!("nx:{l}"),
            Reply::Silent => "silent".into(),
            Reply::Close { l } => format!("close:{l}"),
            Reply::Reset { l } => format!("reset:{l}"),
        };
        match &self.conn {
            Conn::Ok { c } => format!("ok:{c}/{r}"),
            Conn::Refused { c } => format!("refused:{c}"),
            Conn::Hang => "hang".into(),
        }
    }
    pub fn parse(s: &str) -> Option<TcpBeh> {
        let (c, r) = match s.split_once('/') {
            Some((c, r)) => (c, Some(r)),
            None => (s, None),
        };
        let num = |t: &str| t.split(':').nth(1).and_then(|x| x.parse::<u64>().ok());
        let conn = match c.split(':').next()? {
            "ok" => Conn::Ok { c: num(c)? },
            "refused" => Conn::Refused { c: num(c)? },
            "hang" => Conn::Hang,
            _ => return None,
        };
        let reply = match r {
            None => Reply::Silent,
            Some(r) => match r.split(':').next()? {
                "answer" => Reply::Answer { l: num(r)? },
                "nx" => Reply::Nx { l: num(r)? },
                "silent" => Reply::Silent,
                "close" => Reply::Close { l: num(r)? },
                "reset" => Reply::Reset { l: num(r)? },
                _ => return None,
            },
        };
        Some(TcpBeh { conn, reply })
    }
    pub fn conn_class(&self) -> &'static str {
        match self.conn {
            Conn::Ok { .. } => "tcp-conn-ok",
            Conn::Refused { .. } => "tcp-conn-refused",
            Conn::Hang => "tcp-conn-hang",
        }
    }
    pub fn reply_class(&self) -> &'static str {
        match self.reply {
            Reply::Answer { .. } => "tcp-answer",
            Reply::Nx { .. } => "tcp-nx",
            Reply::Silent => "tcp-silent",
            Reply::Close { .. } => "tcp-close",
            Reply::Reset { .. } => "tcp-reset",
        }
    }
}

#[derive(Clone, Debug, PartialEq)]
pub struct FServer {
    pub udp: Option<UdpBeh>,
    pub tcp: Option<TcpBeh>,
    pub trust_nx: bool,
}

#[derive(Clone, Debug, PartialEq)]
pub struct FCaller {
    /// query key (name `q<idx>.c18.example.`, type A)
    pub q: u8,
    /// start offset, virtual ms
    pub at: u64,
}

#[derive(Clone, Debug, PartialEq)]
pub struct FScn {
    /// generator family (information only)
    pub family: String,
    pub servers: Vec<FServer>,
    pub strat: Strat,
    /// ResolverOpts::num_concurrent_reqs
    pub conc: usize,
    /// ResolverOpts::timeout, ms
    pub timeout: u64,
    /// ResolverOpts::connect_timeout, ms
    pub connect_timeout: u64,
    /// None: callers use `NameServerPool::send` directly. Some(a): through
    /// `RetryDnsHandle::new(pool, a)` as `Resolver` does with `ResolverOpts::attempts = a`
    pub retry: Option<usize>,
    /// ResolverOpts::max_active_requests
    pub max_active: usize,
    /// per server: failed exchanges recorded before the scenario starts (pins QueryStatistics order)
    pub warm: Vec<u8>,
    pub callers: Vec<FCaller>,
    /// one more lookup of callers[0].q, 1 ms after everything completed (connection reuse)
    pub later: bool,
}

impl FScn {
    pub fn to_json(&self) -> Value {
        json!({
            "mode": "full",
            "family": self.family,
            "servers": self.servers.iter().map(|s| json!({
                "udp": s.udp.as_ref().map(|b| b.text()),
                "tcp": s.tcp.as_ref().map(|b| b.text()),
                "trust_nx": s.trust_nx,
            })).collect::<Vec<_>>(),
            "strategy": self.strat.name(),
            "num_concurrent_reqs": self.conc,
            "timeout_ms": self.timeout,
            "connect_timeout_ms": self.connect_timeout,
            "retry_attempts": self.retry,
            "max_active_requests": self.max_active,
            "warm_failures": self.warm,
            "callers": self.callers.iter().map(|c| json!({"q": c.q, "at_ms": c.at})).collect::<Vec<_>>(),
            "later_identical_query": self.later,
        })
    }

    pub fn from_json(v: &Value) -> Option<FScn> {
        let mut servers = Vec::new();
        for s in v.get("servers")?.as_array()? {
            let udp = match s.get("udp") {
                None | Some(Value::Null) => None,
                Some(Value::String(t)) => Some(UdpBeh::parse(t)?),
                _ => return None,
            };
            let tcp = match s.get("tcp") {
                None | Some(Value::Null) => None,
                Some(Value::String(t)) => Some(TcpBeh::parse(t)?),
                _ => return None,
            };
            servers.push(FServer { udp, tcp, trust_nx: s.get("trust_nx")?.as_bool()? });
        }
        let mut callers = Vec::new();
        for c in v.get("callers")?.as_array()? {
            callers.push(FCaller { q: c.get("q")?.as_u64()? as u8, at: c.get("at_ms")?.as_u64()? });
        }
        Some(FScn {
            family: v.get("family").and_then(|x| x.as_str()).unwrap_or("replay").to_string(),
            servers,
            strat: Strat::parse(v.get("strategy")?.as_str()?)?,
            conc: v.get("num_concurrent_reqs")?.as_u64()? as usize,
            timeout: v.get("timeout_ms")?.as_u64()?,
            connect_timeout: v.get("connect_timeout_ms")?.as_u64()?,
            retry: v.get("retry_attempts").and_then(|x| x.as_u64()).map(|x| x as usize),
            max_active: v.get("max_active_requests")?.as_u64()? as usize,
            warm: v.get("warm_failures")?.as_array()?.iter().filter_map(|x| x.as_u64().map(|y| y as u8)).collect(),
            callers,
            later: v.get("later_identical_query")?.as_bool()?,
        })
    }

    pub fn canonical(&self) -> String {
        self.to_json().to_string()
    }

    pub fn nontrivial(&self) -> bool {
        let faulty = |s: &FServer| {
            !matches!(s.udp, None | Some(UdpBeh::Answer { .. })) || !matches!(s.tcp, None | Some(TcpBeh { conn: Conn::Ok { .. }, reply: Reply::Answer { .. } }))
        };
        self.servers.len() >= 2 && self.servers.iter().any(faulty)
    }

    pub fn single_key_at_zero(&self) -> bool {
        self.callers.iter().all(|c| c.q == self.callers[0].q && c.at == 0)
    }
}

// ---------------------------------------------------------------------------------------------
// generator

/// delay menu (ms). No positive entry is a multiple of 333 ms: hickory's UDP client retransmits
/// every max(1.2·SRTT, 333 ms) and resolves "reply arrived" vs "retransmit timer fired" at one
/// instant with `futures::select!` (pseudo-random), which would make the number of datagrams of
/// k-callers and one-caller runs differ by chance.
const MENU: [u64; 19] = [0, 1, 7, 20, 50, 110, 250, 400, 520, 700, 900, 1100, 1300, 1500, 1900, 2500, 3100, 3900, 4500];

fn upto(rng: &mut Rng, hi: u64) -> u64 {
    let n = MENU.iter().filter(|x| **x <= hi).count().max(1);
    MENU[rng.usize_below(n)]
}

/// a delay in (lo, hi]; falls back to a value next to lo
fn between(rng: &mut Rng, lo: u64, hi: u64) -> u64 {
    let c: Vec<u64> = MENU.iter().copied().filter(|x| *x > lo && *x <= hi).collect();
    if c.is_empty() {
        let mut v = lo + 1 + (hi.saturating_sub(lo + 1)) / 2;
        if v % 333 == 0 {
            v += 1;
        }
        v
    } else {
        *rng.pick(&c)
    }
}

fn small(rng: &mut Rng) -> u64 {
    *rng.pick(&[0u64, 1, 7, 20, 50, 110])
}

fn healthy(rng: &mut Rng) -> FServer {
    let trust_nx = rng.bool();
    match rng.weighted(&[4, 3, 3]) {
        0 => FServer { udp: Some(UdpBeh::Answer { d: small(rng) }), tcp: None, trust_nx },
        1 => FServer { udp: None, tcp: Some(TcpBeh { conn: Conn::Ok { c: small(rng) }, reply: Reply::Answer { l: small(rng) } }), trust_nx },
        _ => FServer {
            udp: Some(UdpBeh::Answer { d: small(rng) }),
            tcp: Some(TcpBeh { conn: Conn::Ok { c: small(rng) }, reply: Reply::Answer { l: small(rng) } }),
            trust_nx,
        },
    }
}

fn rand_udp(rng: &mut Rng, t: u64, has_tcp: bool) -> UdpBeh {
    match rng.weighted(&[35, if has_tcp { 14 } else { 3 }, 12, 8, 10, 10]) {
        0 => UdpBeh::Answer { d: if rng.chance(3, 4) { small(rng) } else { upto(rng, t) } },
        1 => UdpBeh::Trunc { d: small(rng).max(1) },
        2 => UdpBeh::Nx { d: if rng.chance(3, 4) { small(rng) } else { upto(rng, t / 2) } },
        3 => UdpBeh::Silent,
        4 => UdpBeh::SendErr,
        _ => UdpBeh::RecvErr { d: if rng.chance(2, 3) { small(rng) } else { upto(rng, t / 2) } },
    }
}

fn rand_tcp(rng: &mut Rng, t: u64, ct: u64) -> TcpBeh {
    let conn = match rng.weighted(&[68, 12, 14, 6]) {
        0 => Conn::Ok { c: small(rng) },
        1 => Conn::Refused { c: if rng.chance(2, 3) { small(rng) } else { upto(rng, ct * 3 / 2) } },
        2 => Conn::Hang,
        // slow handshake, on either side of connect_timeout
        _ => Conn::Ok { c: upto(rng, ct * 3 / 2) },
    };
    let reply = match rng.weighted(&[55, 12, 8, 13, 12]) {
        0 => Reply::Answer { l: if rng.chance(2, 3) { small(rng) } else { upto(rng, t * 9 / 10) } },
        1 => Reply::Nx { l: small(rng) },
        2 => Reply::Silent,
        3 => Reply::Close { l: if rng.chance(2, 3) { small(rng) } else { upto(rng, t / 2) } },
        _ => Reply::Reset { l: if rng.chance(2, 3) { small(rng) } else { upto(rng, t / 2) } },
    };
    TcpBeh { conn, reply }
}

fn rand_server(rng: &mut Rng, t: u64, ct: u64) -> FServer {
    let (u, c) = match rng.weighted(&[3, 3, 4]) {
        0 => (true, false),
        1 => (false, true),
        _ => (true, true),
    };
    let udp = u.then(|| rand_udp(rng, t, c));
    let tcp = c.then(|| match &udp {
        Some(UdpBeh::Trunc { .. }) if rng.chance(3, 5) => TcpBeh { conn: Conn::Ok { c: small(rng) }, reply: Reply::Answer { l: upto(rng, t / 2) } },
        _ => rand_tcp(rng, t, ct),
    });
    FServer { udp, tcp, trust_nx: rng.chance(1, 3) }
}

/// a server that fails while leaving budget (cost < ~timeout/2), never answers
fn cheap_failure(rng: &mut Rng, t: u64, ct: u64) -> FServer {
    let lim = (t / 3).max(1);
    match rng.weighted(&[3, 3, 3, 2, 3, 3]) {
        0 => FServer { udp: Some(UdpBeh::SendErr), tcp: None, trust_nx: false },
        1 => FServer { udp: Some(UdpBeh::RecvErr { d: upto(rng, lim) }), tcp: None, trust_nx: false },
        2 => FServer { udp: Some(UdpBeh::Nx { d: upto(rng, lim) }), tcp: None, trust_nx: false },
        3 => FServer { udp: None, tcp: Some(TcpBeh { conn: Conn::Refused { c: upto(rng, lim.min(ct)) }, reply: Reply::Silent }), trust_nx: false },
        4 => FServer {
            udp: None,
            tcp: Some(TcpBeh { conn: Conn::Ok { c: small(rng) }, reply: if rng.bool() { Reply::Close { l: upto(rng, lim) } } else { Reply::Reset { l: upto(rng, lim) } } }),
            trust_nx: false,
        },
        _ => FServer { udp: Some(UdpBeh::Trunc { d: small(rng).max(1) }), tcp: Some(TcpBeh { conn: Conn::Refused { c: small(rng) }, reply: Reply::Silent }), trust_nx: false },
    }
}

fn pick_timeouts(rng: &mut Rng) -> (u64, u64) {
    let t = *rng.pick(&[2000u64, 5000]);
    // connect_timeout deliberately different from timeout, mostly smaller
    let ct = if t == 2000 { *rng.pick(&[500u64, 1000, 1000, 3000]) } else { *rng.pick(&[500u64, 1000, 2000, 2000, 7000]) };
    (t, ct)
}

/// a server that fails (or stays silent) but keeps a lookup busy for ≥ 7 ms
fn slow_failure(rng: &mut Rng) -> FServer {
    let d = *rng.pick(&[7u64, 20, 50, 110, 250]);
    match rng.weighted(&[3, 3, 2, 2, 2]) {
        0 => FServer { udp: Some(UdpBeh::RecvErr { d }), tcp: None, trust_nx: false },
        1 => FServer { udp: Some(UdpBeh::Nx { d }), tcp: None, trust_nx: false },
        2 => FServer { udp: None, tcp: Some(TcpBeh { conn: Conn::Refused { c: d }, reply: Reply::Silent }), trust_nx: false },
        3 => FServer { udp: None, tcp: Some(TcpBeh { conn: Conn::Ok { c: 1 }, reply: if rng.bool() { Reply::Close { l: d } } else { Reply::Reset { l: d } } }), trust_nx: false },
        _ => FServer { udp: Some(UdpBeh::Silent), tcp: None, trust_nx: false },
    }
}

/// identical callers started a few ms apart (not in index order), mostly through a
/// `RetryDnsHandle`: every caller joins the lookup in flight, and all share every retry
fn gen_stagger(rng: &mut Rng) -> FScn {
    let (t, ct) = pick_timeouts(rng);
    let mut servers: Vec<FServer> = (0..1 + rng.usize_below(2)).map(|_| slow_failure(rng)).collect();
    if rng.chance(2, 3) {
        let d = *rng.pick(&[7u64, 20, 50, 110]);
        servers.push(if rng.bool() {
            FServer { udp: Some(UdpBeh::Answer { d }), tcp: None, trust_nx: true }
        } else {
            FServer { udp: None, tcp: Some(TcpBeh { conn: Conn::Ok { c: 1 }, reply: Reply::Answer { l: d } }), trust_nx: true }
        });
    }
    rng.shuffle(&mut servers);
    let n = servers.len();
    let strat = *rng.pick(&Strat::ALL);
    let warm = if strat == Strat::Qs {
        let mut w: Vec<u8> = (1..=n as u8).collect();
        rng.shuffle(&mut w);
        w
    } else {
        Vec::new()
    };
    let k = 2 + rng.usize_below(3);
    let mut ats: Vec<u64> = (0..k).map(|_| rng.below(4)).collect();
    // somebody starts at 0; in half of the cases it is not caller 0
    let z = if rng.bool() { 0 } else { 1 + rng.usize_below(k - 1) };
    ats[z] = 0;
    if z != 0 && ats[0] == 0 {
        ats[0] = 1 + rng.below(3);
    }
    FScn {
        family: "stagger".into(),
        servers,
        strat,
        conc: *rng.pick(&[1usize, 1, 2]),
        timeout: t,
        connect_timeout: ct,
        retry: match rng.weighted(&[25, 40, 35]) {
            0 => None,
            1 => Some(2),
            _ => Some(1),
        },
        max_active: 32,
        warm,
        callers: ats.into_iter().map(|at| FCaller { q: 0, at }).collect(),
        later: false,
    }
}

pub fn gen_full(rng: &mut Rng) -> FScn {
    let fam = rng.weighted(&[18, 16, 10, 6, 32, 10, 8, 6]);
    if fam == 7 {
        return gen_stagger(rng);
    }
    let (mut t, mut ct) = pick_timeouts(rng);
    if fam <= 3 && ct > t {
        // the targeted families need connect_timeout < timeout
        ct = if t == 2000 { 500 } else { 1000 };
    }
    let mut targeted = true;
    let (family, servers): (&str, Vec<FServer>) = match fam {
        // unreachable TCP server(s) first, a healthy server behind
        0 => {
            let n_bad = if rng.chance(1, 4) { 2 } else { 1 };
            let mut v = Vec::new();
            for _ in 0..n_bad {
                let conn = match rng.weighted(&[6, 2, 2]) {
                    0 => Conn::Hang,
                    1 => Conn::Ok { c: ct + 1 + upto(rng, ct) },
                    _ => Conn::Refused { c: upto(rng, ct) },
                };
                let tcp = Some(TcpBeh { conn, reply: Reply::Answer { l: 1 } });
                let udp = rng.chance(1, 3).then(|| UdpBeh::Trunc { d: small(rng).max(1) });
                v.push(FServer { udp, tcp, trust_nx: rng.bool() });
            }
            v.push(healthy(rng));
            ("hang_then_healthy", v)
        }
        // truncated UDP reply, TCP scripted to answer (fast or slower than connect_timeout)
        1 => {
            let l = if rng.bool() { small(rng) } else { between(rng, ct, t * 7 / 10) };
            let s = FServer {
                udp: Some(UdpBeh::Trunc { d: small(rng).max(1) }),
                tcp: Some(TcpBeh { conn: Conn::Ok { c: small(rng) }, reply: Reply::Answer { l } }),
                trust_nx: rng.bool(),
            };
            let mut v = Vec::new();
            if rng.chance(1, 3) {
                v.push(cheap_failure(rng, t / 4, ct));
            }
            v.push(s);
            if rng.chance(1, 3) {
                v.push(rand_server(rng, t, ct));
            }
            ("trunc_tcp", v)
        }
        // TCP reply slower than connect_timeout but well inside timeout
        2 => {
            let s = FServer {
                udp: None,
                tcp: Some(TcpBeh { conn: Conn::Ok { c: small(rng) }, reply: Reply::Answer { l: between(rng, ct, t * 7 / 10) } }),
                trust_nx: rng.bool(),
            };
            let mut v = Vec::new();
            if rng.chance(1, 3) {
                v.push(cheap_failure(rng, t / 5, ct));
            }
            v.push(s);
            if rng.chance(1, 4) {
                v.push(rand_server(rng, t, ct));
            }
            ("slow_tcp", v)
        }
        // UDP reply slower than connect_timeout but well inside timeout
        3 => {
            let s = FServer { udp: Some(UdpBeh::Answer { d: between(rng, ct, t * 7 / 10) }), tcp: None, trust_nx: rng.bool() };
            let mut v = Vec::new();
            if rng.chance(1, 3) {
                v.push(cheap_failure(rng, t / 5, ct));
            }
            v.push(s);
            ("slow_udp", v)
        }
        // anything
        4 => {
            targeted = false;
            let n = 1 + rng.weighted(&[2, 5, 4]);
            ("random", (0..n).map(|_| rand_server(rng, t, ct)).collect())
        }
        // busy back-pressure: TCP server with a tiny max_active_requests, several distinct queries
        5 => {
            let a = FServer { udp: None, tcp: Some(TcpBeh { conn: Conn::Ok { c: 0 }, reply: Reply::Answer { l: *rng.pick(&[50u64, 110, 250, 400]) } }), trust_nx: true };
            let mut v = vec![a];
            if rng.chance(2, 3) {
                v.push(healthy(rng));
            }
            ("busy", v)
        }
        // cheap failures in front of a healthy server (every failure class), any configuration
        _ => {
            if rng.chance(1, 3) {
                // connect_timeout larger than timeout
                t = 2000;
                ct = *rng.pick(&[3000u64, 5000]);
            }
            let n_bad = 1 + rng.usize_below(2);
            let mut v: Vec<FServer> = (0..n_bad).map(|_| cheap_failure(rng, t / 2, ct)).collect();
            v.push(healthy(rng));
            ("cheap_failures_then_healthy", v)
        }
    };
    let n = servers.len();
    if family == "busy" {
        let m = *rng.pick(&[1usize, 1, 2]);
        let k = m + 1 + rng.usize_below(2);
        let callers = (0..k).map(|i| FCaller { q: i as u8, at: if i == 0 { 0 } else { 1 + rng.below(3) } }).collect();
        return FScn {
            family: family.into(),
            servers,
            strat: Strat::User,
            conc: 1,
            timeout: t,
            connect_timeout: ct,
            retry: if rng.chance(1, 4) { Some(*rng.pick(&[1usize, 2])) } else { None },
            max_active: m,
            warm: Vec::new(),
            callers,
            later: false,
        };
    }
    let strat = if targeted && rng.chance(3, 4) { Strat::User } else { *rng.pick(&Strat::ALL) };
    let conc = if rng.chance(if targeted { 3 } else { 1 }, 4) { 1 } else { 2 };
    // QueryStatistics: pin the order by distinct recorded failures (a fresh pool orders by a random
    // initial SRTT); others: sometimes
    let warm = if strat == Strat::Qs || rng.chance(1, 8) {
        let mut w: Vec<u8> = (1..=n as u8).collect();
        rng.shuffle(&mut w);
        w
    } else {
        Vec::new()
    };
    let k = *rng.pick(&[1usize, 1, 1, 2, 2, 3, 4]);
    FScn {
        family: family.into(),
        servers,
        strat,
        conc,
        timeout: t,
        connect_timeout: ct,
        retry: match rng.weighted(&[70, 15, 15]) {
            0 => None,
            1 => Some(2),
            _ => Some(1),
        },
        max_active: 32,
        warm,
        callers: (0..k).map(|_| FCaller { q: 0, at: 0 }).collect(),
        later: rng.chance(1, 4),
    }
}

// ---------------------------------------------------------------------------------------------
// event log at the socket boundary

#[derive(Clone, Debug)]
pub struct FEv {
    /// virtual µs since the scenario start (after the warm-up)
    pub t: u64,
    /// udp-bind | udp-send | udp-send-error | udp-deliver | udp-recv-error | udp-close |
    /// tcp-connect | tcp-connected | tcp-refused | tcp-connect-timeout | tcp-connect-abandoned |
    /// tcp-query | tcp-deliver | tcp-eof | tcp-reset | tcp-close | tcp-id-collision |
    /// history part: tcp-inject | tcp-write-error | tcp-write-after-dead
    pub kind: &'static str,
    pub server: usize,
    /// 1 = UDP, 2 = TCP
    pub proto: u8,
    /// socket / connection number (unique per run)
    pub id: u32,
    /// query key, -1 = none
    pub q: i32,
    /// exchange number (one per datagram / TCP query that reached a server), 0 = none
    pub seq: u32,
    /// deliver events: answer | tc | nx
    pub what: &'static str,
    /// tcp-connect: the `wait_for` argument in µs (-1 = None); otherwise 0
    pub arg: i64,
}

impl FEv {
    pub fn json(&self) -> Value {
        let mut v = json!({"t_us": self.t, "ev": self.kind, "server": self.server, "proto": if self.proto == 1 { "udp" } else { "tcp" }, "sock": self.id});
        if self.q >= 0 {
            v["q"] = json!(self.q);
        }
        if self.seq > 0 {
            v["seq"] = json!(self.seq);
        }
        if !self.what.is_empty() {
            v["what"] = json!(self.what);
        }
        if self.kind == "tcp-connect" {
            v["wait_for_us"] = if self.arg < 0 { Value::Null } else { json!(self.arg) };
        }
        v
    }
}

/// one `NameServerPool::send` as seen by the `Probe` wrapper (each RetryDnsHandle attempt is one)
#[derive(Clone, Debug)]
pub struct Attempt {
    pub caller: i32,
    pub start: u64,
    pub end: Option<u64>,
}

struct NetSt {
    warm: bool,
    origin: Instant,
    log: Vec<FEv>,
    next_id: u32,
    seq: u32,
    sends: u32,
    runaway: bool,
    attempts: Vec<Attempt>,
    /// per TCP connection: (queries written and not yet answered, maximum seen)
    outstanding: HashMap<u32, (u32, u32)>,
    /// history part (hist.rs): every TCP stream handed to hickory after the warm-up
    streams: Vec<StreamReg>,
    /// history part: per server, "the peer closes `g` ms after its next TCP answer" (one-shot)
    after_answer: HashMap<usize, u64>,
    /// history part: per server, "the next UDP datagram fails in send_to" (one-shot;
    /// true = ConnectionReset, false = an error kind outside the connection-closed class)
    udp_err: HashMap<usize, bool>,
}

struct StreamReg {
    server: usize,
    id: u32,
    st: Arc<Mutex<TcpSt>>,
}

pub struct Net {
    pub(crate) scn: FScn,
    st: Mutex<NetSt>,
}

/// history part: something the peer does to the ESTABLISHED TCP connections of one server (or to
/// its UDP port) between two lookups — see `hist.rs`
#[derive(Clone, Debug, PartialEq)]
pub enum Inject {
    /// orderly close while idle. `eager`: the reader task is woken, as a reactor does when the FIN
    /// arrives; otherwise the EOF is found by whoever reads next
    Fin { eager: bool },
    /// RST while idle, reader woken: the next read fails with ConnectionReset
    Rst,
    /// RST that is noticed by the next WRITE only: it fails with `kind` (reads fail afterwards)
    WriteFails { kind: io::ErrorKind },
    /// the next query written on the connection gets no reply; FIN / RST after `g` ms
    NoReply { g: u64, rst: bool },
    /// the next query written on the connection gets half of its reply frame (after the scripted
    /// latency), then FIN / RST
    Partial { rst: bool },
    /// the peer closes `g` ms after the next answer it sends over TCP (any connection; armed per server)
    FinAfterAnswer { g: u64 },
    /// the next UDP datagram to the server fails in `send_to`
    UdpSendFails { closed_class: bool },
}

impl Net {
    fn ev(&self, kind: &'static str, server: usize, proto: u8, id: u32, q: i32, seq: u32, what: &'static str, arg: i64) {
        let mut st = self.st.lock().unwrap();
        if st.warm {
            return;
        }
        let t = Instant::now().saturating_duration_since(st.origin).as_micros() as u64;
        st.log.push(FEv { t, kind, server, proto, id, q, seq, what, arg });
    }
    pub(crate) fn now_us(&self) -> u64 {
        let st = self.st.lock().unwrap();
        Instant::now().saturating_duration_since(st.origin).as_micros() as u64
    }
    /// count one datagram / TCP query; returns (warm phase?, exchange number) or None when the
    /// safety valve tripped
    fn next_send(&self) -> Option<(bool, u32)> {
        let mut st = self.st.lock().unwrap();
        st.sends += 1;
        if st.sends > SEND_LIMIT {
            st.runaway = true;
            return None;
        }
        if st.warm {
            Some((true, 0))
        } else {
            st.seq += 1;
            Some((false, st.seq))
        }
    }
    fn new_id(&self) -> (bool, u32) {
        let mut st = self.st.lock().unwrap();
        st.next_id += 1;
        (st.warm, st.next_id)
    }

    /// history part: apply `what` to every TCP connection of `server` that is established, not
    /// yet dropped by hickory and not yet dead (or arm the per-server one-shot). Returns the
    /// ids of the connections hit. Lock order: stream state, then `self.st` (as everywhere).
    pub(crate) fn inject(&self, server: usize, what: &Inject) -> Vec<u32> {
        match what {
            Inject::FinAfterAnswer { g } => {
                self.st.lock().unwrap().after_answer.insert(server, *g);
                return Vec::new();
            }
            Inject::UdpSendFails { closed_class } => {
                self.st.lock().unwrap().udp_err.insert(server, *closed_class);
                return Vec::new();
            }
            _ => {}
        }
        let regs: Vec<(u32, Arc<Mutex<TcpSt>>)> = self.st.lock().unwrap().streams.iter().filter(|r| r.server == server).map(|r| (r.id, r.st.clone())).collect();
        let now = Instant::now();
        let mut hit = Vec::new();
        for (id, st) in regs {
            let mut st = st.lock().unwrap();
            if st.dropped || st.eof || st.reset || st.doomed {
                continue;
            }
            let mut wake = false;
            let tag: &'static str = match what {
                Inject::Fin { eager } => {
                    let pos = st.inbox.iter().position(|(t, _)| *t > now).unwrap_or(st.inbox.len());
                    st.inbox.insert(pos, (now, TcpItem::Eof));
                    st.doomed = true;
                    wake = *eager;
                    if *eager {
                        "fin-eager"
                    } else {
                        "fin-lazy"
                    }
                }
                Inject::Rst => {
                    let pos = st.inbox.iter().position(|(t, _)| *t > now).unwrap_or(st.inbox.len());
                    st.inbox.insert(pos, (now, TcpItem::Reset));
                    st.doomed = true;
                    wake = true;
                    "rst-eager"
                }
                Inject::WriteFails { kind } => {
                    st.wfail = Some(*kind);
                    st.doomed = true;
                    "write-fails"
                }
                Inject::NoReply { g, rst } => {
                    st.armed = Some(Treat::NoReply { g: *g, rst: *rst });
                    st.doomed = true;
                    "no-reply"
                }
                Inject::Partial { rst } => {
                    st.armed = Some(Treat::Partial { rst: *rst });
                    st.doomed = true;
                    "partial"
                }
                Inject::FinAfterAnswer { .. } | Inject::UdpSendFails { .. } => unreachable!(),
            };
            self.ev("tcp-inject", server, 2, id, -1, 0, tag, 0);
            hit.push(id);
            if wake {
                if let Some(w) = st.waker.take() {
                    w.wake();
                }
            }
        }
        hit
    }
}

pub fn server_ip(i: usize) -> IpAddr {
    IpAddr::from([192, 0, 2, (i + 1) as u8])
}
fn server_idx(ip: IpAddr) -> usize {
    match ip {
        IpAddr::V4(v4) => (v4.octets()[3] as usize).saturating_sub(1),
        _ => usize::MAX,
    }
}
pub fn qname(q: u8) -> Name {
    Name::from_ascii(format!("q{q}.c18.example.")).unwrap()
}
fn qidx(n: &Name) -> i32 {
    let s = n.to_ascii().to_ascii_lowercase();
    s.strip_prefix('q').and_then(|r| r.split('.').next()).and_then(|d| d.parse::<i32>().ok()).unwrap_or(-1)
}

fn answer_bytes(id: u16, query: &Query, server: usize, proto: u8, q: i32, seq: u32, tc: bool) -> Vec<u8> {
    let mut m = Message::response(id, OpCode::Query);
    m.add_query(query.clone());
    m.metadata.truncation = tc;
    // marker: which server, which protocol, which query key; TTL = exchange number
    m.add_answer(Record::from_rdata(query.name.clone(), seq, RData::A(A::new(10, server as u8, proto, q as u8))));
    m.to_vec().unwrap_or_default()
}

fn nx_bytes(id: u16, query: &Query, seq: u32) -> Vec<u8> {
    let mut m = Message::response(id, OpCode::Query);
    m.add_query(query.clone());
    m.metadata.response_code = ResponseCode::NXDomain;
    let zone = Name::from_ascii("c18.example.").unwrap();
    let soa = SOA::new(Name::from_ascii("ns.c18.example.").unwrap(), Name::from_ascii("h.c18.example.").unwrap(), seq, 3600, 600, 86400, 60);
    m.add_authority(Record::from_rdata(zone, 60, RData::SOA(soa)));
    m.to_vec().unwrap_or_default()
}

fn parse_query(buf: &[u8]) -> Option<(u16, Query)> {
    match Message::from_vec(buf) {
        Ok(m) if !m.queries.is_empty() => Some((m.id, m.queries[0].clone())),
        _ => None,
    }
}

// ---------------------------------------------------------------------------------------------
// virtual time

#[derive(Clone, Copy)]
pub struct VTime;

#[async_trait::async_trait]
impl Time for VTime {
    async fn delay_for(d: Duration) {
        tokio::time::sleep(d).await
    }
    async fn timeout<F: 'static + Future + Send>(d: Duration, f: F) -> Result<F::Output, io::Error> {
        tokio::time::timeout(d, f).await.map_err(|_| io::Error::new(io::ErrorKind::TimedOut, "future timed out"))
    }
    fn current_time() -> u64 {
        1_700_000_000
    }
}

// ---------------------------------------------------------------------------------------------
// scripted UDP socket

enum UdpItem {
    Dg { bytes: Vec<u8>, what: &'static str, q: i32, seq: u32 },
    Err,
}

struct UdpInbox {
    queue: VecDeque<(Instant, UdpItem)>,
    timer: Option<Pin<Box<tokio::time::Sleep>>>,
    target: Option<SocketAddr>,
}

pub struct FsUdp {
    net: Arc<Net>,
    server: usize,
    id: u32,
    inbox: Mutex<UdpInbox>,
}

impl Drop for FsUdp {
    fn drop(&mut self) {
        self.net.ev("udp-close", self.server, 1, self.id, -1, 0, "", 0);
    }
}

#[async_trait::async_trait]
impl DnsUdpSocket for FsUdp {
    type Time = VTime;

    fn poll_recv_from(&self, cx: &mut Context<'_>, buf: &mut [u8]) -> Poll<io::Result<(usize, SocketAddr)>> {
        let mut ib = self.inbox.lock().unwrap();
        let now = Instant::now();
        let due = match ib.queue.front() {
            None => {
                // silence: only a timer elsewhere (the client's own timeout) can end the wait
                ib.timer = None;
                return Poll::Pending;
            }
            Some((at, _)) => *at,
        };
        if due > now {
            let mut t = Box::pin(tokio::time::sleep_until(due));
            if t.as_mut().poll(cx).is_pending() {
                ib.timer = Some(t);
                return Poll::Pending;
            }
        }
        ib.timer = None;
        let (_, item) = ib.queue.pop_front().unwrap();
        let src = ib.target.unwrap_or_else(|| SocketAddr::new(server_ip(self.server), 53));
        drop(ib);
        match item {
            UdpItem::Dg { bytes, what, q, seq } => {
                let n = bytes.len().min(buf.len());
                buf[..n].copy_from_slice(&bytes[..n]);
                self.net.ev("udp-deliver", self.server, 1, self.id, q, seq, what, 0);
                Poll::Ready(Ok((n, src)))
            }
            UdpItem::Err => {
                self.net.ev("udp-recv-error", self.server, 1, self.id, -1, 0, "", 0);
                Poll::Ready(Err(io::Error::new(io::ErrorKind::ConnectionRefused, "scripted: port unreachable")))
            }
        }
    }

    fn poll_send_to(&self, _cx: &mut Context<'_>, buf: &[u8], target: SocketAddr) -> Poll<io::Result<usize>> {
        let now = Instant::now();
        let Some((id, query)) = parse_query(buf) else {
            return Poll::Ready(Ok(buf.len()));
        };
        let q = qidx(&query.name);
        let Some((warm, seq)) = self.net.next_send() else {
            return Poll::Ready(Err(io::Error::other("verif: send budget exhausted")));
        };
        if warm {
            return Poll::Ready(Err(io::Error::other("verif warm-up: scripted send failure")));
        }
        let server = server_idx(target.ip());
        let beh = self.net.scn.servers.get(server).and_then(|s| s.udp.clone()).unwrap_or(UdpBeh::Silent);
        self.net.ev("udp-send", server, 1, self.id, q, seq, "", 0);
        // history part: one-shot send failure
        let inj = self.net.st.lock().unwrap().udp_err.remove(&server);
        if let Some(closed_class) = inj {
            self.net.ev("udp-send-error", server, 1, self.id, q, seq, if closed_class { "injected-connection-reset" } else { "injected-other" }, 0);
            return Poll::Ready(Err(if closed_class { io::Error::new(io::ErrorKind::ConnectionReset, "scripted: connection reset (one-shot)") } else { io::Error::other("scripted: network unreachable (one-shot)") }));
        }
        let ms = Duration::from_millis;
        let item = match beh {
            UdpBeh::SendErr => {
                self.net.ev("udp-send-error", server, 1, self.id, q, seq, "", 0);
                return Poll::Ready(Err(io::Error::other("scripted: network unreachable")));
            }
            UdpBeh::Silent => None,
            UdpBeh::Answer { d } => Some((now + ms(d), UdpItem::Dg { bytes: answer_bytes(id, &query, server, 1, q, seq, false), what: "answer", q, seq })),
            UdpBeh::Trunc { d } => Some((now + ms(d), UdpItem::Dg { bytes: answer_bytes(id, &query, server, 1, q, seq, true), what: "tc", q, seq })),
            UdpBeh::Nx { d } => Some((now + ms(d), UdpItem::Dg { bytes: nx_bytes(id, &query, seq), what: "nx", q, seq })),
            UdpBeh::RecvErr { d } => Some((now + ms(d), UdpItem::Err)),
        };
        let mut ib = self.inbox.lock().unwrap();
        ib.target = Some(target);
        if let Some((at, it)) = item {
            let pos = ib.queue.iter().position(|(t, _)| *t > at).unwrap_or(ib.queue.len());
            ib.queue.insert(pos, (at, it));
        }
        Poll::Ready(Ok(buf.len()))
    }
}

// ---------------------------------------------------------------------------------------------
// scripted TCP stream

enum TcpItem {
    Bytes { bytes: Vec<u8>, what: &'static str, q: i32, seq: u32 },
    Eof,
    Reset,
}

struct TcpSt {
    wbuf: Vec<u8>,
    inbox: VecDeque<(Instant, TcpItem)>,
    rbuf: VecDeque<u8>,
    timer: Option<Pin<Box<tokio::time::Sleep>>>,
    waker: Option<Waker>,
    eof: bool,
    reset: bool,
    // ---- history part
    /// one-shot treatment of the next query written on this connection
    armed: Option<Treat>,
    /// the next write fails with this kind
    wfail: Option<io::ErrorKind>,
    /// a death of this connection is scripted (injected) — no second injection
    doomed: bool,
    /// hickory has been TOLD that the connection is dead: a read returned EOF / an error, or a
    /// write returned an error
    told_dead: bool,
    /// hickory dropped the stream
    dropped: bool,
    /// (message id, exchange number) of the queries this connection will still reply to
    unanswered: Vec<(u16, u32)>,
}

#[derive(Clone, Debug)]
enum Treat {
    NoReply { g: u64, rst: bool },
    Partial { rst: bool },
}

pub struct FsTcp {
    net: Arc<Net>,
    server: usize,
    id: u32,
    /// connection made during the warm-up: closes on the first query
    warm: bool,
    st: Arc<Mutex<TcpSt>>,
}

impl FsTcp {
    fn new(net: Arc<Net>, server: usize, id: u32, warm: bool) -> FsTcp {
        let st = Arc::new(Mutex::new(TcpSt {
            wbuf: Vec::new(),
            inbox: VecDeque::new(),
            rbuf: VecDeque::new(),
            timer: None,
            waker: None,
            eof: false,
            reset: false,
            armed: None,
            wfail: None,
            doomed: false,
            told_dead: false,
            dropped: false,
            unanswered: Vec::new(),
        }));
        if !warm {
            net.st.lock().unwrap().streams.push(StreamReg { server, id, st: st.clone() });
        }
        FsTcp { net, server, id, warm, st }
    }

    /// a complete framed query arrived at the server
    fn on_query(&self, st: &mut TcpSt, msg: &[u8]) -> io::Result<()> {
        let now = Instant::now();
        let Some((warm_phase, seq)) = self.net.next_send() else {
            return Err(io::Error::other("verif: send budget exhausted"));
        };
        if self.warm || warm_phase {
            st.inbox.push_back((now, TcpItem::Eof));
            return Ok(());
        }
        let Some((id, query)) = parse_query(msg) else {
            return Ok(());
        };
        let q = qidx(&query.name);
        self.net.ev("tcp-query", self.server, 2, self.id, q, seq, if st.unanswered.is_empty() { "" } else { "while-earlier-query-unanswered" }, 0);
        // hickory's multiplexer draws 16-bit message ids at random and frees the id of a request
        // its requester abandoned at once; a new query may by chance (2^-16) carry the id of an
        // earlier query of this connection whose reply is still to come, and the multiplexer
        // matches replies by id only. Such runs are marked (see fullo.rs, don't-cares).
        if st.unanswered.iter().any(|(i, _)| *i == id) {
            self.net.ev("tcp-id-collision", self.server, 2, self.id, q, seq, "", 0);
        }
        {
            let mut n = self.net.st.lock().unwrap();
            let e = n.outstanding.entry(self.id).or_insert((0, 0));
            e.0 += 1;
            e.1 = e.1.max(e.0);
        }
        let reply = self.net.scn.servers.get(self.server).and_then(|s| s.tcp.as_ref()).map(|t| t.reply.clone()).unwrap_or(Reply::Silent);
        let ms = Duration::from_millis;
        let frame = |b: Vec<u8>| {
            let mut f = (b.len() as u16).to_be_bytes().to_vec();
            f.extend_from_slice(&b);
            f
        };
        // history part: one-shot treatment armed on this connection
        if let Some(t) = st.armed.take() {
            let lat = match &reply {
                Reply::Answer { l } | Reply::Nx { l } => *l,
                _ => 0,
            };
            match t {
                Treat::NoReply { g, rst } => st.inbox.push_back((now + ms(g), if rst { TcpItem::Reset } else { TcpItem::Eof })),
                Treat::Partial { rst } => {
                    let f = frame(answer_bytes(id, &query, self.server, 2, q, seq, false));
                    let cut = 2 + (f.len() - 2) / 2;
                    st.inbox.push_back((now + ms(lat), TcpItem::Bytes { bytes: f[..cut].to_vec(), what: "partial", q, seq }));
                    st.inbox.push_back((now + ms(lat), if rst { TcpItem::Reset } else { TcpItem::Eof }));
                }
            }
            return Ok(());
        }
        // history part: the peer closes `g` ms after this answer
        if let Reply::Answer { l } = reply {
            let fin = self.net.st.lock().unwrap().after_answer.remove(&self.server);
            if let Some(g) = fin {
                st.unanswered.push((id, seq));
                st.inbox.push_back((now + ms(l), TcpItem::Bytes { bytes: frame(answer_bytes(id, &query, self.server, 2, q, seq, false)), what: "answer", q, seq }));
                st.inbox.push_back((now + ms(l + g), TcpItem::Eof));
                st.doomed = true;
                self.net.ev("tcp-inject", self.server, 2, self.id, q, seq, "fin-after-answer", 0);
                return Ok(());
            }
        }
        if matches!(reply, Reply::Answer { .. } | Reply::Nx { .. }) {
            st.unanswered.push((id, seq));
        }
        match reply {
            Reply::Answer { l } => st.inbox.push_back((now + ms(l), TcpItem::Bytes { bytes: frame(answer_bytes(id, &query, self.server, 2, q, seq, false)), what: "answer", q, seq })),
            Reply::Nx { l } => st.inbox.push_back((now + ms(l), TcpItem::Bytes { bytes: frame(nx_bytes(id, &query, seq)), what: "nx", q, seq })),
            Reply::Silent => {}
            Reply::Close { l } => st.inbox.push_back((now + ms(l), TcpItem::Eof)),
            Reply::Reset { l } => st.inbox.push_back((now + ms(l), TcpItem::Reset)),
        }
        Ok(())
    }
}

impl Drop for FsTcp {
    fn drop(&mut self) {
        if let Ok(mut st) = self.st.lock() {
            st.dropped = true;
        }
        self.net.ev("tcp-close", self.server, 2, self.id, -1, 0, "", 0);
    }
}

impl futures::io::AsyncRead for FsTcp {
    fn poll_read(self: Pin<&mut Self>, cx: &mut Context<'_>, buf: &mut [u8]) -> Poll<io::Result<usize>> {
        let this = self.get_mut();
        let mut st = this.st.lock().unwrap();
        if buf.is_empty() {
            return Poll::Ready(Ok(0));
        }
        loop {
            let now = Instant::now();
            while !st.eof && !st.reset && st.inbox.front().map(|(at, _)| *at <= now).unwrap_or(false) {
                let (_, item) = st.inbox.pop_front().unwrap();
                match item {
                    TcpItem::Bytes { bytes, what, q, seq } => {
                        st.unanswered.retain(|(_, s)| *s != seq);
                        st.rbuf.extend(bytes);
                        this.net.ev("tcp-deliver", this.server, 2, this.id, q, seq, what, 0);
                        let mut n = this.net.st.lock().unwrap();
                        if let Some(e) = n.outstanding.get_mut(&this.id) {
                            e.0 = e.0.saturating_sub(1);
                        }
                    }
                    TcpItem::Eof => {
                        st.eof = true;
                        this.net.ev("tcp-eof", this.server, 2, this.id, -1, 0, "", 0);
                    }
                    TcpItem::Reset => {
                        st.reset = true;
                        this.net.ev("tcp-reset", this.server, 2, this.id, -1, 0, "", 0);
                    }
                }
            }
            if !st.rbuf.is_empty() {
                let n = st.rbuf.len().min(buf.len());
                for b in buf.iter_mut().take(n) {
                    *b = st.rbuf.pop_front().unwrap();
                }
                return Poll::Ready(Ok(n));
            }
            if st.reset {
                st.told_dead = true;
                return Poll::Ready(Err(io::Error::new(io::ErrorKind::ConnectionReset, "scripted: connection reset by peer")));
            }
            if st.eof {
                st.told_dead = true;
                return Poll::Ready(Ok(0));
            }
            match st.inbox.front().map(|(at, _)| *at) {
                Some(at) => {
                    let mut t = Box::pin(tokio::time::sleep_until(at));
                    if t.as_mut().poll(cx).is_pending() {
                        st.timer = Some(t);
                        st.waker = Some(cx.waker().clone());
                        return Poll::Pending;
                    }
                }
                None => {
                    st.timer = None;
                    st.waker = Some(cx.waker().clone());
                    return Poll::Pending;
                }
            }
        }
    }
}

impl futures::io::AsyncWrite for FsTcp {
    fn poll_write(self: Pin<&mut Self>, _cx: &mut Context<'_>, buf: &[u8]) -> Poll<io::Result<usize>> {
        let this = self.get_mut();
        let mut st = this.st.lock().unwrap();
        // history part: a write (start of a frame) on a connection hickory was told is dead
        if st.told_dead && st.wbuf.is_empty() {
            this.net.ev("tcp-write-after-dead", this.server, 2, this.id, CUR_Q.with(|c| c.get()), 0, "", 0);
        }
        if st.reset {
            st.told_dead = true;
            return Poll::Ready(Err(io::Error::new(io::ErrorKind::BrokenPipe, "scripted: write after reset")));
        }
        if let Some(kind) = st.wfail.take() {
            // history part: the peer's RST is noticed by this write
            st.reset = true;
            st.told_dead = true;
            this.net.ev("tcp-write-error", this.server, 2, this.id, -1, 0, if kind == io::ErrorKind::BrokenPipe { "broken-pipe" } else { "connection-reset" }, 0);
            return Poll::Ready(Err(io::Error::new(kind, "scripted: peer reset the connection while it was idle")));
        }
        st.wbuf.extend_from_slice(buf);
        while st.wbuf.len() >= 2 {
            let len = u16::from_be_bytes([st.wbuf[0], st.wbuf[1]]) as usize;
            if st.wbuf.len() < 2 + len {
                break;
            }
            let msg: Vec<u8> = st.wbuf[2..2 + len].to_vec();
            st.wbuf.drain(..2 + len);
            if !st.eof {
                if let Err(e) = this.on_query(&mut st, &msg) {
                    return Poll::Ready(Err(e));
                }
            }
        }
        if let Some(w) = st.waker.take() {
            w.wake();
        }
        Poll::Ready(Ok(buf.len()))
    }
    fn poll_flush(self: Pin<&mut Self>, _cx: &mut Context<'_>) -> Poll<io::Result<()>> {
        Poll::Ready(Ok(()))
    }
    fn poll_close(self: Pin<&mut Self>, _cx: &mut Context<'_>) -> Poll<io::Result<()>> {
        Poll::Ready(Ok(()))
    }
}

impl DnsTcpStream for FsTcp {
    type Time = VTime;
}

// ---------------------------------------------------------------------------------------------
// the runtime provider

#[derive(Clone)]
pub struct FsRuntime {
    handle: TokioHandle,
    net: Arc<Net>,
}

/// logs a connect attempt whose future is dropped before it completed
struct ConnGuard {
    net: Arc<Net>,
    server: usize,
    id: u32,
    done: bool,
}
impl Drop for ConnGuard {
    fn drop(&mut self) {
        if !self.done {
            self.net.ev("tcp-connect-abandoned", self.server, 2, self.id, -1, 0, "", 0);
        }
    }
}

impl RuntimeProvider for FsRuntime {
    type Handle = TokioHandle;
    type Timer = VTime;
    type Udp = FsUdp;
    type Tcp = FsTcp;

    fn create_handle(&self) -> TokioHandle {
        self.handle.clone()
    }

    fn connect_tcp(&self, server_addr: SocketAddr, _bind: Option<SocketAddr>, wait_for: Option<Duration>) -> Pin<Box<dyn Send + Future<Output = Result<FsTcp, io::Error>>>> {
        let net = self.net.clone();
        let server = server_idx(server_addr.ip());
        let (warm, id) = net.new_id();
        if warm {
            return Box::pin(async move { Ok(FsTcp::new(net, server, id, true)) });
        }
        net.ev("tcp-connect", server, 2, id, CUR_Q.with(|c| c.get()), 0, "", wait_for.map(|d| d.as_micros() as i64).unwrap_or(-1));
        // like TokioRuntimeProvider: no wait_for = hickory's CONNECT_TIMEOUT (2 s)
        let w = wait_for.unwrap_or(Duration::from_secs(2));
        let conn = net.scn.servers.get(server).and_then(|s| s.tcp.as_ref()).map(|t| t.conn.clone()).unwrap_or(Conn::Refused { c: 0 });
        Box::pin(async move {
            let mut g = ConnGuard { net: net.clone(), server, id, done: false };
            let nap = |d: Duration| async move {
                if !d.is_zero() {
                    tokio::time::sleep(d).await
                }
            };
            let ms = Duration::from_millis;
            let r = match conn {
                Conn::Ok { c } if ms(c) <= w => {
                    nap(ms(c)).await;
                    net.ev("tcp-connected", server, 2, id, -1, 0, "", 0);
                    Ok(FsTcp::new(net.clone(), server, id, false))
                }
                Conn::Refused { c } if ms(c) <= w => {
                    nap(ms(c)).await;
                    net.ev("tcp-refused", server, 2, id, -1, 0, "", 0);
                    Err(io::Error::new(io::ErrorKind::ConnectionRefused, "scripted: connection refused"))
                }
                _ => {
                    nap(w).await;
                    net.ev("tcp-connect-timeout", server, 2, id, -1, 0, "", 0);
                    Err(io::Error::new(io::ErrorKind::TimedOut, "scripted: TCP connect timed out"))
                }
            };
            g.done = true;
            r
        })
    }

    fn bind_udp(&self, _local: SocketAddr, server_addr: SocketAddr) -> Pin<Box<dyn Send + Future<Output = Result<FsUdp, io::Error>>>> {
        let net = self.net.clone();
        let server = server_idx(server_addr.ip());
        Box::pin(async move {
            let (_, id) = net.new_id();
            net.ev("udp-bind", server, 1, id, -1, 0, "", 0);
            Ok(FsUdp { net, server, id, inbox: Mutex::new(UdpInbox { queue: VecDeque::new(), timer: None, target: None }) })
        })
    }
}

// ---------------------------------------------------------------------------------------------
// caller tagging + the attempt probe

thread_local! {
    static CUR_CALLER: Cell<i32> = const { Cell::new(-1) };
    static CUR_Q: Cell<i32> = const { Cell::new(-1) };
}

struct Tagged<F> {
    caller: i32,
    q: i32,
    f: Pin<Box<F>>,
}

impl<F: Future> Future for Tagged<F> {
    type Output = F::Output;
    fn poll(mut self: Pin<&mut Self>, cx: &mut Context<'_>) -> Poll<F::Output> {
        let pc = CUR_CALLER.with(|c| c.replace(self.caller));
        let pq = CUR_Q.with(|c| c.replace(self.q));
        let r = self.f.as_mut().poll(cx);
        CUR_CALLER.with(|c| c.set(pc));
        CUR_Q.with(|c| c.set(pq));
        r
    }
}

/// `DnsHandle` shim around the pool: records start/end of every `NameServerPool::send` (with a
/// `RetryDnsHandle` on top, each attempt is one)
#[derive(Clone)]
pub struct Probe {
    pool: NameServerPool<FsRuntime>,
    net: Arc<Net>,
}

impl DnsHandle for Probe {
    type Response = Pin<Box<dyn Stream<Item = Result<DnsResponse, NetError>> + Send>>;
    type Runtime = FsRuntime;

    fn send(&self, request: DnsRequest) -> Self::Response {
        let net = self.net.clone();
        let idx = {
            let now = net.now_us();
            let mut st = net.st.lock().unwrap();
            st.attempts.push(Attempt { caller: CUR_CALLER.with(|c| c.get()), start: now, end: None });
            st.attempts.len() - 1
        };
        let mut inner = self.pool.send(request);
        Box::pin(stream::once(async move {
            let r = inner.next().await;
            let now = net.now_us();
            net.st.lock().unwrap().attempts[idx].end = Some(now);
            r.unwrap_or_else(|| Err(NetError::from("verif: response stream ended")))
        }))
    }
}

// ---------------------------------------------------------------------------------------------
// runner

#[derive(Clone, Debug)]
pub struct FCall {
    pub idx: usize,
    pub q: u8,
    /// virtual µs
    pub start: u64,
    pub end: u64,
    pub outcome: Outcome,
}

#[derive(Debug)]
pub struct FRun {
    pub calls: Vec<FCall>,
    pub later: Option<FCall>,
    pub log: Vec<FEv>,
    pub attempts: Vec<Attempt>,
    /// per TCP connection id: maximum number of queries outstanding at once
    pub max_outstanding: Vec<(u32, u32)>,
    pub runaway: bool,
    pub stuck: bool,
}

fn strategy(s: Strat) -> ServerOrderingStrategy {
    match s {
        Strat::Qs => ServerOrderingStrategy::QueryStatistics,
        Strat::User => ServerOrderingStrategy::UserProvidedOrder,
        Strat::Rr => ServerOrderingStrategy::RoundRobin,
    }
}

pub(crate) async fn lookup<H: DnsHandle>(h: &H, net: &Arc<Net>, idx: usize, q: u8, at: u64) -> FCall {
    let fut = async move {
        if at > 0 {
            tokio::time::sleep(Duration::from_millis(at)).await;
        }
        let start = net.now_us();
        let req = DnsRequest::from_query(Query::new(qname(q), RecordType::A), DnsRequestOptions::default());
        let mut st = h.send(req);
        let r = st.next().await;
        drop(st);
        let end = net.now_us();
        let outcome = match r {
            None => Outcome::Err("StreamEnded".into()),
            Some(r) => classify(r),
        };
        FCall { idx, q, start, end, outcome }
    };
    Tagged { caller: idx as i32, q: q as i32, f: Box::pin(fut) }.await
}

async fn drive<H: DnsHandle>(h: &H, net: &Arc<Net>, scn: &FScn, callers: &[FCaller], later: bool) -> (Vec<FCall>, Option<FCall>, bool) {
    let guard = Duration::from_millis(scn.timeout * 100);
    let mut stuck = false;
    let futs = callers.iter().enumerate().map(|(i, c)| lookup(h, net, i, c.q, c.at));
    let calls = match tokio::time::timeout(guard, join_all(futs)).await {
        Ok(v) => v,
        Err(_) => {
            stuck = true;
            Vec::new()
        }
    };
    let mut later_res = None;
    if later && !stuck && !callers.is_empty() {
        tokio::time::sleep(Duration::from_millis(1)).await;
        match tokio::time::timeout(guard, lookup(h, net, callers.len(), callers[0].q, 0)).await {
            Ok(r) => later_res = Some(r),
            Err(_) => stuck = true,
        }
    }
    (calls, later_res, stuck)
}

/// fresh scripted network + pool for `scn` (inside a paused current-thread runtime), warm-up done
pub(crate) async fn build(scn: &FScn) -> (Arc<Net>, Probe) {
    let net = Arc::new(Net {
        scn: scn.clone(),
        st: Mutex::new(NetSt {
            warm: true,
            origin: Instant::now(),
            log: Vec::new(),
            next_id: 0,
            seq: 0,
            sends: 0,
            runaway: false,
            attempts: Vec::new(),
            outstanding: HashMap::new(),
            streams: Vec::new(),
            after_answer: HashMap::new(),
            udp_err: HashMap::new(),
        }),
    });
    let prov = FsRuntime { handle: TokioHandle::default(), net: net.clone() };

    let mut opts = ResolverOpts::default();
    opts.timeout = Duration::from_millis(scn.timeout);
    opts.connect_timeout = Duration::from_millis(scn.connect_timeout);
    opts.num_concurrent_reqs = scn.conc;
    opts.server_ordering_strategy = strategy(scn.strat);
    opts.max_active_requests = scn.max_active;
    if let Some(a) = scn.retry {
        opts.attempts = a;
    }
    let mut servers = Vec::new();
    for (i, s) in scn.servers.iter().enumerate() {
        let ip = server_ip(i);
        let mut cfg = match (s.udp.is_some(), s.tcp.is_some()) {
            (true, true) => NameServerConfig::udp_and_tcp(ip),
            (false, true) => NameServerConfig::tcp(ip),
            _ => NameServerConfig::udp(ip),
        };
        cfg.trust_negative_responses = s.trust_nx;
        servers.push(Arc::new(NameServer::new([], cfg, &opts, prov.clone())));
    }
    let cx = Arc::new(PoolContext::new(opts, TlsConfig::new().expect("tls config")));

    // warm-up (zero virtual time): server i records warm[i] failed exchanges, each through a
    // one-server pool (UDP: send_to fails; TCP: connects at once, closes on the query)
    for (i, ns) in servers.iter().enumerate() {
        let n = scn.warm.get(i).copied().unwrap_or(0);
        if n == 0 {
            continue;
        }
        let solo = NameServerPool::from_nameservers(vec![ns.clone()], cx.clone());
        for r in 0..n {
            let name = Name::from_ascii(format!("w{r}.warm.example.")).unwrap();
            let req = DnsRequest::from_query(Query::new(name, RecordType::A), DnsRequestOptions::default());
            let _ = solo.send(req).next().await;
        }
    }
    {
        let mut st = net.st.lock().unwrap();
        st.warm = false;
        st.origin = Instant::now();
        st.sends = 0;
        st.attempts.clear();
        st.outstanding.clear();
    }

    let pool = NameServerPool::from_nameservers(servers, cx);
    let probe = Probe { pool, net: net.clone() };
    (net, probe)
}

impl Net {
    /// history part: servers whose one-shot UDP send failure is armed
    pub(crate) fn udp_armed(&self) -> Vec<usize> {
        let mut v: Vec<usize> = self.st.lock().unwrap().udp_err.keys().copied().collect();
        v.sort_unstable();
        v
    }

    /// history part: number of socket events logged so far
    pub(crate) fn log_len(&self) -> usize {
        self.st.lock().unwrap().log.len()
    }

    /// (socket log, pool lookups, safety valve tripped)
    pub(crate) fn snapshot(&self) -> (Vec<FEv>, Vec<Attempt>, bool) {
        let st = self.st.lock().unwrap();
        (st.log.clone(), st.attempts.clone(), st.runaway)
    }
}

/// Run `callers` (and optionally the later identical query) of `scn` on a fresh pool, fresh
/// runtime, paused clock.
pub fn run(scn: &FScn, callers: &[FCaller], later: bool) -> FRun {
    let rt = tokio::runtime::Builder::new_current_thread().enable_time().start_paused(true).build().expect("runtime");
    rt.block_on(async {
        let (net, probe) = build(scn).await;
        let (calls, later_res, stuck) = match scn.retry {
            None => drive(&probe, &net, scn, callers, later).await,
            Some(a) => drive(&RetryDnsHandle::new(probe, a), &net, scn, callers, later).await,
        };
        let st = net.st.lock().unwrap();
        let mut max_outstanding: Vec<(u32, u32)> = st.outstanding.iter().map(|(k, v)| (*k, v.1)).collect();
        max_outstanding.sort_unstable();
        FRun { calls, later: later_res, log: st.log.clone(), attempts: st.attempts.clone(), max_outstanding, runaway: st.runaway, stuck }
    })
}
