//! Part H — hickory's public client-side helpers that BUILD update messages
//! (`hickory_proto::op::update_message::{create, append, compare_and_swap, delete_by_rdata,
//! delete_rrset, delete_all}` and the `UpdateMessage` trait methods `add_zone`,
//! `add_pre_requisite(s)`, `add_update(s)`, `zones`, `prerequisites`, `updates`).
//!
//! A case is (zone state, operation, EDNS on/off). The operation is a plain value (owner, type,
//! TTL, RDATA list ...); the hickory `RecordSet` / `Record` arguments are built from it.
//!
//! (H1) FORM oracle, rule `helper-form`: the helper's `Message` is encoded with hickory's encoder
//!      and the bytes are read back with the harness' own walker (`refwire::walk`; names inside
//!      RDATA decompressed here). Zone / prerequisite / update sections must be the RFC 2136 rows
//!      the helper's doc comment promises (`promised_form`, written from the doc comments:
//!      §2.4.1/2.4.2/2.4.3 prerequisites, §2.5.1-2.5.4 update rows). Additionally the trait
//!      accessors `zones()/prerequisites()/updates()` must show what is sent (sig
//!      `<helper>|accessor|<section>`).
//!      sig = `<helper>|<section>|<field>`.
//! (H2) EFFECT oracle, rule `helper-effect`: the bytes are TSIG-signed (`reftsig`) and sent
//!      through `Catalog::handle_request` to a fresh `SqliteZoneHandler` loaded with the zone.
//!      rcode and resulting zone are compared with the INTENDED semantics of the operation,
//!      computed on the reference zone from the operation value alone (`intend`; never from the
//!      helper's bytes). sig = `<helper>|rcode|<intent class>|got-<RCODE>`,
//!      `<helper>|zone|<intent class>|<rr-missing,rr-extra,ttl>`, `<helper>|not-atomic|<class>`.
//!
//! Don't-cares:
//!  * order of RRs inside the prerequisite section and inside one group of update rows (all
//!    deletes of a compare_and_swap / delete_by_rdata, all adds): RRset order is not significant
//!    (RFC 2136 §2.4.2); the groups themselves are ordered (deletes before adds). Consequently
//!    the effect oracle accepts the result of any order of the deletes (only matters for "last
//!    NS is kept");
//!  * letter case of owner names; message ID; EDNS flags / options (only presence, version 0 and
//!    the advertised payload size are judged when EDNS was asked for);
//!  * the two RFC latitude variants of `refupdate` (SOA with equal serial, last non-apex NS);
//!  * the SOA serial value after an accepted message (the main part judges serial rules);
//!  * `zone_transfer` (AXFR/IXFR query builder in the same file) is not a dynamic update and is
//!    not judged here.

use std::collections::{BTreeMap, BTreeSet};
use std::sync::Arc;

use hickory_proto::op::update_message::{self as um, UpdateMessage};
use hickory_proto::op::{Message, OpCode, Query};
use hickory_proto::rr::rdata::{A, CNAME, MX, NS, SOA, TXT};
use hickory_proto::rr::{DNSClass, RData, Record, RecordSet, RecordType};
use hickory_server::zone_handler::AxfrPolicy;
use serde_json::{json, Value};

use vh::mon::{self, hex, unhex};
use vh::prng::{fnv64, Rng};
use vh::refwire;

use super::refupdate::*;
use super::zonekit::*;
use super::{reftsig, Runner, Stats, NOW};

const T_OPT: u16 = 41;
const EDNS_PAYLOAD: u16 = 1232;

// ---------------------------------------------------------------------------------------------
// operations

/// The value an application hands to a helper as `RecordSet`
#[derive(Clone, Debug, PartialEq, Eq)]
pub struct RSet {
    pub owner: Labels,
    pub rtype: u16,
    pub ttl: u32,
    /// distinct, in insertion order
    pub rdatas: Vec<Vec<u8>>,
    /// single-record sets: build with `RecordSet::from(Record)` (what `Client::create(record, ..)`
    /// does) instead of `RecordSet::with_ttl` + `add_rdata`
    pub from_record: bool,
}

#[derive(Clone, Debug, PartialEq, Eq)]
pub enum HOp {
    Create(RSet),
    Append(RSet, bool),
    /// (current, new)
    Cas(RSet, RSet),
    DeleteByRdata(RSet),
    /// the `Record` argument of `delete_rrset` (its TTL and RDATA must not matter)
    DeleteRrset { owner: Labels, rtype: u16, ttl: u32, rdata: Vec<u8> },
    DeleteAll(Labels),
    /// message assembled row by row through the `UpdateMessage` trait methods
    Manual { pre: Vec<Rr>, upd: Vec<Rr>, batch: bool },
}

#[derive(Clone, Debug)]
pub struct HCase {
    pub zone: Zone,
    pub op: HOp,
    pub edns: bool,
}

impl HOp {
    pub fn helper(&self) -> &'static str {
        match self {
            HOp::Create(_) => "create",
            HOp::Append(..) => "append",
            HOp::Cas(..) => "compare_and_swap",
            HOp::DeleteByRdata(_) => "delete_by_rdata",
            HOp::DeleteRrset { .. } => "delete_rrset",
            HOp::DeleteAll(_) => "delete_all",
            HOp::Manual { .. } => "trait_methods",
        }
    }
}

fn rset_json(s: &RSet) -> Value {
    json!({
        "o": show(&s.owner), "t": s.rtype, "ttl": s.ttl, "from_record": s.from_record,
        "rds": s.rdatas.iter().map(|r| hex(r)).collect::<Vec<_>>(),
        "text": s.rdatas.iter().map(|r| format!("{} {} IN {} {}", show(&s.owner), s.ttl, type_name(s.rtype), rdata_text(s.rtype, r))).collect::<Vec<_>>(),
    })
}
fn rset_from_json(v: &Value) -> RSet {
    RSet {
        owner: lbl(v["o"].as_str().unwrap_or(".")),
        rtype: v["t"].as_u64().unwrap_or(0) as u16,
        ttl: v["ttl"].as_u64().unwrap_or(0) as u32,
        rdatas: v["rds"].as_array().map(|a| a.iter().map(|x| unhex(x.as_str().unwrap_or(""))).collect()).unwrap_or_default(),
        from_record: v["from_record"].as_bool().unwrap_or(false),
    }
}

pub fn op_json(op: &HOp) -> Value {
    match op {
        HOp::Create(s) => json!({"helper": "create", "rrset": rset_json(s)}),
        HOp::Append(s, m) => json!({"helper": "append", "rrset": rset_json(s), "must_exist": m}),
        HOp::Cas(c, n) => json!({"helper": "compare_and_swap", "current": rset_json(c), "new": rset_json(n)}),
        HOp::DeleteByRdata(s) => json!({"helper": "delete_by_rdata", "rrset": rset_json(s)}),
        HOp::DeleteRrset { owner, rtype, ttl, rdata } => json!({"helper": "delete_rrset", "o": show(owner), "t": rtype, "ttl": ttl, "rd": hex(rdata), "text": format!("{} {} IN {} {}", show(owner), ttl, type_name(*rtype), rdata_text(*rtype, rdata))}),
        HOp::DeleteAll(o) => json!({"helper": "delete_all", "o": show(o)}),
        HOp::Manual { pre, upd, batch } => json!({"helper": "trait_methods", "batch": batch, "pre": pre.iter().map(rr_json).collect::<Vec<_>>(), "upd": upd.iter().map(rr_json).collect::<Vec<_>>()}),
    }
}

pub fn op_from_json(v: &Value) -> Option<HOp> {
    Some(match v["helper"].as_str()? {
        "create" => HOp::Create(rset_from_json(&v["rrset"])),
        "append" => HOp::Append(rset_from_json(&v["rrset"]), v["must_exist"].as_bool().unwrap_or(false)),
        "compare_and_swap" => HOp::Cas(rset_from_json(&v["current"]), rset_from_json(&v["new"])),
        "delete_by_rdata" => HOp::DeleteByRdata(rset_from_json(&v["rrset"])),
        "delete_rrset" => HOp::DeleteRrset { owner: lbl(v["o"].as_str().unwrap_or(".")), rtype: v["t"].as_u64().unwrap_or(0) as u16, ttl: v["ttl"].as_u64().unwrap_or(0) as u32, rdata: unhex(v["rd"].as_str().unwrap_or("")) },
        "delete_all" => HOp::DeleteAll(lbl(v["o"].as_str().unwrap_or("."))),
        "trait_methods" => HOp::Manual {
            pre: v["pre"].as_array().map(|a| a.iter().map(rr_from_json).collect()).unwrap_or_default(),
            upd: v["upd"].as_array().map(|a| a.iter().map(rr_from_json).collect()).unwrap_or_default(),
            batch: v["batch"].as_bool().unwrap_or(false),
        },
        _ => return None,
    })
}

pub fn case_json(c: &HCase) -> Value {
    json!({"kind": "helper", "zone": zone_json(&c.zone), "zone_text": zone_lines(&c.zone), "op": op_json(&c.op), "edns": c.edns})
}

pub fn case_from_json(v: &Value) -> Option<HCase> {
    Some(HCase { zone: zone_from_json(&v["zone"]), op: op_from_json(&v["op"])?, edns: v["edns"].as_bool().unwrap_or(false) })
}

// ---------------------------------------------------------------------------------------------
// plain values -> hickory arguments

fn wire_name_at(b: &[u8], p: &mut usize) -> Option<Labels> {
    let mut out = Vec::new();
    loop {
        let l = *b.get(*p)? as usize;
        *p += 1;
        if l == 0 {
            return Some(out);
        }
        if l & 0xC0 != 0 {
            return None;
        }
        out.push(b.get(*p..*p + l)?.to_vec());
        *p += l;
    }
}

/// RDATA of the universe's types (uncompressed wire form) as hickory `RData`
fn to_rdata(rtype: u16, rd: &[u8]) -> Option<RData> {
    let mut p = 0usize;
    match rtype {
        T_A if rd.len() == 4 => Some(RData::A(A::new(rd[0], rd[1], rd[2], rd[3]))),
        T_NS => {
            let n = wire_name_at(rd, &mut p)?;
            (p == rd.len()).then(|| RData::NS(NS(to_name(&n))))
        }
        T_CNAME => {
            let n = wire_name_at(rd, &mut p)?;
            (p == rd.len()).then(|| RData::CNAME(CNAME(to_name(&n))))
        }
        T_MX if rd.len() > 2 => {
            p = 2;
            let n = wire_name_at(rd, &mut p)?;
            (p == rd.len()).then(|| RData::MX(MX::new(u16::from_be_bytes([rd[0], rd[1]]), to_name(&n))))
        }
        T_TXT => {
            let mut parts: Vec<&[u8]> = Vec::new();
            while p < rd.len() {
                let l = rd[p] as usize;
                parts.push(rd.get(p + 1..p + 1 + l)?);
                p += 1 + l;
            }
            (!parts.is_empty()).then(|| RData::TXT(TXT::from_bytes(parts)))
        }
        T_SOA => {
            let m = wire_name_at(rd, &mut p)?;
            let r = wire_name_at(rd, &mut p)?;
            let b = rd.get(p..p + 20)?;
            if p + 20 != rd.len() {
                return None;
            }
            let u = |i: usize| u32::from_be_bytes([b[i], b[i + 1], b[i + 2], b[i + 3]]);
            Some(RData::SOA(SOA::new(to_name(&m), to_name(&r), u(0), u(4) as i32, u(8) as i32, u(12) as i32, u(16))))
        }
        _ => None,
    }
}

fn class_of(c: u16) -> Option<DNSClass> {
    match c {
        C_IN => Some(DNSClass::IN),
        C_NONE => Some(DNSClass::NONE),
        C_ANY => Some(DNSClass::ANY),
        _ => None,
    }
}

/// one hickory `Record` for a row of the RFC tables (well-formed rows only)
fn to_record(rr: &Rr) -> Option<Record> {
    let class = class_of(rr.class)?;
    let mut rec = if rr.rdata.is_empty() {
        Record::update0(to_name(&rr.owner), rr.ttl, RecordType::from(rr.rtype)).into_record_of_rdata()
    } else {
        Record::from_rdata(to_name(&rr.owner), rr.ttl, to_rdata(rr.rtype, &rr.rdata)?)
    };
    rec.dns_class = class;
    Some(rec)
}

fn record_row(r: &Record) -> Rr {
    Rr { owner: fold(&labels_of_name(&r.name)), rtype: u16::from(r.record_type()), class: u16::from(r.dns_class), ttl: r.ttl, rdata: rdata_wire(&r.data) }
}

/// Build the `RecordSet` argument; Err when the value cannot be represented (outside the
/// universe) or when `RecordSet` does not hold exactly what was put in (then the case says nothing
/// about the helper).
fn to_recordset(s: &RSet) -> Result<RecordSet, String> {
    if s.rdatas.is_empty() {
        return Err("empty rrset".into());
    }
    let name = to_name(&s.owner);
    let mut rds = Vec::new();
    for rd in &s.rdatas {
        rds.push(to_rdata(s.rtype, rd).ok_or_else(|| format!("rdata not representable: {} {}", type_name(s.rtype), hex(rd)))?);
    }
    let set = if s.from_record && rds.len() == 1 {
        RecordSet::from(Record::from_rdata(name, s.ttl, rds.remove(0)))
    } else {
        let mut set = RecordSet::with_ttl(name, RecordType::from(s.rtype), s.ttl);
        for rd in rds {
            set.add_rdata(rd);
        }
        set
    };
    let held: Vec<Rr> = set.records_without_rrsigs().map(record_row).collect();
    let want: Vec<Rr> = s.rdatas.iter().map(|rd| Rr { owner: fold(&s.owner), rtype: s.rtype, class: C_IN, ttl: s.ttl, rdata: rd.clone() }).collect();
    if held != want {
        return Err("RecordSet does not hold the records that were put in".into());
    }
    Ok(set)
}

fn origin() -> hickory_proto::rr::Name {
    to_name(&apex())
}

/// Call the helper. Err(reason) = the operation is not expressible (case skipped).
fn call_helper(op: &HOp, edns: bool) -> Result<Message, String> {
    Ok(match op {
        HOp::Create(s) => um::create(to_recordset(s)?, origin(), edns),
        HOp::Append(s, must) => um::append(to_recordset(s)?, origin(), *must, edns),
        HOp::Cas(c, n) => um::compare_and_swap(to_recordset(c)?, to_recordset(n)?, origin(), edns),
        HOp::DeleteByRdata(s) => um::delete_by_rdata(to_recordset(s)?, origin(), edns),
        HOp::DeleteRrset { owner, rtype, ttl, rdata } => {
            let rd = to_rdata(*rtype, rdata).ok_or("rdata not representable")?;
            um::delete_rrset(Record::from_rdata(to_name(owner), *ttl, rd), origin(), edns)
        }
        HOp::DeleteAll(o) => um::delete_all(to_name(o), origin(), DNSClass::IN, edns),
        HOp::Manual { pre, upd, batch } => {
            let mut m = Message::query();
            m.metadata.op_code = OpCode::Update;
            m.metadata.recursion_desired = false;
            let mut q = Query::root();
            q.set_name(origin()).set_query_class(DNSClass::IN).set_query_type(RecordType::SOA);
            m.add_zone(q);
            let p: Vec<Record> = pre.iter().map(|r| to_record(r).ok_or("row not representable")).collect::<Result<_, _>>()?;
            let u: Vec<Record> = upd.iter().map(|r| to_record(r).ok_or("row not representable")).collect::<Result<_, _>>()?;
            if *batch {
                m.add_pre_requisites(p);
                m.add_updates(u);
            } else {
                for r in p {
                    m.add_pre_requisite(r);
                }
                for r in u {
                    m.add_update(r);
                }
            }
            if edns {
                m.edns.get_or_insert_with(hickory_proto::op::Edns::new).set_max_payload(EDNS_PAYLOAD).set_version(0);
            }
            m
        }
    })
}

// ---------------------------------------------------------------------------------------------
// H1: the promised form, written from the helpers' doc comments

pub struct Form {
    /// prerequisite section: one group, order not significant
    pub pre: Vec<Rr>,
    /// update section: ordered groups; inside a group order is not significant
    pub upd: Vec<Vec<Rr>>,
}

fn row(owner: &Labels, class: u16, rtype: u16, ttl: u32, rdata: &[u8]) -> Rr {
    Rr { owner: fold(owner), rtype, class, ttl, rdata: rdata.to_vec() }
}

pub fn promised_form(op: &HOp) -> Form {
    // 2.5.1 Add To An RRset: NAME, TYPE, TTL, RDLENGTH, RDATA those being added, CLASS = zone class
    let adds = |s: &RSet| -> Vec<Rr> { s.rdatas.iter().map(|rd| row(&s.owner, C_IN, s.rtype, s.ttl, rd)).collect() };
    // 2.5.4 Delete An RR From An RRset: NAME, TYPE, RDLENGTH, RDATA match, TTL 0, CLASS NONE
    let dels = |s: &RSet| -> Vec<Rr> { s.rdatas.iter().map(|rd| row(&s.owner, C_NONE, s.rtype, 0, rd)).collect() };
    match op {
        // "2.4.3 RRset Does Not Exist": single RR, NAME+TYPE of the RRset, RDLENGTH 0, CLASS NONE, TTL 0
        HOp::Create(s) => Form { pre: vec![row(&s.owner, C_NONE, s.rtype, 0, &[])], upd: vec![adds(s)] },
        // "2.4.1 RRset Exists (Value Independent)": single RR, RDLENGTH 0, CLASS ANY, TTL 0 -- iff must_exist
        HOp::Append(s, must) => Form { pre: if *must { vec![row(&s.owner, C_ANY, s.rtype, 0, &[])] } else { vec![] }, upd: vec![adds(s)] },
        // "2.4.2 RRset Exists (Value Dependent)": the entire RRset, CLASS of the zone, TTL 0;
        // then 2.5.4 for the current RRs, then 2.5.1 for the new ones
        HOp::Cas(c, n) => Form { pre: c.rdatas.iter().map(|rd| row(&c.owner, C_IN, c.rtype, 0, rd)).collect(), upd: vec![dels(c), adds(n)] },
        HOp::DeleteByRdata(s) => Form { pre: vec![], upd: vec![dels(s)] },
        // "2.5.2 Delete An RRset": one RR, NAME+TYPE, TTL 0, CLASS ANY, RDLENGTH 0
        HOp::DeleteRrset { owner, rtype, .. } => Form { pre: vec![], upd: vec![vec![row(owner, C_ANY, *rtype, 0, &[])]] },
        // "2.5.3 Delete All RRsets From A Name": one RR, TYPE ANY, TTL 0, CLASS ANY, RDLENGTH 0
        HOp::DeleteAll(o) => Form { pre: vec![], upd: vec![vec![row(o, C_ANY, T_ANY, 0, &[])]] },
        // the rows as given, update rows in the order given
        HOp::Manual { pre, upd, .. } => Form {
            pre: pre.iter().map(|r| row(&r.owner, r.class, r.rtype, r.ttl, &r.rdata)).collect(),
            upd: upd.iter().map(|r| vec![row(&r.owner, r.class, r.rtype, r.ttl, &r.rdata)]).collect(),
        },
    }
}

/// what the bytes say, by the harness' own walker
pub struct WireView {
    pub flags: u16,
    pub zones: Vec<(Labels, u16, u16)>,
    pub pre: Vec<Rr>,
    pub upd: Vec<Rr>,
    /// additional section: (owner, type, class, ttl, raw rdata)
    pub add: Vec<(Labels, u16, u16, u32, Vec<u8>)>,
}

fn canon_rdata(msg: &[u8], r: &refwire::WRecord) -> Result<Vec<u8>, String> {
    let raw = r.rdata(msg);
    if raw.is_empty() {
        return Ok(Vec::new());
    }
    let mut out = Vec::new();
    let name = |off: usize, out: &mut Vec<u8>| -> Result<usize, String> {
        let (n, p) = refwire::read_name(msg, off)?;
        refwire::put_name(out, &refwire::fold(&n.labels));
        Ok(p)
    };
    let p = match r.rtype {
        T_NS | T_CNAME => name(r.rdata_off, &mut out)?,
        T_MX => {
            if raw.len() < 3 {
                return Err("short MX".into());
            }
            out.extend_from_slice(&raw[..2]);
            name(r.rdata_off + 2, &mut out)?
        }
        T_SOA => {
            let p = name(r.rdata_off, &mut out)?;
            let p = name(p, &mut out)?;
            if p + 20 > r.end {
                return Err("short SOA".into());
            }
            out.extend_from_slice(&msg[p..p + 20]);
            p + 20
        }
        _ => return Ok(raw.to_vec()),
    };
    if p != r.end {
        return Err(format!("rdata of type {} has {} stray octets", type_name(r.rtype), r.end as i64 - p as i64));
    }
    Ok(out)
}

pub fn wire_view(msg: &[u8]) -> Result<WireView, String> {
    let w = refwire::walk(msg)?;
    if w.end != msg.len() {
        return Err(format!("{} trailing octets", msg.len() - w.end));
    }
    let rows = |sec: &Vec<refwire::WRecord>| -> Result<Vec<Rr>, String> {
        sec.iter().map(|r| Ok(Rr { owner: refwire::fold(&r.owner.labels), rtype: r.rtype, class: r.class, ttl: r.ttl, rdata: canon_rdata(msg, r)? })).collect()
    };
    Ok(WireView {
        flags: w.header.flags,
        zones: w.questions.iter().map(|q| (refwire::fold(&q.name.labels), q.qtype, q.qclass)).collect(),
        pre: rows(&w.sections[0])?,
        upd: rows(&w.sections[1])?,
        add: w.sections[2].iter().map(|r| (r.owner.labels.clone(), r.rtype, r.class, r.ttl, r.rdata(msg).to_vec())).collect(),
    })
}

fn rows_text(v: &[Rr]) -> Vec<String> {
    v.iter().map(rr_text).collect()
}

/// first field in which `got` deviates from the promised groups: (field, expected, observed)
fn first_diff(exp: &[Vec<Rr>], got: &[Rr]) -> Option<(&'static str, Value, Value)> {
    let n: usize = exp.iter().map(|g| g.len()).sum();
    if n != got.len() {
        return Some(("count", json!(exp.iter().map(|g| rows_text(g)).collect::<Vec<_>>()), json!(rows_text(got))));
    }
    let mut off = 0;
    for g in exp {
        let slice = &got[off..off + g.len()];
        off += g.len();
        if slice == &g[..] {
            continue;
        }
        let mut a = g.clone();
        a.sort();
        let mut b = slice.to_vec();
        b.sort();
        if a == b {
            continue;
        }
        // align what can be aligned: drop rows present on both sides, compare the rest in order
        let mut rest_e: Vec<Rr> = Vec::new();
        let mut rest_o: Vec<Rr> = slice.to_vec();
        for e in g {
            if let Some(i) = rest_o.iter().position(|o| o == e) {
                rest_o.remove(i);
            } else {
                rest_e.push(e.clone());
            }
        }
        for (e, o) in rest_e.iter().zip(rest_o.iter()) {
            let field = if e.owner != o.owner {
                "name"
            } else if e.class != o.class {
                "class"
            } else if e.rtype != o.rtype {
                "type"
            } else if e.ttl != o.ttl {
                "ttl"
            } else {
                "rdata"
            };
            return Some((field, json!(rr_text(e)), json!(rr_text(o))));
        }
    }
    None
}

#[derive(Clone, Debug)]
pub struct HFinding {
    pub rule: String,
    pub sig: String,
    pub expected: Value,
    pub observed: Value,
}

fn form_findings(case: &HCase, msg: &Message, bytes: &[u8], out: &mut Vec<HFinding>) -> Option<WireView> {
    let h = case.op.helper();
    let mut push = |sig: String, expected: Value, observed: Value| out.push(HFinding { rule: "helper-form".into(), sig, expected, observed });
    let w = match wire_view(bytes) {
        Ok(w) => w,
        Err(e) => {
            push(format!("{h}|message|not-walkable"), json!("a well-formed message"), json!({"error": e, "bytes": hex(bytes)}));
            return None;
        }
    };
    let form = promised_form(&case.op);
    // header: QR 0, Opcode UPDATE, Z and RCODE zero (RFC 2136 2.2)
    if w.flags != 5 << 11 {
        push(format!("{h}|header|flags"), json!("0x2800 (QR=0 Opcode=UPDATE Z=0 RCODE=0)"), json!(format!("{:#06x}", w.flags)));
    }
    // zone section: exactly one entry <zone origin, SOA, class of the zone>
    let zexp = (apex(), T_SOA, C_IN);
    if w.zones.len() != 1 {
        push(format!("{h}|zone|count"), json!(1), json!(w.zones.len()));
    } else {
        let z = &w.zones[0];
        let field = if z.0 != zexp.0 {
            Some("name")
        } else if z.1 != zexp.1 {
            Some("type")
        } else if z.2 != zexp.2 {
            Some("class")
        } else {
            None
        };
        if let Some(f) = field {
            push(format!("{h}|zone|{f}"), json!(format!("{} {} {}", show(&zexp.0), class_name(zexp.2), type_name(zexp.1))), json!(format!("{} {} {}", show(&z.0), class_name(z.2), type_name(z.1))));
        }
    }
    if let Some((f, e, o)) = first_diff(&[form.pre.clone()], &w.pre) {
        push(format!("{h}|prerequisite|{f}"), json!({"row": e, "section": rows_text(&form.pre)}), json!({"row": o, "section": rows_text(&w.pre)}));
    }
    if let Some((f, e, o)) = first_diff(&form.upd, &w.upd) {
        let all: Vec<Rr> = form.upd.iter().flatten().cloned().collect();
        push(format!("{h}|update|{f}"), json!({"row": e, "section": rows_text(&all)}), json!({"row": o, "section": rows_text(&w.upd)}));
    }
    // additional section: nothing, or exactly the OPT record that was asked for
    let add_text = |a: &Vec<(Labels, u16, u16, u32, Vec<u8>)>| a.iter().map(|(n, t, c, ttl, rd)| format!("{} type={} class={} ttl={:#x} rdata={}", show(n), t, c, ttl, hex(rd))).collect::<Vec<_>>();
    if !case.edns {
        if !w.add.is_empty() {
            push(format!("{h}|additional|count"), json!([]), json!(add_text(&w.add)));
        }
    } else if w.add.len() != 1 || w.add[0].1 != T_OPT || !w.add[0].0.is_empty() {
        push(format!("{h}|additional|edns-missing"), json!("one OPT record owned by the root"), json!(add_text(&w.add)));
    } else {
        let (_, _, class, ttl, _) = &w.add[0];
        if (ttl >> 16) & 0xff != 0 {
            push(format!("{h}|additional|edns-version"), json!(0), json!((ttl >> 16) & 0xff));
        }
        if *class != EDNS_PAYLOAD {
            push(format!("{h}|additional|edns-payload"), json!(EDNS_PAYLOAD), json!(class));
        }
    }
    // the trait accessors must show what is sent
    let az: Vec<(Labels, u16, u16)> = msg.zones().iter().map(|q| (fold(&labels_of_name(&q.name)), u16::from(q.query_type), u16::from(q.query_class))).collect();
    if az != w.zones {
        push(format!("{h}|accessor|zones"), json!(format!("{:?}", w.zones.iter().map(|z| format!("{} {} {}", show(&z.0), class_name(z.2), type_name(z.1))).collect::<Vec<_>>())), json!(format!("{:?}", az.iter().map(|z| format!("{} {} {}", show(&z.0), class_name(z.2), type_name(z.1))).collect::<Vec<_>>())));
    }
    let ap: Vec<Rr> = msg.prerequisites().iter().map(record_row).collect();
    if ap != w.pre {
        push(format!("{h}|accessor|prerequisites"), json!(rows_text(&w.pre)), json!(rows_text(&ap)));
    }
    let au: Vec<Rr> = msg.updates().iter().map(record_row).collect();
    if au != w.upd {
        push(format!("{h}|accessor|updates"), json!(rows_text(&w.upd)), json!(rows_text(&au)));
    }
    Some(w)
}

// ---------------------------------------------------------------------------------------------
// H2: intended semantics, computed on the reference zone from the operation value

fn drop_if_empty(z: &mut Zone, key: &RrKey) {
    if z.sets.get(key).is_some_and(|s| s.is_empty()) {
        z.sets.remove(key);
    }
}

/// "add this RR" (RFC 2136 3.4.2.2)
fn i_add(z: &mut Zone, owner: &Labels, t: u16, ttl: u32, rd: &[u8], v: Variant) {
    let o = fold(owner);
    let here = z.types_at(&o);
    if t == T_CNAME && here.iter().any(|x| *x != T_CNAME) {
        return; // CNAME and other data never coexist: ignored
    }
    if t != T_CNAME && here.contains(&T_CNAME) {
        return;
    }
    if t == T_SOA {
        // only replaces an existing SOA, and only with a higher serial
        let Some(cur) = z.rrset(&o, T_SOA).and_then(|s| s.keys().next().cloned()) else { return };
        let (zs, ns) = (soa_serial_of(&cur).unwrap_or(0), soa_serial_of(rd).unwrap_or(0));
        if serial_gt(zs, ns) || (zs == ns && !v.soa_equal_replaces) {
            return;
        }
    }
    let set = z.sets.entry((o, t)).or_default();
    if t == T_CNAME || t == T_SOA {
        set.clear();
    }
    set.insert(rd.to_vec(), ttl);
}

/// "delete this RR" (3.4.2.4): never the SOA, never the last NS (apex; any name under the
/// pseudocode reading)
fn i_del_rr(z: &mut Zone, owner: &Labels, t: u16, rd: &[u8], v: Variant) {
    let o = fold(owner);
    if t == T_SOA {
        return;
    }
    if t == T_NS {
        if let Some(s) = z.rrset(&o, T_NS) {
            if s.len() == 1 && s.contains_key(rd) && (o == z.apex || !v.nonapex_last_ns_deletable) {
                return;
            }
        }
    }
    let key = (o, t);
    if let Some(s) = z.sets.get_mut(&key) {
        s.remove(rd);
    }
    drop_if_empty(z, &key);
}

/// "delete this RRset" (3.4.2.3): apex SOA and NS stay
fn i_del_rrset(z: &mut Zone, owner: &Labels, t: u16) {
    let o = fold(owner);
    if o == z.apex && (t == T_SOA || t == T_NS) {
        return;
    }
    z.sets.remove(&(o, t));
}

/// "delete all RRsets at this name" (3.4.2.3): apex SOA and NS stay
fn i_del_name(z: &mut Zone, owner: &Labels) {
    let o = fold(owner);
    let at_apex = o == z.apex;
    z.sets.retain(|(n, t), _| *n != o || (at_apex && (*t == T_SOA || *t == T_NS)));
}

fn permutations(n: usize) -> Vec<Vec<usize>> {
    fn rec(cur: &mut Vec<usize>, used: &mut Vec<bool>, out: &mut Vec<Vec<usize>>) {
        if cur.len() == used.len() {
            out.push(cur.clone());
            return;
        }
        for i in 0..used.len() {
            if !used[i] {
                used[i] = true;
                cur.push(i);
                rec(cur, used, out);
                cur.pop();
                used[i] = false;
            }
        }
    }
    let mut out = Vec::new();
    rec(&mut Vec::new(), &mut vec![false; n], &mut out);
    out
}

pub struct Intent {
    pub rcodes: BTreeSet<u8>,
    /// acceptable resulting zones (RFC latitude variants, order of deletes)
    pub zones: Vec<Zone>,
    /// outcome class (counter / signature component)
    pub class: String,
}

fn one(r: u8) -> BTreeSet<u8> {
    let mut s = BTreeSet::new();
    s.insert(r);
    s
}

fn dedup_zones(mut v: Vec<Zone>) -> Vec<Zone> {
    let mut out: Vec<Zone> = Vec::new();
    for z in v.drain(..) {
        if !out.contains(&z) {
            out.push(z);
        }
    }
    out
}

pub fn intend(z: &Zone, op: &HOp) -> Intent {
    let unchanged = |rc: u8, class: &str| Intent { rcodes: one(rc), zones: vec![z.clone()], class: class.to_string() };
    // every order of a group of deletes is acceptable; only NS deletes depend on it
    let orders = |s: &RSet| -> Vec<Vec<usize>> { if s.rtype == T_NS && s.rdatas.len() <= 4 { permutations(s.rdatas.len()) } else { vec![(0..s.rdatas.len()).collect()] } };
    match op {
        HOp::Create(s) => {
            // created iff the RRset did not exist; else YXRRSET and nothing happens
            if z.rrset(&s.owner, s.rtype).is_some() {
                return unchanged(YXRRSET, "exists");
            }
            let zones: Vec<Zone> = VARIANTS.iter().map(|v| { let mut n = z.clone(); for rd in &s.rdatas { i_add(&mut n, &s.owner, s.rtype, s.ttl, rd, *v); } n }).collect();
            let class = if zones[0] == *z { "ignored" } else { "created" };
            Intent { rcodes: one(NOERROR), zones: dedup_zones(zones), class: class.into() }
        }
        HOp::Append(s, must) => {
            let exists = z.rrset(&s.owner, s.rtype).is_some();
            if *must && !exists {
                return unchanged(NXRRSET, "must-exist-absent");
            }
            let zones: Vec<Zone> = VARIANTS.iter().map(|v| { let mut n = z.clone(); for rd in &s.rdatas { i_add(&mut n, &s.owner, s.rtype, s.ttl, rd, *v); } n }).collect();
            let class = match (zones[0] == *z, exists, *must) {
                (true, _, _) => "nothing-new",
                (false, true, true) => "extended-must-exist",
                (false, true, false) => "extended",
                (false, false, _) => "new-rrset",
            };
            Intent { rcodes: one(NOERROR), zones: dedup_zones(zones), class: class.into() }
        }
        HOp::Cas(c, n) => {
            // swapped iff `current` is exactly the zone's RRset (TTL not compared)
            let have: BTreeSet<Vec<u8>> = z.rrset(&c.owner, c.rtype).map(|s| s.keys().cloned().collect()).unwrap_or_default();
            let want: BTreeSet<Vec<u8>> = c.rdatas.iter().cloned().collect();
            if have != want {
                let class = if have.is_empty() { "mismatch-absent" } else if want.is_subset(&have) { "mismatch-subset" } else if have.is_subset(&want) { "mismatch-superset" } else { "mismatch-other" };
                return unchanged(NXRRSET, class);
            }
            let mut zones = Vec::new();
            for v in VARIANTS {
                for ord in orders(c) {
                    let mut nz = z.clone();
                    for i in &ord {
                        i_del_rr(&mut nz, &c.owner, c.rtype, &c.rdatas[*i], v);
                    }
                    for rd in &n.rdatas {
                        i_add(&mut nz, &n.owner, n.rtype, n.ttl, rd, v);
                    }
                    zones.push(nz);
                }
            }
            let class = if zones[0] == *z { "swapped-same" } else { "swapped" };
            Intent { rcodes: one(NOERROR), zones: dedup_zones(zones), class: class.into() }
        }
        HOp::DeleteByRdata(s) => {
            let mut zones = Vec::new();
            for v in VARIANTS {
                for ord in orders(s) {
                    let mut nz = z.clone();
                    for i in &ord {
                        i_del_rr(&mut nz, &s.owner, s.rtype, &s.rdatas[*i], v);
                    }
                    zones.push(nz);
                }
            }
            let present = z.rrset(&s.owner, s.rtype).map(|set| s.rdatas.iter().filter(|rd| set.contains_key(*rd)).count()).unwrap_or(0);
            let left = zones[0].rrset(&s.owner, s.rtype).map(|x| x.len()).unwrap_or(0);
            let before = z.rrset(&s.owner, s.rtype).map(|x| x.len()).unwrap_or(0);
            let class = if present == 0 {
                "no-such-rr"
            } else if before - left < present {
                "protected"
            } else if left == 0 {
                "rrset-gone"
            } else {
                "some-deleted"
            };
            Intent { rcodes: one(NOERROR), zones: dedup_zones(zones), class: class.into() }
        }
        HOp::DeleteRrset { owner, rtype, .. } => {
            let mut nz = z.clone();
            i_del_rrset(&mut nz, owner, *rtype);
            let class = if z.rrset(owner, *rtype).is_none() { "no-such-rrset" } else if nz == *z { "protected" } else { "deleted" };
            Intent { rcodes: one(NOERROR), zones: vec![nz], class: class.into() }
        }
        HOp::DeleteAll(o) => {
            let mut nz = z.clone();
            i_del_name(&mut nz, o);
            let class = if !z.name_in_use(o) { "name-not-in-use" } else if fold(o) == z.apex { "apex" } else { "deleted" };
            Intent { rcodes: one(NOERROR), zones: vec![nz], class: class.into() }
        }
        HOp::Manual { pre, upd, .. } => {
            // the rows ARE the operation: RFC 2136 processing of exactly these rows
            let outs: Vec<Outcome> = VARIANTS.iter().map(|v| process(z, pre, upd, *v)).collect();
            let class = match outs[0].stage {
                "ok" => "accepted",
                "prereq" => "prerequisite-fails",
                _ => "prescan-fails",
            };
            Intent { rcodes: outs[0].rcodes.clone(), zones: dedup_zones(outs.iter().map(|o| o.zone.clone()).collect()), class: class.into() }
        }
    }
}

fn zone_diff_kinds(exp: &Zone, cur: &Snap) -> Vec<&'static str> {
    let mut e: BTreeMap<(Labels, u16, Vec<u8>), u32> = BTreeMap::new();
    for (n, t, rd, ttl) in exp.projection_without_serial() {
        e.insert((n, t, rd), ttl);
    }
    let mut o: BTreeMap<(Labels, u16, Vec<u8>), u32> = BTreeMap::new();
    let mut dup = false;
    for (n, t, rd, ttl) in cur.projection_without_serial() {
        dup |= o.insert((n, t, rd), ttl).is_some();
    }
    let mut kinds = BTreeSet::new();
    for (k, ttl) in &e {
        match o.get(k) {
            None => {
                kinds.insert("rr-missing");
            }
            Some(t) if t != ttl => {
                kinds.insert("ttl");
            }
            _ => {}
        }
    }
    if o.keys().any(|k| !e.contains_key(k)) {
        kinds.insert("rr-extra");
    }
    if dup || cur.has_duplicates_or_foreign_class() {
        kinds.insert("duplicate-or-class");
    }
    kinds.into_iter().collect()
}

fn effect_findings(runner: &mut Runner, case: &HCase, bytes: &[u8], stats: &mut Stats, out: &mut Vec<HFinding>) {
    let h = case.op.helper();
    runner.env.write_zone(&zone_text(&case.zone));
    let handler = match runner.rt.block_on(runner.env.open(":memory:", AxfrPolicy::Deny)) {
        Ok(x) => Arc::new(x),
        Err(e) => {
            stats.harness_problems.push(format!("H: zone did not load: {e}"));
            return;
        }
    };
    let cat = catalog_for(&handler);
    let prev = snapshot(&runner.rt, &handler);
    if prev.to_zone() != case.zone || prev.has_duplicates_or_foreign_class() {
        stats.count("H/init_mismatch");
        return;
    }
    let intent = intend(&case.zone, &case.op);
    let mut wire = bytes.to_vec();
    let id = runner.id();
    wire[0..2].copy_from_slice(&id.to_be_bytes());
    let signed = reftsig::sign_request(&wire, &runner.key, NOW, 300);
    stats.evals += 1;
    let exp_json = |i: &Intent| json!({"rcode": i.rcodes.iter().map(|r| rcode_name(*r)).collect::<Vec<_>>(), "outcome": i.class, "zone": zone_lines(&i.zones[0]), "acceptable_variants": i.zones.len()});
    let mut push = |sig: String, expected: Value, observed: Value| out.push(HFinding { rule: "helper-effect".into(), sig, expected, observed });
    let r = match send(&runner.rt, &cat, &signed) {
        Ok(v) if v.len() == 1 => rcode_of(&v[0]).unwrap_or(255),
        Ok(v) => {
            push(format!("{h}|response-count|{}", intent.class), json!(1), json!(v.len()));
            return;
        }
        Err(SendErr::Parse(e)) => {
            push(format!("{h}|rcode|{}|server-cannot-decode", intent.class), exp_json(&intent), json!({"decode_error": e, "message": hex(&wire)}));
            return;
        }
        Err(SendErr::Panic(p)) => {
            out.push(HFinding { rule: "panic".into(), sig: format!("helper:{h}:{}", p.site()), expected: json!("no panic"), observed: json!({"message": p.message, "location": p.location}) });
            return;
        }
    };
    let cur = snapshot(&runner.rt, &handler);
    if (r == NOTAUTH || r == REFUSED) && !intent.rcodes.contains(&r) {
        // the TSIG / authorisation gate turned the message away: nothing about update semantics
        stats.harness_problems.push(format!("H: update rejected by TSIG gate: {}", rcode_name(r)));
        return;
    }
    stats.count(&format!("H/{h}/{}", intent.class));
    stats.count(&format!("H/rcode/{}", rcode_name(r)));
    stats.count(if case.edns { "H/edns-on" } else { "H/edns-off" });
    let obs = json!({"rcode": rcode_name(r), "zone": cur.lines(), "zone_before": prev.lines(), "message": hex(&wire)});
    if !intent.rcodes.contains(&r) {
        push(format!("{h}|rcode|{}|got-{}", intent.class, rcode_name(r)), exp_json(&intent), obs);
        return;
    }
    if r != NOERROR {
        if cur != prev {
            push(format!("{h}|not-atomic|{}", intent.class), exp_json(&intent), obs);
        }
        return;
    }
    let cur_proj = cur.projection_without_serial();
    if !cur.has_duplicates_or_foreign_class() && intent.zones.iter().any(|z| z.projection_without_serial() == cur_proj) {
        return;
    }
    let (best, kinds) = intent.zones.iter().map(|z| (z, zone_diff_kinds(z, &cur))).min_by_key(|(_, k)| k.len()).unwrap();
    let mut e = exp_json(&intent);
    e["zone"] = json!(zone_lines(best));
    push(format!("{h}|zone|{}|{}", intent.class, kinds.join(",")), e, obs);
}

/// Judge one case with both oracles.
pub fn judge(runner: &mut Runner, case: &HCase, stats: &mut Stats) -> Vec<HFinding> {
    let mut out = Vec::new();
    let h = case.op.helper();
    let built = mon::catch(|| call_helper(&case.op, case.edns).map(|m| { let b = m.to_vec(); (m, b) }));
    let (msg, bytes) = match built {
        Ok(Ok((m, Ok(b)))) => (m, b),
        Ok(Ok((_, Err(e)))) => {
            stats.evals += 1;
            out.push(HFinding { rule: "helper-form".into(), sig: format!("{h}|message|not-encodable"), expected: json!("an encodable message"), observed: json!(e.to_string()) });
            return out;
        }
        Ok(Err(why)) => {
            stats.count("H/skipped_not_expressible");
            let _ = why;
            return out;
        }
        Err(p) => {
            stats.evals += 1;
            out.push(HFinding { rule: "panic".into(), sig: format!("helper:{h}:{}", p.site()), expected: json!("no panic (owner is inside the zone)"), observed: json!({"message": p.message, "location": p.location}) });
            return out;
        }
    };
    stats.evals += 1;
    stats.count(&format!("H/form/{h}"));
    stats.nontrivial.push(fnv64(format!("H|{}|{}|{}", zone_text(&case.zone), op_json(&case.op), case.edns).as_bytes()));
    let w = form_findings(case, &msg, &bytes, &mut out);
    let Some(w) = w else { return out };
    // a message for another zone / another opcode is not an update of this zone: nothing to send
    if w.zones != vec![(apex(), T_SOA, C_IN)] || (w.flags >> 11) & 0xf != 5 || w.flags & 0x8000 != 0 {
        stats.count("H/effect_skipped_zone_or_opcode");
        return out;
    }
    effect_findings(runner, case, &bytes, stats, &mut out);
    out
}

/// Smallest zone (RRsets dropped greedily, apex SOA/NS kept) that still shows (rule, sig)
pub fn shrink(runner: &mut Runner, case: &HCase, rule: &str, sig: &str) -> HCase {
    let mut best = case.clone();
    let keys: Vec<RrKey> = best.zone.sets.keys().cloned().collect();
    for k in keys {
        if k.0 == best.zone.apex && (k.1 == T_SOA || k.1 == T_NS) {
            continue;
        }
        let mut cand = best.clone();
        cand.zone.sets.remove(&k);
        let mut st = Stats::default();
        if judge(runner, &cand, &mut st).iter().any(|f| f.rule == rule && f.sig == sig) {
            best = cand;
        }
    }
    best
}

// ---------------------------------------------------------------------------------------------
// generator (state aware)

fn g_type(rng: &mut Rng) -> u16 {
    [T_A, T_A, T_A, T_TXT, T_TXT, T_MX, T_MX, T_CNAME, T_NS, T_NS, T_SOA][rng.usize_below(11)]
}

fn g_name(rng: &mut Rng) -> Labels {
    lbl(NAMES[rng.usize_below(NAMES.len())])
}

fn max_records(t: u16) -> usize {
    if t == T_CNAME || t == T_SOA { 1 } else { 3 }
}

fn g_rdatas(rng: &mut Rng, t: u16, serial: u32, n: usize) -> Vec<Vec<u8>> {
    let mut v = rdata_values(t, serial);
    rng.shuffle(&mut v);
    v.truncate(n.clamp(1, max_records(t)));
    v
}

fn g_count(rng: &mut Rng) -> usize {
    1 + rng.weighted(&[50, 35, 15])
}

fn g_case_fix(rng: &mut Rng, l: &Labels) -> Labels {
    if rng.chance(1, 12) {
        l.iter().map(|x| x.to_ascii_uppercase()).collect()
    } else {
        l.clone()
    }
}

fn g_rset(rng: &mut Rng, owner: &Labels, t: u16, rdatas: Vec<Vec<u8>>) -> RSet {
    let mut rdatas = rdatas;
    rdatas.truncate(max_records(t).max(1));
    let mut seen = BTreeSet::new();
    rdatas.retain(|r| seen.insert(r.clone()));
    let from_record = rdatas.len() == 1 && rng.bool();
    RSet { owner: g_case_fix(rng, owner), rtype: t, ttl: *rng.pick(&TTLS), rdatas, from_record }
}

pub fn gen_op(rng: &mut Rng, z: &Zone) -> HOp {
    let serial = z.serial().unwrap_or(1);
    let keys: Vec<RrKey> = z.sets.iter().filter(|(_, s)| !s.is_empty()).map(|(k, _)| k.clone()).collect();
    let absent_key = |rng: &mut Rng| -> RrKey {
        let mut k = (g_name(rng), g_type(rng));
        for _ in 0..4 {
            if z.rrset(&k.0, k.1).is_none() {
                break;
            }
            k = (g_name(rng), g_type(rng));
        }
        k
    };
    match rng.weighted(&[18, 18, 22, 16, 9, 7, 10]) {
        0 => {
            let k = if rng.chance(2, 5) { rng.pick(&keys).clone() } else { absent_key(rng) };
            let n = g_count(rng);
            let rds = g_rdatas(rng, k.1, serial, n);
            HOp::Create(g_rset(rng, &k.0, k.1, rds))
        }
        1 => {
            let k = if rng.chance(11, 20) { rng.pick(&keys).clone() } else { absent_key(rng) };
            let n = g_count(rng);
            let rds = g_rdatas(rng, k.1, serial, n);
            HOp::Append(g_rset(rng, &k.0, k.1, rds), rng.bool())
        }
        2 => {
            let (k, cur_rds) = if rng.chance(5, 6) {
                let k = rng.pick(&keys).clone();
                let mut want: Vec<Vec<u8>> = z.sets[&k].keys().cloned().collect();
                match rng.below(8) {
                    4 => {
                        if want.len() > 1 {
                            let i = rng.usize_below(want.len());
                            want.remove(i);
                        } else {
                            want = g_rdatas(rng, k.1, serial, 1);
                        }
                    }
                    5 => {
                        let extra = rng.pick(&rdata_values(k.1, serial)).clone();
                        if !want.contains(&extra) && want.len() < max_records(k.1) {
                            want.push(extra);
                        }
                    }
                    6 => want = g_rdatas(rng, k.1, serial, 1),
                    _ => {}
                }
                rng.shuffle(&mut want);
                (k, want)
            } else {
                let k = (g_name(rng), g_type(rng));
                let n = g_count(rng);
                let rds = g_rdatas(rng, k.1, serial, n);
                (k, rds)
            };
            let n = g_count(rng);
            let new_rds = g_rdatas(rng, k.1, serial, n);
            let new_owner = if rng.chance(1, 10) { g_name(rng) } else { k.0.clone() };
            let cur = g_rset(rng, &k.0, k.1, cur_rds);
            let mut new = g_rset(rng, &new_owner, k.1, new_rds);
            if new_owner == k.0 {
                new.owner = cur.owner.clone();
            }
            HOp::Cas(cur, new)
        }
        3 => {
            let (k, rds) = if rng.chance(4, 5) {
                let k = rng.pick(&keys).clone();
                let set: Vec<Vec<u8>> = z.sets[&k].keys().cloned().collect();
                let rds = match rng.below(4) {
                    0 => set.clone(),
                    1 => vec![rng.pick(&set).clone()],
                    2 => {
                        let mut v = vec![rng.pick(&set).clone()];
                        v.extend(g_rdatas(rng, k.1, serial, 1));
                        v
                    }
                    _ => {
                        let n = g_count(rng);
                        g_rdatas(rng, k.1, serial, n)
                    }
                };
                (k, rds)
            } else {
                let k = (g_name(rng), g_type(rng));
                let n = g_count(rng);
                let rds = g_rdatas(rng, k.1, serial, n);
                (k, rds)
            };
            let mut rds = rds;
            rng.shuffle(&mut rds);
            HOp::DeleteByRdata(g_rset(rng, &k.0, k.1, rds))
        }
        4 => {
            let k = if rng.chance(7, 10) { rng.pick(&keys).clone() } else { (g_name(rng), g_type(rng)) };
            let rd = rng.pick(&rdata_values(k.1, serial)).clone();
            HOp::DeleteRrset { owner: g_case_fix(rng, &k.0), rtype: k.1, ttl: *rng.pick(&TTLS), rdata: rd }
        }
        5 => {
            let o = if rng.chance(3, 5) { rng.pick(&keys).0.clone() } else { g_name(rng) };
            HOp::DeleteAll(g_case_fix(rng, &o))
        }
        _ => {
            let m = gen_message(rng, z);
            let ok = |r: &Rr| r.rdata.is_empty() || to_rdata(r.rtype, &r.rdata).is_some();
            let pre: Vec<Rr> = m.pre.into_iter().filter(|r| pre_form(r) != "malformed" && ok(r)).collect();
            let upd: Vec<Rr> = m.upd.into_iter().filter(|r| upd_form(r) != "malformed" && ok(r)).collect();
            HOp::Manual { pre, upd, batch: rng.bool() }
        }
    }
}

pub fn gen_case(rng: &mut Rng) -> HCase {
    let zone = gen_zone(rng);
    let op = gen_op(rng, &zone);
    HCase { zone, op, edns: rng.bool() }
}

/// counters that must be seen (name, minimum over all shards); thresholds >= 3x below what the
/// quick tier observes at seeds 1..5
pub fn musts() -> Vec<(String, u64)> {
    let mut v: Vec<(String, u64)> = Vec::new();
    for (h, classes) in [
        ("create", &[("created", 800), ("exists", 700), ("ignored", 300)][..]),
        ("append", &[("must-exist-absent", 400), ("extended", 350), ("extended-must-exist", 350), ("new-rrset", 250), ("nothing-new", 300)][..]),
        ("compare_and_swap", &[("swapped", 1000), ("swapped-same", 220), ("mismatch-absent", 250), ("mismatch-subset", 120), ("mismatch-superset", 100), ("mismatch-other", 300)][..]),
        ("delete_by_rdata", &[("some-deleted", 220), ("rrset-gone", 500), ("no-such-rr", 400), ("protected", 350)][..]),
        ("delete_rrset", &[("deleted", 450), ("no-such-rrset", 200), ("protected", 220)][..]),
        ("delete_all", &[("deleted", 350), ("name-not-in-use", 70), ("apex", 220)][..]),
        ("trait_methods", &[("accepted", 700), ("prerequisite-fails", 220)][..]),
    ] {
        for (c, min) in classes {
            v.push((format!("H/{h}/{c}"), *min));
        }
    }
    v.push(("H/edns-on".into(), 5000));
    v.push(("H/edns-off".into(), 5000));
    v
}
