//! C03 — size-limited encoding truncates cleanly and never exceeds the limit.
//!
//! Direct path: `Message::emit` through a `BinEncoder` with `set_max_size(L)`; the *returned bytes*
//! are the contents of the caller's buffer after `emit` returned `Ok` (that is what
//! `Message::to_vec`, `MessageResponse::encode` and every other caller hand out — the encoder's
//! logical offset is not observable from outside the crate).
//! Oracle = the property statement on those bytes, for limit L ≥ 12:
//!   length     len ≤ L
//!   undecodable  the bytes walk with the independent walker `refwire` AND decode with
//!              `Message::from_vec`
//!   leftover-bytes  nothing remains after the last record (walk end == len)
//!   counts     header counts == records present (and what hickory decodes)
//!   prefix     every section is a prefix of the original section, record by record (owner bytes,
//!              type, class, ttl, decompressed RDATA); OPT and TSIG count as additional records
//!              appended after the cut: additional = prefix(plain additionals) ++ [OPT]? ++ [TSIG]?
//!   tc         TC == original TC ∨ (some record, OPT or TSIG dropped)
//!   header     id / flags other than TC / questions unchanged
//!   panic      no panic
//! Server path (hook H3, real `ResponseHandle`, the harness holds the `BufDnsStreamHandle`
//! receiver): UDP response ≤ max(512, advertised EDNS payload), TCP ≤ 65 535, exactly the bytes
//! handed to the stream handle; the same well-formedness clauses are applied to those bytes, and
//! the UDP answer is compared with the TCP answer to the same question (prefix / TC).
//! Three producers sit behind that hook (all judged by `judge_pair`):
//!   * `Catalog` over an `InMemoryZoneHandler` (never signs);
//!   * `signed.rs`: a harness-owned `RequestHandler` that builds responses from the generated
//!     zone's record sets with `MessageResponseBuilder` and calls `set_signature` with a TSIG
//!     record on three cases out of four (+ a TC clause against the number of records it built);
//!   * `tsigcat.rs`: `Catalog` over a `SqliteZoneHandler` with a TSIG key answering AXFR / UPDATE
//!     requests the harness signed itself (`reftsig`) — the responses a deployed server signs.
//!
//! Don't-cares: a record dropped (or `Err`) although the unbounded encoding would fit — happens
//! within a few octets of the full length because a name is written uncompressed before it is
//! replaced by a pointer; the statement does not forbid it (counted `emit_*_although_everything_fits`);
//! `emit` returning `Err` (the statement allows "either fails or …": counted as
//! `emit_err/*`, not judged — in particular every limit below the end of the question section);
//! which records are kept beyond "a prefix per section" (hickory goes on with the next section
//! after a cut; later, smaller records of the *same* section are not tried); OPT dropped while
//! TSIG still fits (counted `opt_dropped`); compression choices; the server's choice of records;
//! the TSIG record of a signed response dropped when it does not fit after the cut (TC has to be
//! set then; counted `*_udp_truncated_tsig_dropped` / `tsig_dropped`); whether the MAC of a
//! truncated signed response still verifies (computed over the complete message; not C03's
//! subject, never looked at).

#[path = "../c02/wire.rs"]
mod wire;
#[path = "../c12/reftsig.rs"]
mod reftsig;
mod signed;
mod tsigcat;

use std::collections::BTreeMap;
use std::net::{Ipv4Addr, SocketAddr};
use std::sync::Arc;

use futures::{FutureExt, StreamExt};
use hickory_net::runtime::TokioRuntimeProvider;
use hickory_net::xfer::Protocol;
use hickory_net::BufDnsStreamHandle;
use hickory_proto::op::Message;
use hickory_proto::rr::rdata::{A, AAAA, MX, NS, SOA, TXT};
use hickory_proto::rr::{LowerName, Name, RData, Record, RecordSet, RrKey};
use hickory_proto::serialize::binary::{BinEncodable, BinEncoder};
use hickory_server::dnssec::NxProofKind;
use hickory_server::server::{RequestHandler, ResponseHandle};
use hickory_server::store::in_memory::InMemoryZoneHandler;
use hickory_server::zone_handler::{AxfrPolicy, Catalog, ZoneHandler, ZoneType};
use hickory_server::Server;
use serde_json::{json, Value};

use vh::gen::{self, MsgOpts};
use vh::mon::{self, hex, unhex, Ctx, Reporter};
use vh::prng::{fnv64, Rng};
use vh::refwire::{self, WMessage};
use wire::CanonRecord;

// ---------------------------------------------------------------------------------------------
// statement on the returned bytes

struct Original {
    /// unbounded encoding
    full: Vec<u8>,
    w: WMessage,
    /// canonical records per section; additional split into plain / opt / tsig
    an: Vec<CanonRecord>,
    ns: Vec<CanonRecord>,
    ar_plain: Vec<CanonRecord>,
    opt: Option<CanonRecord>,
    tsig: Option<CanonRecord>,
}

fn split_sections(b: &[u8], w: &WMessage) -> (Vec<CanonRecord>, Vec<CanonRecord>, Vec<CanonRecord>) {
    let f = |i: usize| w.sections[i].iter().map(|r| wire::canon_record(b, r)).collect::<Vec<_>>();
    (f(0), f(1), f(2))
}

impl Original {
    fn new(full: Vec<u8>) -> Result<Self, String> {
        let w = refwire::walk(&full)?;
        if w.end != full.len() {
            return Err("unbounded encoding has leftover bytes".into());
        }
        let (an, ns, ar) = split_sections(&full, &w);
        let mut ar_plain = Vec::new();
        let (mut opt, mut tsig) = (None, None);
        for r in ar {
            match r.rtype {
                41 if opt.is_none() && tsig.is_none() => opt = Some(r),
                250 if tsig.is_none() => tsig = Some(r),
                _ => {
                    if opt.is_some() || tsig.is_some() {
                        return Err("unexpected record after OPT/TSIG in unbounded encoding".into());
                    }
                    ar_plain.push(r)
                }
            }
        }
        Ok(Self { full, w, an, ns, ar_plain, opt, tsig })
    }

    /// where does limit L fall in the unbounded encoding
    fn cut_class(&self, l: usize) -> &'static str {
        if l >= self.full.len() {
            return "beyond";
        }
        if l < self.w.question_end {
            return "in-question";
        }
        for r in self.w.all_records() {
            if l == r.start {
                return "boundary";
            }
            if l > r.start && l < r.end {
                let owner_end = r.rdata_off - 10;
                return if l < owner_end {
                    "in-owner"
                } else if l < r.rdata_off {
                    "in-fixed"
                } else {
                    "in-rdata"
                };
            }
        }
        "boundary"
    }
}

struct Verdicts<'a> {
    rep: &'a mut Reporter,
}

struct Judged {
    dropped: bool,
    kept: usize,
    /// the original's TSIG record is present in the judged bytes (false when the original has none)
    has_tsig: bool,
}

impl Verdicts<'_> {
    /// Judge `out` (bytes returned for limit `limit`) against the original. `path` names the
    /// producer ("emit", "server|udp", ...); `case` is the replayable case.
    #[allow(clippy::too_many_arguments)]
    fn judge(&mut self, path: &str, orig: &Original, orig_tc: bool, limit: usize, out: &[u8], cut: &str, case: &Value) -> Option<Judged> {
        let obs = |extra: Value| json!({"returned_len": out.len(), "limit": limit, "returned": hex(&out[..out.len().min(4096)]), "detail": extra});
        if out.len() > limit {
            self.rep.violation("length", &format!("{path}|{cut}"), case.clone(), json!({"max_len": limit}), obs(json!(null)));
        }
        let w = match refwire::walk(out) {
            Ok(w) => w,
            Err(e) => {
                self.rep.violation("undecodable", &format!("{path}|refwire|{cut}"), case.clone(), json!("returned bytes walk as a DNS message"), obs(json!(e)));
                return None;
            }
        };
        let hk = match mon::catch(|| Message::from_vec(out)) {
            Ok(Ok(m)) => Some(m),
            Ok(Err(e)) => {
                self.rep.violation("undecodable", &format!("{path}|hickory|{cut}"), case.clone(), json!("Message::from_vec decodes the returned bytes"), obs(json!(format!("{e:?}"))));
                None
            }
            Err(p) => {
                self.rep.violation("panic", &format!("{path}|decode|{}", p.site()), case.clone(), json!("no panic"), obs(json!({"panic": p.message, "at": p.location})));
                None
            }
        };
        let (an, ns, ar) = split_sections(out, &w);
        // additional = prefix(plain) ++ [OPT]? ++ [TSIG]?
        let mut k = 0;
        while k < ar.len() && k < orig.ar_plain.len() && ar[k] == orig.ar_plain[k] {
            k += 1;
        }
        let mut rest = &ar[k..];
        let mut has_opt = false;
        let mut has_tsig = false;
        if let (Some(o), Some(first)) = (&orig.opt, rest.first()) {
            if first == o {
                has_opt = true;
                rest = &rest[1..];
            }
        }
        if let (Some(t), Some(first)) = (&orig.tsig, rest.first()) {
            if first == t {
                has_tsig = true;
                rest = &rest[1..];
            }
        }
        let is_prefix = |a: &[CanonRecord], b: &[CanonRecord]| a.len() <= b.len() && a.iter().zip(b.iter()).all(|(x, y)| x == y);
        let dropped = an.len() < orig.an.len()
            || ns.len() < orig.ns.len()
            || k < orig.ar_plain.len()
            || (orig.opt.is_some() && !has_opt)
            || (orig.tsig.is_some() && !has_tsig);
        let trunc = if dropped { "truncated" } else { "not-truncated" };
        if w.end != out.len() {
            self.rep.violation(
                "leftover-bytes",
                // one signature per producer (emit / server), not per transport or cut class:
                // the clause has a single cause wherever it shows
                &format!("{}|{trunc}", path.split('|').next().unwrap_or(path)),
                case.clone(),
                json!({"consumed_by_decoder": out.len()}),
                obs(json!({"consumed_by_decoder": w.end, "left_over": out.len() - w.end, "cut_class": cut})),
            );
        }
        if let Some(m) = &hk {
            let got = [m.queries.len(), m.answers.len(), m.authorities.len(), m.additionals.len() + m.edns.is_some() as usize + m.signature.is_some() as usize];
            let hdr = [w.header.qd as usize, w.header.an as usize, w.header.ns as usize, w.header.ar as usize];
            if got != hdr {
                self.rep.violation("counts", &format!("{path}|{cut}"), case.clone(), json!({"header_counts": hdr}), obs(json!({"records_decoded": got})));
            }
        }
        for (name, got, want) in [("answers", &an, &orig.an), ("authorities", &ns, &orig.ns)] {
            if !is_prefix(got, want) {
                let i = got.iter().zip(want.iter()).position(|(x, y)| x != y).unwrap_or(want.len());
                self.rep.violation(
                    "prefix",
                    &format!("{path}|{name}|{cut}"),
                    case.clone(),
                    json!({"section": name, "original_len": want.len(), "record": want.get(i).map(|r| format!("{r:?}"))}),
                    obs(json!({"len": got.len(), "first_bad_index": i, "record": got.get(i).map(|r| format!("{r:?}"))})),
                );
            }
        }
        if !rest.is_empty() {
            self.rep.violation(
                "prefix",
                &format!("{path}|additionals|{cut}"),
                case.clone(),
                json!({"section": "additionals", "shape": "prefix(plain) ++ [OPT]? ++ [TSIG]?", "plain_len": orig.ar_plain.len(), "opt": orig.opt.is_some(), "tsig": orig.tsig.is_some()}),
                obs(json!({"matched_plain": k, "opt": has_opt, "tsig": has_tsig, "unexplained": rest.iter().map(|r| format!("{r:?}")).collect::<Vec<_>>()})),
            );
        }
        let want_tc = orig_tc || dropped;
        if w.header.tc() != want_tc {
            self.rep.violation(
                "tc",
                &format!("{path}|want-{}|{cut}", want_tc as u8),
                case.clone(),
                json!({"tc": want_tc, "original_tc": orig_tc, "dropped": dropped}),
                obs(json!({"tc": w.header.tc(), "kept": [an.len(), ns.len(), k], "opt": has_opt, "tsig": has_tsig})),
            );
        }
        // the rest of the header and the question section are untouched
        let oh = &orig.w.header;
        if w.header.id != oh.id || (w.header.flags & !0x0200) != (oh.flags & !0x0200) || out.get(12..w.question_end) != orig.full.get(12..orig.w.question_end) {
            self.rep.violation("header", &format!("{path}|{cut}"), case.clone(), json!({"id": oh.id, "flags": oh.flags}), obs(json!({"id": w.header.id, "flags": w.header.flags})));
        }
        if orig.opt.is_some() && !has_opt {
            self.rep.count("opt_dropped");
        }
        if orig.tsig.is_some() && !has_tsig {
            self.rep.count("tsig_dropped");
        }
        Some(Judged { dropped, kept: an.len() + ns.len() + k, has_tsig })
    }
}

// ---------------------------------------------------------------------------------------------
// direct path

fn err_kind(e: &dyn std::fmt::Debug) -> String {
    let s = format!("{e:?}");
    let end = s.find(|c: char| !(c.is_alphanumeric() || c == '_')).unwrap_or(s.len());
    if end == 0 {
        "Other".into()
    } else {
        s[..end].to_string()
    }
}

fn emit_limited(m: &Message, limit: u16) -> Result<Result<Vec<u8>, String>, mon::PanicRecord> {
    mon::catch(|| {
        let mut buf: Vec<u8> = Vec::with_capacity(512);
        let r = {
            let mut enc = BinEncoder::new(&mut buf);
            enc.set_max_size(limit);
            m.emit(&mut enc)
        };
        match r {
            Ok(()) => Ok(buf),
            Err(e) => Err(err_kind(&e)),
        }
    })
}

fn limits_for(orig: &Original, rng: &mut Rng, thorough: bool) -> Vec<usize> {
    let mut ls: Vec<usize> = vec![12, 13, 511, 512, 513, 1231, 1232, 1233, 65534, 65535];
    let full_len = orig.full.len();
    let recs: Vec<_> = orig.w.all_records().collect();
    // every record boundary ±{0,1,2} and two interior points of every record; for long messages
    // sample the records (quick) so the number of limits per message stays ~60-200
    let cap = if thorough { 64 } else { 14 };
    let step = recs.len().div_ceil(cap).max(1);
    let off = if step > 1 { rng.usize_below(step) } else { 0 };
    for (i, r) in recs.iter().enumerate() {
        if i % step != off % step && i + 1 != recs.len() && i != 0 {
            continue;
        }
        for b in [r.start, r.end] {
            for d in [-2i64, -1, 0, 1, 2] {
                ls.push((b as i64 + d).max(0) as usize);
            }
        }
        let owner_end = r.rdata_off - 10;
        if owner_end > r.start + 1 {
            ls.push(r.start + 1 + rng.usize_below(owner_end - r.start - 1));
        }
        if r.rdata_len > 1 {
            ls.push(r.rdata_off + 1 + rng.usize_below(r.rdata_len - 1));
        }
        ls.push(r.rdata_off - rng.urange(1, 9)); // inside type/class/ttl/rdlength
    }
    ls.push(orig.w.question_end);
    for _ in 0..4 {
        ls.push(rng.urange(12, full_len + 8));
    }
    ls.retain(|l| *l >= 12 && *l <= 65535);
    ls.sort_unstable();
    ls.dedup();
    ls
}

fn direct_case(v: &mut Verdicts, b: &[u8], limits: Option<&[usize]>, rng: &mut Rng, thorough: bool) {
    // message value = what hickory decodes from generated wire bytes b
    let Ok(Ok(m)) = mon::catch(|| Message::from_vec(b)) else {
        v.rep.count("gen_rejected");
        return;
    };
    let full = match mon::catch(|| m.to_vec()) {
        Ok(Ok(f)) => f,
        _ => {
            v.rep.count("unbounded_encode_failed");
            return;
        }
    };
    let orig = match Original::new(full) {
        Ok(o) => o,
        Err(_) => {
            // C02's business (clause D)
            v.rep.count("unbounded_not_walkable");
            return;
        }
    };
    let orig_tc = m.metadata.truncation;
    let own;
    let limits = match limits {
        Some(l) => l,
        None => {
            own = limits_for(&orig, rng, thorough);
            &own
        }
    };
    v.rep.count("messages");
    v.rep.count(&format!("messages/edns{}-tsig{}", m.edns.is_some() as u8, m.signature.is_some() as u8));
    for &l in limits {
        let case = json!({"kind": "emit", "hex": hex(b), "limit": l});
        let cut = orig.cut_class(l);
        v.rep.eval();
        match emit_limited(&m, l as u16) {
            Err(p) => {
                v.rep.violation("panic", &format!("emit|{}", p.site()), case, json!("Ok or Err"), json!({"panic": p.message, "at": p.location}));
            }
            Ok(Err(kind)) => {
                v.rep.count(&format!("emit_err/{kind}"));
                if l >= orig.full.len() {
                    v.rep.count("emit_err_although_everything_fits");
                } else if l >= orig.w.question_end {
                    v.rep.count("emit_err_although_questions_fit");
                }
            }
            Ok(Ok(out)) => {
                v.rep.count("emit_ok");
                if l >= orig.full.len() && out != orig.full {
                    // allowed by the statement (a record is dropped when its *uncompressed* form
                    // momentarily exceeds the limit); recorded as observed behaviour
                    v.rep.count("emit_differs_although_everything_fits");
                }
                if let Some(j) = v.judge("emit", &orig, orig_tc, l, &out, cut, &case) {
                    if j.dropped {
                        v.rep.count("truncations");
                        v.rep.count(&format!("trunc_cut/{cut}"));
                        v.rep.count(&format!("trunc/edns{}-tsig{}", m.edns.is_some() as u8, m.signature.is_some() as u8));
                        let mut key = orig.full.clone();
                        key.extend_from_slice(&(l as u32).to_be_bytes());
                        v.rep.nontrivial(fnv64(&key));
                        // distinct (records kept, cut class) pairs
                        v.rep.max("max_records_kept_when_truncated", j.kept as f64);
                        if j.kept > 0 {
                            v.rep.count("truncations_with_records_kept");
                        }
                        if l < 512 {
                            v.rep.count("truncations_below_512");
                        }
                    } else {
                        v.rep.count("complete");
                    }
                }
            }
        }
    }
}

/// The probed shape: n TXT records of `size` octets each under one owner.
fn txt_message(rng: &mut Rng, n: usize, size: usize, with_opt: bool) -> Vec<u8> {
    let mut b = Vec::new();
    let ar = with_opt as u16;
    refwire::put_header(&mut b, &refwire::WHeader { id: rng.u16(), flags: 0x8400, qd: 1, an: n as u16, ns: 0, ar });
    let owner = refwire::labels_of("big.example.com.");
    refwire::put_question(&mut b, &owner, 16, 1);
    for i in 0..n {
        let mut rd = vec![size as u8];
        rd.extend((0..size).map(|k| b'a' + ((i + k) % 26) as u8));
        refwire::put_record(&mut b, &owner, 16, 1, 300, &rd);
    }
    if with_opt {
        refwire::put_record(&mut b, &[], 41, 1232, 0, &[]);
    }
    b
}

// ---------------------------------------------------------------------------------------------
// server path

const ORIGIN: &str = "z.test.";

struct ZoneSpec {
    /// (label, type, number of records, size parameter)
    sets: Vec<(String, u16, usize, usize)>,
}

fn zone_spec(zseed: u64) -> ZoneSpec {
    let mut r = Rng::new(zseed ^ 0xC03);
    let mut sets = Vec::new();
    let sizes = [1usize, 2, 5, 13, 28, 29, 30, 31, 60, 100, 200, 400];
    for (i, n) in sizes.iter().enumerate() {
        let t = *r.pick(&[1u16, 16, 28, 15, 2]);
        let n = if r.chance(1, 3) { r.urange(1, 400) } else { *n };
        let size = match t {
            16 => *r.pick(&[1usize, 10, 50, 120, 200, 255]),
            _ => r.urange(1, 6),
        };
        sets.push((format!("r{i}"), t, n, size));
    }
    // one RRset that cannot fit into 65 535 octets, so the TCP limit is reachable in every zone
    sets.push(("big".to_string(), 16, 400, *r.pick(&[200usize, 255])));
    ZoneSpec { sets }
}

/// The records of one generated RRset `(label, type, n, size)` and the address records of the
/// MX / NS targets it names.
fn set_records(label: &str, t: u16, n: usize, size: usize) -> (Vec<Record>, Vec<Record>) {
    let owner = Name::from_ascii(format!("{label}.{ORIGIN}")).unwrap();
    let (mut recs, mut glue) = (Vec::new(), Vec::new());
    for i in 0..n {
        let rd = match t {
            1 => RData::A(A::from(Ipv4Addr::from(0x0a00_0000u32 + i as u32))),
            28 => RData::AAAA(AAAA::from(std::net::Ipv6Addr::from(0x2001_0db8_0000_0000_0000_0000_0000_0000u128 + i as u128))),
            16 => {
                let s: Vec<u8> = (0..size).map(|k| b'a' + ((i + k) % 26) as u8).collect();
                let tag = format!("{i:04}").into_bytes();
                RData::TXT(TXT::from_bytes(vec![&tag, &s]))
            }
            15 => {
                let x = Name::from_ascii(format!("mx{i}-{}.{label}.{ORIGIN}", "m".repeat(size))).unwrap();
                glue.push(Record::from_rdata(x.clone(), 300, RData::A(A::from(Ipv4Addr::from(0x0b00_0000u32 + i as u32)))));
                RData::MX(MX::new(i as u16, x))
            }
            _ => {
                let x = Name::from_ascii(format!("ns{i}-{}.{label}.{ORIGIN}", "n".repeat(size))).unwrap();
                glue.push(Record::from_rdata(x.clone(), 300, RData::A(A::from(Ipv4Addr::from(0x0c00_0000u32 + i as u32)))));
                RData::NS(NS(x))
            }
        };
        recs.push(Record::from_rdata(owner.clone(), 300, rd));
    }
    (recs, glue)
}

fn soa_record() -> Record {
    Record::from_rdata(
        Name::from_ascii(ORIGIN).unwrap(),
        3600,
        RData::SOA(SOA::new(Name::from_ascii("ns.z.test.").unwrap(), Name::from_ascii("admin.z.test.").unwrap(), 1, 3600, 600, 86400, 300)),
    )
}

fn build_catalog(spec: &ZoneSpec) -> Catalog {
    let origin = Name::from_ascii(ORIGIN).unwrap();
    let mut records: BTreeMap<RrKey, RecordSet> = BTreeMap::new();
    let mut add = |rec: Record| {
        let key = RrKey::new(LowerName::from(&rec.name), rec.record_type());
        records.entry(key).or_insert_with(|| RecordSet::new(rec.name.clone(), rec.record_type(), 0)).insert(rec, 0);
    };
    add(soa_record());
    add(Record::from_rdata(origin.clone(), 3600, RData::NS(NS(Name::from_ascii("ns.z.test.").unwrap()))));
    add(Record::from_rdata(Name::from_ascii("ns.z.test.").unwrap(), 3600, RData::A(A::new(192, 0, 2, 53))));
    for (label, t, n, size) in &spec.sets {
        let (recs, glue) = set_records(label, *t, *n, *size);
        for r in glue.into_iter().chain(recs) {
            add(r);
        }
    }
    let h: InMemoryZoneHandler<TokioRuntimeProvider> =
        InMemoryZoneHandler::new(origin.clone(), records, ZoneType::Primary, AxfrPolicy::Deny, None::<NxProofKind>).expect("zone");
    let mut cat = Catalog::new();
    cat.upsert(LowerName::from(&origin), vec![Arc::new(h) as Arc<dyn ZoneHandler>]);
    cat
}

fn request_bytes(id: u16, qname: &str, qtype: u16, payload: Option<u16>, do_bit: bool, rd: bool) -> Vec<u8> {
    let mut b = Vec::new();
    refwire::put_header(&mut b, &refwire::WHeader { id, flags: if rd { 0x0100 } else { 0 }, qd: 1, an: 0, ns: 0, ar: payload.is_some() as u16 });
    refwire::put_question(&mut b, &refwire::labels_of(qname), qtype, 1);
    if let Some(p) = payload {
        refwire::put_record(&mut b, &[], 41, p, if do_bit { 0x8000 } else { 0 }, &[]);
    }
    b
}

fn src() -> SocketAddr {
    "192.0.2.9:5353".parse().unwrap()
}

/// Send one request through the real gate with a real ResponseHandle; returns the byte strings
/// handed to the stream handle.
async fn ask<H: RequestHandler>(server: &Server<H>, req: &[u8], proto: Protocol) -> Vec<Vec<u8>> {
    let (sh, mut rx) = BufDnsStreamHandle::new(src());
    let rh = ResponseHandle::new(src(), sh, proto);
    server.verif_handle_request(bytes::Bytes::from(req.to_vec()), src(), proto, rh).await;
    let mut out = Vec::new();
    while let Some(Some(m)) = rx.next().now_or_never() {
        let (bytes, _addr) = m.into_parts();
        out.push(bytes);
    }
    out
}

const PAYLOADS: &[Option<u16>] = &[None, Some(0), Some(100), Some(511), Some(512), Some(513), Some(1232), Some(4096), Some(65535)];

/// What `judge_pair` saw of the UDP answer.
struct PairSeen {
    /// at least one record (OPT / TSIG included) of the complete answer is missing (with a
    /// reference), resp. TC is set (without one)
    udp_truncated: bool,
    /// the last record of the UDP answer is a TSIG record
    udp_has_tsig: bool,
    has_reference: bool,
}

/// The server-path clauses on one (TCP answer, UDP answer) pair to the same request:
/// UDP ≤ `udp_limit` = max(512, advertised), TCP ≤ 65 535, both walk with nothing left over, and —
/// when the TCP answer is complete — the UDP answer is judged against it with every clause of
/// `judge` (counts, prefix per section with OPT / TSIG as appended additionals, TC iff dropped).
/// `pfx` prefixes the counters ("server" = Catalog path, "signed" = harness-owned handler, ...),
/// `tag` is appended to the transport in the signature ("" or "+tsig").
#[allow(clippy::too_many_arguments)]
fn judge_pair(v: &mut Verdicts, pfx: &str, tag: &str, tcp: &[u8], udp: &[u8], udp_limit: usize, case: &dyn Fn(&str) -> Value) -> Option<PairSeen> {
    v.rep.max(&format!("{pfx}_max_tcp_len"), tcp.len() as f64);
    v.rep.max(&format!("{pfx}_max_udp_len"), udp.len() as f64);
    let last_is_tsig = |b: &[u8], w: &WMessage| w.sections[2].last().is_some_and(|r| wire::canon_record(b, r).rtype == 250);
    // TCP: ≤ 65535 and well-formed; it is also the reference for the UDP answer
    let Ok(tw) = refwire::walk(tcp) else {
        v.rep.violation("undecodable", &format!("server|tcp{tag}|refwire"), case("tcp"), json!("response walks"), json!({"returned": hex(&tcp[..tcp.len().min(4096)])}));
        return None;
    };
    if tcp.len() > 65535 {
        v.rep.violation("length", &format!("server|tcp{tag}"), case("tcp"), json!({"max_len": 65535}), json!({"returned_len": tcp.len()}));
    }
    if tw.end != tcp.len() {
        let trunc = if tw.header.tc() { "truncated" } else { "not-truncated" };
        v.rep.violation(
            "leftover-bytes",
            &format!("server|{trunc}"),
            case("tcp"),
            json!({"consumed_by_decoder": tcp.len()}),
            json!({"returned_len": tcp.len(), "consumed_by_decoder": tw.end, "left_over": tcp.len() - tw.end}),
        );
    }
    if tw.header.tc() {
        v.rep.count(&format!("{pfx}_tcp_truncated"));
    }
    let mut seen = PairSeen { udp_truncated: false, udp_has_tsig: false, has_reference: false };
    // UDP judged against the TCP answer when that one is complete and well-formed
    let reference = if !tw.header.tc() && tw.end == tcp.len() { Original::new(tcp.to_vec()).ok() } else { None };
    if !tw.header.tc() && tw.end == tcp.len() && reference.is_none() {
        v.rep.count(&format!("{pfx}_tcp_reference_unusable"));
        return None;
    }
    if let Some(orig) = reference {
        seen.has_reference = true;
        let cut = orig.cut_class(udp_limit);
        let j = v.judge(&format!("server|udp{tag}"), &orig, false, udp_limit, udp, cut, &case("udp"))?;
        seen.udp_truncated = j.dropped;
        seen.udp_has_tsig = j.has_tsig;
        if j.dropped {
            v.rep.count(&format!("{pfx}_udp_truncations"));
            v.rep.count(&format!("{pfx}_trunc_cut/{cut}"));
            let mut key = tcp.to_vec();
            key.extend_from_slice(&(udp_limit as u32).to_be_bytes());
            v.rep.nontrivial(fnv64(&key));
        } else {
            v.rep.count(&format!("{pfx}_udp_complete"));
        }
    } else {
        // no reference: judge length / well-formedness only
        if udp.len() > udp_limit {
            v.rep.violation("length", &format!("server|udp{tag}|no-reference"), case("udp"), json!({"max_len": udp_limit}), json!({"returned_len": udp.len()}));
        }
        match refwire::walk(udp) {
            Ok(uw) => {
                if uw.end != udp.len() {
                    v.rep.violation(
                        "leftover-bytes",
                        "server|truncated",
                        case("udp"),
                        json!({"consumed_by_decoder": udp.len()}),
                        json!({"returned_len": udp.len(), "consumed_by_decoder": uw.end, "left_over": udp.len() - uw.end}),
                    );
                }
                if uw.header.tc() {
                    v.rep.count(&format!("{pfx}_udp_truncations"));
                }
                seen.udp_truncated = uw.header.tc();
                seen.udp_has_tsig = last_is_tsig(udp, &uw);
            }
            Err(e) => {
                v.rep.violation("undecodable", &format!("server|udp{tag}|refwire|no-reference"), case("udp"), json!("response walks"), json!({"error": e, "returned": hex(&udp[..udp.len().min(4096)])}));
                return None;
            }
        }
    }
    Some(seen)
}

/// One request over TCP and over UDP through the gate of `server`; `None` (after reporting /
/// counting) when there is not exactly one response each.
fn exchange<H: RequestHandler>(v: &mut Verdicts, rt: &tokio::runtime::Runtime, server: &Server<H>, pfx: &str, tag: &str, req: &[u8], case: &dyn Fn(&str) -> Value) -> Option<(Vec<u8>, Vec<u8>)> {
    let mut got = Vec::new();
    for (proto, name) in [(Protocol::Tcp, "tcp"), (Protocol::Udp, "udp")] {
        match mon::catch(|| rt.block_on(ask(server, req, proto))) {
            Ok(x) => got.push(x),
            Err(p) => {
                v.rep.violation("panic", &format!("server|{name}{tag}|{}", p.site()), case(name), json!("no panic"), json!({"panic": p.message, "at": p.location}));
                return None;
            }
        }
    }
    v.rep.eval();
    v.rep.eval();
    v.rep.count(&format!("{pfx}_requests"));
    let udp = got.pop()?;
    let tcp = got.pop()?;
    if tcp.len() != 1 || udp.len() != 1 {
        // exactly-once is C11's business; we need one response each to judge sizes
        v.rep.count(&format!("{pfx}_not_exactly_one_response"));
        return None;
    }
    Some((tcp.into_iter().next()?, udp.into_iter().next()?))
}

fn udp_limit_of(payload: Option<u16>) -> usize {
    payload.map_or(512usize, |p| (p as usize).max(512))
}

fn server_case(v: &mut Verdicts, rt: &tokio::runtime::Runtime, server: &Server<Catalog>, zseed: u64, req: &[u8], payload: Option<u16>) {
    let case = |proto: &str| json!({"kind": "server", "zseed": zseed, "request": hex(req), "protocol": proto, "payload": payload});
    let Some((tcp, udp)) = exchange(v, rt, server, "server", "", req, &case) else {
        return;
    };
    if judge_pair(v, "server", "", &tcp, &udp, udp_limit_of(payload), &case).is_some() {
        v.rep.count(&format!("server_payload/{}", payload.map_or("absent".to_string(), |p| p.to_string())));
    }
}

// ---------------------------------------------------------------------------------------------

fn main() {
    let ctx = Ctx::from_args("C03");
    mon::install_panic_monitor();
    let mut rep = Reporter::new(&ctx);
    let rt = tokio::runtime::Builder::new_current_thread().enable_all().start_paused(true).build().expect("runtime");

    if let Some(w) = ctx.replay_case() {
        let c = &w["case"];
        let mut v = Verdicts { rep: &mut rep };
        match c["kind"].as_str() {
            Some("emit") => {
                let b = unhex(c["hex"].as_str().unwrap_or(""));
                let l = c["limit"].as_u64().unwrap_or(512) as usize;
                let mut rng = Rng::new(1);
                direct_case(&mut v, &b, Some(&[l]), &mut rng, false);
            }
            Some("server") => {
                let zseed = c["zseed"].as_u64().unwrap_or(0);
                let req = unhex(c["request"].as_str().unwrap_or(""));
                let payload = c["payload"].as_u64().map(|p| p as u16);
                let server = Server::new(build_catalog(&zone_spec(zseed)));
                server_case(&mut v, &rt, &server, zseed, &req, payload);
            }
            Some("server-signed") => signed::replay(&mut v, &rt, c),
            Some("server-tsigcat") => tsigcat::replay(&mut v, &rt, c),
            _ => rep.inconclusive("replay: unknown case kind"),
        }
        rep.replay_finish();
    }

    let thorough = ctx.is_thorough();
    rep.must("truncations", if thorough { 100_000 } else { 10_000 });
    for c in ["boundary", "in-owner", "in-fixed", "in-rdata"] {
        rep.must(&format!("trunc_cut/{c}"), 300);
    }
    for k in ["edns0-tsig0", "edns1-tsig0", "edns0-tsig1", "edns1-tsig1"] {
        rep.must(&format!("trunc/{k}"), 300);
    }
    rep.must("complete", 1_000);
    rep.must("truncations_with_records_kept", 1_000);
    rep.must("server_requests", if thorough { 10_000 } else { 300 });
    rep.must("server_udp_truncations", 100);
    rep.must("server_udp_complete", 50);
    rep.must("server_tcp_truncated", 1);
    // responses with a TSIG record (signed.rs): signed UDP responses judged, of which truncated,
    // of which with the TSIG record kept / dropped
    rep.must("signed_udp_judged", 3_000);
    rep.must("signed_udp_truncated", 2_000);
    rep.must("signed_udp_truncated_tsig_kept", 400);
    rep.must("signed_udp_truncated_tsig_dropped", 1_000);
    rep.must("signed_udp_complete_with_tsig", 600);
    rep.must("scripted_requests", 600);
    // Catalog over a SqliteZoneHandler answering TSIG-signed AXFR / UPDATE (tsigcat.rs)
    rep.must("tsigcat_axfr_udp_judged", 800);
    rep.must("tsigcat_axfr_udp_truncated_tsig_kept", 100);
    rep.must("tsigcat_axfr_udp_truncated_tsig_dropped", 400);
    rep.must("tsigcat_axfr_udp_complete_with_tsig", 150);
    rep.must("tsigcat_update_udp_judged", 60);

    let mut rng = ctx.rng("main");
    let mut v = Verdicts { rep: &mut rep };

    // D1: the probed shape and its neighbours (enumeration split over shards)
    {
        let mut r = Rng::from_parts(ctx.seed, "C03/txt-shared", 0);
        let mut idx = 0u64;
        for n in [1usize, 2, 9, 10, 11, 40] {
            for size in [1usize, 45, 46, 47, 100, 255] {
                for with_opt in [false, true] {
                    let b = txt_message(&mut r, n, size, with_opt);
                    if ctx.mine(idx) {
                        direct_case(&mut v, &b, None, &mut rng, thorough);
                    }
                    idx += 1;
                }
            }
        }
    }

    // S: server path (before the bulk of the direct path: the reporter keeps witness links for
    // the first 10 000 violations of a shard only, and the known leftover finding floods them). Each shard builds its own zones (zone seed derived from the run seed).
    let n_req = ctx.budget(3_200, 50_000);
    let n_zones = (n_req / 100).max(1);
    let mut done = 0u64;
    for z in 0..n_zones {
        let zseed = rng.next_u64() >> 16;
        let spec = zone_spec(zseed);
        let server = Server::new(build_catalog(&spec));
        if z == 0 {
            v.rep.sample(|| json!({"workload": "server", "zseed": zseed, "rrsets": spec.sets.iter().map(|s| format!("{} type{} x{} size{}", s.0, s.1, s.2, s.3)).collect::<Vec<_>>()}));
        }
        while done < (z + 1) * n_req / n_zones {
            done += 1;
            let (label, t, _, _) = rng.pick(&spec.sets).clone();
            let (qname, qtype) = match rng.below(12) {
                0 => (ORIGIN.to_string(), 2u16),
                10 => (format!("big.{ORIGIN}"), 16),
                1 => (format!("{label}.{ORIGIN}"), 255),
                2 => (format!("nx-{}.{ORIGIN}", rng.below(100)), 1),
                _ => (format!("{label}.{ORIGIN}"), t),
            };
            let payload = *rng.pick(PAYLOADS);
            let req = request_bytes(rng.u16(), &qname, qtype, payload, rng.bool(), rng.bool());
            server_case(&mut v, &rt, &server, zseed, &req, payload);
        }
    }

    // T: server path with a harness-owned handler whose responses carry a TSIG record (signed.rs)
    signed::run(&mut v, &rt, &mut rng, ctx.budget(6_000, 60_000));

    // C: the realistic producer of signed responses — Catalog over a SqliteZoneHandler answering
    // TSIG-signed AXFR / UPDATE requests (tsigcat.rs)
    tsigcat::run(&mut v, &rt, &mut rng, ctx.budget(1_200, 12_000));

    // D2: generated messages biased to many / large records with shared suffixes, ± EDNS, ± TSIG
    let n_msgs = ctx.budget(10_000, 200_000);
    const RELIABLE: &[u16] = &[1, 2, 5, 6, 10, 12, 13, 15, 16, 28, 33, 37, 43, 44, 46, 47, 48, 52, 53, 59, 60, 61, 64, 65, 65305];
    for i in 0..n_msgs {
        let types = match rng.below(4) {
            0 => Some(vec![2, 5, 6, 12, 15, 33, 47, 65305, 16]),
            1 => Some(vec![16, 10, 61, 1, 28]),
            _ => Some(RELIABLE.to_vec()),
        };
        let opts = MsgOpts {
            max_records: match rng.below(8) {
                0 => 4,
                1 | 2 => 40,
                3 => 120,
                _ => 14,
            },
            with_opt: rng.bool(),
            with_tsig: rng.chance(1, 3),
            types,
            response: Some(true),
        };
        let b = gen::message_wire(&mut rng, &opts);
        if i < 2 {
            v.rep.sample(|| json!({"workload": "direct", "len": b.len(), "hex": hex(&b)}));
        }
        direct_case(&mut v, &b, None, &mut rng, thorough);
    }

    std::process::exit(rep.finish().min(0));
}
