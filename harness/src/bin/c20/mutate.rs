//! Hostile inputs for the robustness clause: character-, token- and line-level mutations of valid
//! zone texts, structured garbage from a vocabulary of master-file fragments, raw character noise.

use vh::prng::Rng;

const SPECIAL: &[&str] = &[
    "\"", "(", ")", ";", "\\", "@", "$", ".", "\n", "\r", "\r\n", "\t", " ", "\\.", "\\\"", "\\\\", "\\0", "\\00", "\\000", "\\255", "\\999", "\\1a", "..", "*", "=", ",", "\u{0}", "\u{1}", "\u{7f}",
    "\u{85}", "\u{a0}", "\u{2028}", "\u{3000}", "é", "ß", "日本", "\u{feff}", "\u{10ffff}", "٣", "²", "½",
];

const WORDS: &[&str] = &[
    "$ORIGIN", "$TTL", "$", "$ORIGIN .", "$TTL 1w2d", "$FOO", "$origin", "IN", "CH", "HS", "NONE", "ANY", "*", "in", "A", "AAAA", "ANAME", "CAA", "CERT", "CNAME", "CSYNC", "DS", "HINFO", "HTTPS", "MX",
    "NAPTR", "NS", "OPENPGPKEY", "PTR", "SMIMEA", "SOA", "SRV", "SSHFP", "SVCB", "TLSA", "TXT", "NULL", "OPT", "ANY", "AXFR", "IXFR", "DNSKEY", "RRSIG", "NSEC", "NSEC3", "NSEC3PARAM", "TSIG", "SIG", "KEY",
    "CDS", "CDNSKEY", "TYPE65534", "CLASS32", "0", "1", "255", "256", "65535", "65536", "4294967295", "4294967296", "99999999999999999999", "-1", "+1", "1w", "7102w", "1s2d3w4h2m", "1x", "1.2.3.4", "256.1.1.1",
    "1.2.3", "::", "::1", "1::2::3", "fe80::1%eth0", "::ffff:1.2.3.4", ".", "..", "@", "a.", "a..b.", ".a.", "example.com.", "xn--", "xn--a", "xn--zz-", "_sip._tcp", "a_b", "-a", "*.a", "a.*.b",
    "\"\"", "\"", "\"a b\"", "\"a\\\"b\"", "( )", "(", ")", "((", "))", ";", "; comment", "alpn=h2", "alpn=\"", "alpn=\"h2,h3\"", "\"alpn=)\"", "alpn=", "alpn", "alpn=\\,", "alpn=a\\", "port=", "port=65536",
    "port=\"", "\"port=(\"", "ipv4hint=", "ipv4hint=1.2.3.4,", "ipv4hint=,", "\"ipv4hint=1.2.3.4,(\"", "ipv6hint=::,", "ech=", "ech=AA", "ech=\"", "ech=!!!!", "\"ech=\"", "mandatory=", "mandatory=alpn,alpn",
    "mandatory=key65535", "\"mandatory=;\"", "mandatory", "no-default-alpn", "no-default-alpn=1", "key65535", "key65535=x", "key0", "key", "key99999", "key7=\"", "=", "=x", "==", "\"=\"", "AAAA", "AAA=",
    "AA==", "A", "====", "00", "0", "0g", "abcdef", "ABCDEF0", "RSASHA1", "issue", "128", "\\# 0", "\\#", "\\# 4 01020304",
];

/// one mutation step on a valid (or already mutated) text
pub fn mutate(rng: &mut Rng, text: &str) -> String {
    let chars: Vec<char> = text.chars().collect();
    let n = chars.len();
    let kind = rng.below(16);
    let pos = |rng: &mut Rng| if n == 0 { 0 } else { rng.usize_below(n + 1) };
    let collect = |v: &[char]| v.iter().collect::<String>();
    match kind {
        0 => {
            // insert a special fragment
            let p = pos(rng);
            format!("{}{}{}", collect(&chars[..p]), rng.pick(SPECIAL), collect(&chars[p..]))
        }
        1 => {
            // delete a run
            if n == 0 {
                return String::new();
            }
            let p = rng.usize_below(n);
            let k = rng.urange(1, 4).min(n - p);
            format!("{}{}", collect(&chars[..p]), collect(&chars[p + k..]))
        }
        2 => {
            // replace one char by a special fragment
            if n == 0 {
                return rng.pick(SPECIAL).to_string();
            }
            let p = rng.usize_below(n);
            format!("{}{}{}", collect(&chars[..p]), rng.pick(SPECIAL), collect(&chars[p + 1..]))
        }
        3 => {
            // truncate
            let p = pos(rng);
            collect(&chars[..p])
        }
        4 => {
            // replace one char by a random ASCII / control char
            if n == 0 {
                return String::new();
            }
            let p = rng.usize_below(n);
            let c = char::from_u32(rng.below(128) as u32).unwrap_or('x');
            format!("{}{}{}", collect(&chars[..p]), c, collect(&chars[p + 1..]))
        }
        5..=9 => {
            // token-level: split on blanks inside lines, keep separators
            let mut lines: Vec<Vec<String>> = text.split('\n').map(|l| l.split(' ').map(|s| s.to_string()).collect()).collect();
            let li = rng.usize_below(lines.len());
            let l = &mut lines[li];
            let ti = rng.usize_below(l.len());
            match kind {
                5 => l[ti] = rng.pick(WORDS).to_string(),
                6 => {
                    l.remove(ti);
                }
                7 => {
                    let t = l[ti].clone();
                    l.insert(ti, t);
                }
                8 => l.insert(ti, rng.pick(WORDS).to_string()),
                _ => {
                    let tj = rng.usize_below(l.len());
                    l.swap(ti, tj);
                }
            }
            lines.iter().map(|l| l.join(" ")).collect::<Vec<_>>().join("\n")
        }
        10..=12 => {
            // line-level: duplicate / delete / swap / join
            let mut lines: Vec<&str> = text.split('\n').collect();
            let li = rng.usize_below(lines.len());
            match kind {
                10 => {
                    let l = lines[li];
                    lines.insert(li, l);
                }
                11 => {
                    lines.remove(li);
                }
                _ => {
                    let lj = rng.usize_below(lines.len());
                    lines.swap(li, lj);
                }
            }
            if rng.chance(1, 8) {
                lines.join(" ")
            } else {
                lines.join("\n")
            }
        }
        13 => {
            // blow one token up (long label / long number / long string)
            let p = pos(rng);
            let k = *rng.pick(&[64usize, 256, 300, 1000, 3000]);
            let c = *rng.pick(&['a', '1', '.', ' ', '\\', 'A', '(', '"']);
            format!("{}{}{}", collect(&chars[..p]), std::iter::repeat(c).take(k).collect::<String>(), collect(&chars[p..]))
        }
        14 => {
            // unbalance: drop every ')' or every closing quote
            let c = *rng.pick(&[')', '"', '(']);
            let mut first = true;
            text.chars()
                .filter(|&x| {
                    if x == c && (first || rng.bool()) {
                        first = false;
                        false
                    } else {
                        true
                    }
                })
                .collect()
        }
        _ => {
            // splice with itself
            let p = pos(rng);
            let q = pos(rng);
            format!("{}{}", collect(&chars[..p]), collect(&chars[q.min(n)..]))
        }
    }
}

/// text assembled from master-file fragments (most lines look almost like a record)
pub fn structured_garbage(rng: &mut Rng) -> String {
    let nlines = rng.urange(1, 6);
    let mut s = String::new();
    for _ in 0..nlines {
        let shape = rng.below(6);
        if shape == 0 {
            // owner ttl class type + junk
            s.push_str(*rng.pick(&["a", "@", "", " ", "a.b.", "*", "\\.", "a\\", "a\\00", "a\\1"]));
            s.push(' ');
            if rng.bool() {
                s.push_str(*rng.pick(&["300", "1d", "0", "4294967295", "4294967296"]));
                s.push(' ');
            }
            if rng.bool() {
                s.push_str(*rng.pick(&["IN", "CH", "in", "ANY", "NONE"]));
                s.push(' ');
            }
            s.push_str(*rng.pick(&[
                "A", "AAAA", "ANAME", "CAA", "CERT", "CNAME", "CSYNC", "DS", "HINFO", "HTTPS", "MX", "NAPTR", "NS", "OPENPGPKEY", "PTR", "SMIMEA", "SOA", "SRV", "SSHFP", "SVCB", "TLSA", "TXT", "NULL", "DNSKEY",
                "OPT", "ANY",
            ]));
        }
        let ntok = rng.urange(0, 8);
        for _ in 0..ntok {
            s.push_str(*rng.pick(&[" ", " ", "\t", "", "  "]));
            if rng.chance(1, 6) {
                s.push_str(*rng.pick(SPECIAL));
            } else {
                s.push_str(*rng.pick(WORDS));
            }
        }
        s.push_str(*rng.pick(&["\n", "\n", "\n", "\r\n", "", " ; c\n", "\r", "\n\n"]));
    }
    s
}

/// raw character noise (valid UTF-8 by construction: the parser's input type is `str`)
pub fn raw_garbage(rng: &mut Rng, maxlen: usize) -> String {
    let n = match rng.below(10) {
        0 => rng.urange(0, 4),
        1..=7 => rng.urange(1, 200),
        _ => rng.urange(200, maxlen.max(201)),
    };
    let style = rng.below(4);
    let mut s = String::with_capacity(n);
    for _ in 0..n {
        let c = match style {
            0 => char::from_u32(rng.below(128) as u32).unwrap_or(' '),
            1 => *rng.pick(&['a', 'b', '1', '.', ' ', '\n', '\t', '(', ')', '"', ';', '\\', '@', '$', '=', ',', '-', '_', '*', 'I', 'N', 'A', 'T', 'X', '\r']),
            2 => {
                let x = rng.below(0x11_0000) as u32;
                char::from_u32(x).unwrap_or('\u{fffd}')
            }
            _ => {
                if rng.chance(1, 8) {
                    *rng.pick(&[' ', '\n', '\t'])
                } else {
                    char::from_u32(rng.range(0x21, 0x7e) as u32).unwrap_or('x')
                }
            }
        };
        s.push(c);
    }
    s
}

/// inputs whose single tokens / comments / lists / blank runs are several thousand characters long
pub fn long_token_garbage(rng: &mut Rng) -> String {
    let k = *rng.pick(&[4000usize, 4094, 4095, 4096, 4097, 5000, 20000, 65000]);
    let body: String = match rng.below(6) {
        0 => std::iter::repeat('a').take(k).collect(),
        1 => format!("; {}", std::iter::repeat('c').take(k).collect::<String>()),
        2 => format!("a 5 IN TXT \"{}\"", std::iter::repeat('q').take(k).collect::<String>()),
        3 => format!("a 5 IN OPENPGPKEY ( {} )", std::iter::repeat("AAAA ").take(k / 5).collect::<String>()),
        4 => format!("a 5 IN A 1.2.3.4{}", std::iter::repeat(' ').take(k).collect::<String>()),
        _ => format!("a 5 IN TXT {}", std::iter::repeat("x ").take(k / 2).collect::<String>()),
    };
    format!("{body}\n")
}
